//! A fixed battery of end-to-end cases built with the public API only. It is
//! compiled into both the hooked harness and the hooks-off binary; the two
//! must give the same outcomes (hook transparency), and the hooks-off binary
//! run in fresh processes gives the uncontrolled-nondeterminism leg of C13 and
//! the wall-clock leg of C06.

use std::collections::HashMap;
use std::path::Path;
use std::str::FromStr;

use chrono::{DateTime, Duration, FixedOffset, Utc};
use in_toto::crypto::{KeyId, PrivateKey, PublicKey, SignatureScheme};
use in_toto::models::byproducts::ByProducts;
use in_toto::models::rule::ArtifactRule;
use in_toto::models::step::Step;
use in_toto::models::{
    LayoutMetadata, LayoutMetadataBuilder, LinkMetadata, LinkMetadataBuilder, Metablock, MetadataWrapper, TargetDescription, VirtualTargetPath,
};
use in_toto::verifylib::in_toto_verify;

const ED: [&[u8]; 6] = [
    include_bytes!("../fixtures/keys/ed25519-1.pk8.der"),
    include_bytes!("../fixtures/keys/ed25519-2.pk8.der"),
    include_bytes!("../fixtures/keys/ed25519-3.pk8.der"),
    include_bytes!("../fixtures/keys/ed25519-4.pk8.der"),
    include_bytes!("../fixtures/keys/ed25519-5.pk8.der"),
    include_bytes!("../fixtures/keys/ed25519-6.pk8.der"),
];

fn key(i: usize) -> PrivateKey {
    PrivateKey::from_pkcs8(ED[i], SignatureScheme::Ed25519).unwrap()
}

fn kid(k: &PrivateKey) -> String {
    serde_json::to_value(k.key_id()).unwrap().as_str().unwrap().to_string()
}

fn arts(spec: &[(&str, u8)]) -> std::collections::BTreeMap<VirtualTargetPath, TargetDescription> {
    spec.iter()
        .map(|(p, n)| {
            let mut d = TargetDescription::new();
            d.insert(in_toto::crypto::HashAlgorithm::Sha256, in_toto::crypto::HashValue::new(vec![*n; 32]));
            (VirtualTargetPath::new(p.to_string()).unwrap(), d)
        })
        .collect()
}

fn link(name: &str, m: &[(&str, u8)], p: &[(&str, u8)]) -> LinkMetadata {
    LinkMetadataBuilder::new()
        .name(name.to_string())
        .materials(arts(m))
        .products(arts(p))
        .byproducts(ByProducts::new().set_return_value(0))
        .build()
        .unwrap()
}

fn step(name: &str, thr: u32, ks: &[&PrivateKey]) -> Step {
    let mut s = Step::new(name).threshold(thr);
    for k in ks {
        s = s.add_key(KeyId::from_str(&kid(k)).unwrap());
    }
    s
}

fn layout(steps: Vec<Step>, table: &[&PrivateKey], expires: DateTime<Utc>) -> LayoutMetadata {
    let mut b = LayoutMetadataBuilder::new().expires(expires).steps(steps);
    for k in table {
        b = b.add_key(k.public().clone());
    }
    b.build().unwrap()
}

fn write_link(dir: &Path, stepn: &str, k: &PrivateKey, mb: &Metablock) {
    std::fs::write(dir.join(format!("{stepn}.{}.link", &kid(k)[..8])), serde_json::to_string(mb).unwrap()).unwrap();
}

fn owners(ks: &[&PrivateKey]) -> HashMap<KeyId, PublicKey> {
    ks.iter().map(|k| (k.key_id().clone(), k.public().clone())).collect()
}

fn outcome(r: in_toto::Result<Metablock>) -> String {
    match r {
        Ok(mb) => format!("ok:{}", serde_json::to_string(&mb.metadata).unwrap()),
        Err(_) => "err".to_string(),
    }
}

fn fresh(root: &Path, name: &str) -> std::path::PathBuf {
    let p = root.join(name);
    let _ = std::fs::remove_dir_all(&p);
    std::fs::create_dir_all(&p).unwrap();
    p
}

/// Deterministic configurations (independent of the clock as long as it is
/// before 2090): (name, outcome).
pub fn deterministic(root: &Path) -> Vec<(String, String)> {
    let (o, a, b, c) = (key(5), key(0), key(1), key(2));
    let far = DateTime::parse_from_rfc3339("2090-01-01T00:00:00Z").unwrap().with_timezone(&Utc);
    let mut out = vec![];
    let mut run = |name: &str, lay: LayoutMetadata, signers: &[&PrivateKey], trust: &[&PrivateKey], dir: &Path| {
        let mb = Metablock::new(MetadataWrapper::Layout(lay), signers).unwrap();
        out.push((name.to_string(), outcome(in_toto_verify(&mb, owners(trust), dir.to_str().unwrap(), None))));
    };
    // 1 valid one-step layout
    let d = fresh(root, "valid");
    write_link(&d, "s", &a, &Metablock::new(MetadataWrapper::Link(link("s", &[("m", 1)], &[("p", 2)])), &[&a]).unwrap());
    run("valid-one-step", layout(vec![step("s", 1, &[&a])], &[&a], far), &[&o], &[&o], &d);
    // 2 two valid links that differ, threshold 1 (representative must be deterministic)
    let d = fresh(root, "differ");
    write_link(&d, "s", &a, &Metablock::new(MetadataWrapper::Link(link("s", &[], &[("p", 2)])), &[&a]).unwrap());
    write_link(&d, "s", &b, &Metablock::new(MetadataWrapper::Link(link("s", &[], &[("p", 3)])), &[&b]).unwrap());
    write_link(&d, "s", &c, &Metablock::new(MetadataWrapper::Link(link("s", &[], &[("p", 4)])), &[&c]).unwrap());
    run("three-links-differ-threshold-1", layout(vec![step("s", 1, &[&a, &b, &c])], &[&a, &b, &c], far), &[&o], &[&o], &d);
    // 3 threshold 2 with a dissenting link
    run("threshold-2-dissent", layout(vec![step("s", 2, &[&a, &b, &c])], &[&a, &b, &c], far), &[&o], &[&o], &d);
    // 4 unauthorised signer only
    let d2 = fresh(root, "unauth");
    write_link(&d2, "s", &b, &Metablock::new(MetadataWrapper::Link(link("s", &[], &[("p", 2)])), &[&b]).unwrap());
    run("only-unauthorised-link", layout(vec![step("s", 1, &[&a])], &[&a, &b], far), &[&o], &[&o], &d2);
    // 5 failing step rule
    let d3 = fresh(root, "rule");
    write_link(&d3, "s", &a, &Metablock::new(MetadataWrapper::Link(link("s", &[], &[("p", 2)])), &[&a]).unwrap());
    run("disallow-rule-fails", layout(vec![step("s", 1, &[&a]).add_expected_product(ArtifactRule::Disallow("*".into()))], &[&a], far), &[&o], &[&o], &d3);
    // 6 wrong owner key
    run("wrong-owner-key", layout(vec![step("s", 1, &[&a])], &[&a], far), &[&o], &[&c], &d3);
    // 7 delegated step
    let d4 = fresh(root, "sub");
    let inner = Metablock::new(MetadataWrapper::Layout(layout(vec![step("in", 1, &[&b])], &[&b], far)), &[&a]).unwrap();
    write_link(&d4, "s", &a, &inner);
    let sub = d4.join(format!("s.{}", &kid(&a)[..8]));
    std::fs::create_dir_all(&sub).unwrap();
    write_link(&sub, "in", &b, &Metablock::new(MetadataWrapper::Link(link("in", &[("m", 1)], &[("q", 5)])), &[&b]).unwrap());
    run("delegated-step", layout(vec![step("s", 1, &[&a])], &[&a], far), &[&o], &[&o], &d4);
    // 8 two steps, MATCH depends on the representative of the first
    let d5 = fresh(root, "match");
    write_link(&d5, "s", &a, &Metablock::new(MetadataWrapper::Link(link("s", &[], &[("p", 2)])), &[&a]).unwrap());
    write_link(&d5, "s", &b, &Metablock::new(MetadataWrapper::Link(link("s", &[], &[("p", 3)])), &[&b]).unwrap());
    write_link(&d5, "t", &c, &Metablock::new(MetadataWrapper::Link(link("t", &[("p", 3)], &[])), &[&c]).unwrap());
    let t = step("t", 1, &[&c])
        .add_expected_material(ArtifactRule::Match { pattern: "*".into(), in_src: None, with: in_toto::models::rule::Artifact::Products, in_dst: None, from: "s".into() })
        .add_expected_material(ArtifactRule::Disallow("*".into()));
    run("match-depends-on-representative", layout(vec![step("s", 1, &[&a, &b]), t], &[&a, &b, &c], far), &[&o], &[&o], &d5);
    out
}

/// Wall-clock leg: expiry = now + delta in several notations;
/// (text, delta seconds, outcome).
pub fn wall_clock(root: &Path) -> Vec<(String, i64, String)> {
    let o = key(5);
    let d = fresh(root, "expiry");
    let now = Utc::now();
    let mut out = vec![];
    // relative to the real clock, and absolute instants centuries in the past
    let far_past = |y: i32| (chrono::TimeZone::with_ymd_and_hms(&Utc, y, 1, 1, 0, 0, 0).unwrap() - now).num_seconds();
    for delta in [far_past(2), far_past(1000), far_past(1700), -31_536_000i64, -86_400, -3600, -2, 3600, 86_400, 31_536_000] {
        for off_min in [0i32, 330, -480, 840] {
            let instant = now + Duration::seconds(delta);
            // the layout is signed at second precision; the document spells the
            // same instant with an offset
            let lay = layout(vec![], &[], instant);
            let mb = Metablock::new(MetadataWrapper::Layout(lay), &[&o]).unwrap();
            let mut v = serde_json::to_value(&mb).unwrap();
            let text = instant.with_timezone(&FixedOffset::east_opt(off_min * 60).unwrap()).to_rfc3339_opts(chrono::SecondsFormat::Secs, false);
            v["signed"]["expires"] = serde_json::Value::String(text.clone());
            let mb: Metablock = serde_json::from_str(&v.to_string()).unwrap();
            out.push((text, delta, outcome(in_toto_verify(&mb, owners(&[&o]), d.to_str().unwrap(), None))));
        }
    }
    out
}

/// Ageing leg: one process verifies something, keeps running, and verifies layouts whose expiry
/// lies *after* that first verification - once before and once after their expiry.
/// (label, expires text, seconds past expiry when the call started, seconds past expiry when it
/// returned, outcome); negative = before expiry.
pub fn ageing(root: &Path) -> Vec<(String, String, f64, f64, String)> {
    let o = key(5);
    let a = key(0);
    let d = fresh(root, "ageing");
    let mut out = vec![];
    // the process's first verification (whatever a process-wide cache would latch on to)
    let first = Metablock::new(MetadataWrapper::Layout(layout(vec![], &[], Utc::now() + Duration::days(365))), &[&o]).unwrap();
    let _ = in_toto_verify(&first, owners(&[&o]), d.to_str().unwrap(), None);
    let t0 = Utc::now();
    let base = DateTime::<Utc>::from_timestamp(t0.timestamp(), 0).unwrap();
    // a delegated layout that will expire too, under a parent that does not
    let sub_dir = d.join(format!("s.{}", &kid(&a)[..8]));
    std::fs::create_dir_all(&sub_dir).unwrap();
    let mut cases: Vec<(String, DateTime<Utc>, Metablock)> = vec![];
    for secs in [2i64, 3] {
        let exp = base + Duration::seconds(secs);
        cases.push((format!("top-level expiring {secs} s after the first verification"), exp, Metablock::new(MetadataWrapper::Layout(layout(vec![], &[], exp)), &[&o]).unwrap()));
    }
    let sub_exp = base + Duration::seconds(3);
    let b = key(1);
    let sub = Metablock::new(MetadataWrapper::Layout(layout(vec![step("in", 1, &[&b])], &[&b], sub_exp)), &[&a]).unwrap();
    write_link(&d, "s", &a, &sub);
    write_link(&sub_dir, "in", &b, &Metablock::new(MetadataWrapper::Link(link("in", &[("m", 1)], &[("q", 5)])), &[&b]).unwrap());
    let parent = Metablock::new(MetadataWrapper::Layout(layout(vec![step("s", 1, &[&a])], &[&a], Utc::now() + Duration::days(365))), &[&o]).unwrap();
    cases.push(("delegated layout expiring 3 s after the first verification, parent unexpired".to_string(), sub_exp, parent));
    let rel = |t: DateTime<Utc>, exp: DateTime<Utc>| (t - exp).num_milliseconds() as f64 / 1000.0;
    for round in ["before", "after"] {
        if round == "after" {
            let until = base + Duration::milliseconds(4200);
            let wait = (until - Utc::now()).num_milliseconds().max(0) as u64;
            std::thread::sleep(std::time::Duration::from_millis(wait));
        }
        for (label, exp, mb) in &cases {
            let started = Utc::now();
            let r = outcome(in_toto_verify(mb, owners(&[&o]), d.to_str().unwrap(), None));
            let returned = Utc::now();
            out.push((format!("{label} [{round}]"), exp.to_rfc3339(), rel(started, *exp), rel(returned, *exp), r));
        }
    }
    out
}
