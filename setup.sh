#!/bin/sh
# Build the framework offline from files on disk only.
set -e
cd /verif/harness
export CARGO_NET_OFFLINE=true
export RUSTFLAGS="--cfg in_toto_verif"
export CARGO_TARGET_DIR=/verif/harness/target
[ -f Cargo.lock ] || cp /repo/Cargo.lock Cargo.lock
cargo build --release --offline
if [ -d /verif/harness-plain ]; then
  cd /verif/harness-plain
  unset RUSTFLAGS
  export CARGO_TARGET_DIR=/verif/harness-plain/target
  [ -f Cargo.lock ] || cp /repo/Cargo.lock Cargo.lock
  cargo build --release --offline
fi
