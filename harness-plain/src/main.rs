//! Hooks-off companion binary (built WITHOUT --cfg in_toto_verif).
//! usage: itv-plain battery <scratch-dir> | wallclock <scratch-dir> | ageing <scratch-dir>
#[path = "../../shared/battery.rs"]
mod battery;

fn main() {
    let args: Vec<String> = std::env::args().collect();
    let root = std::path::PathBuf::from(args.get(2).cloned().unwrap_or_else(|| "/tmp/itv-plain".into()));
    std::fs::create_dir_all(&root).unwrap();
    match args.get(1).map(|s| s.as_str()) {
        Some("battery") => {
            let v: Vec<_> = battery::deterministic(&root).into_iter().map(|(n, o)| serde_json::json!({"name": n, "outcome": o})).collect();
            println!("{}", serde_json::Value::Array(v));
        }
        Some("wallclock") => {
            let v: Vec<_> = battery::wall_clock(&root).into_iter().map(|(t, d, o)| serde_json::json!({"expires": t, "delta_s": d, "outcome": o})).collect();
            println!("{}", serde_json::Value::Array(v));
        }
        Some("ageing") => {
            let v: Vec<_> = battery::ageing(&root).into_iter().map(|(l, e, a, b, o)| serde_json::json!({"label": l, "expires": e, "started_past_expiry_s": a, "returned_past_expiry_s": b, "outcome": o})).collect();
            println!("{}", serde_json::Value::Array(v));
        }
        _ => {
            eprintln!("usage: itv-plain battery|wallclock|ageing <dir>");
            std::process::exit(2);
        }
    }
}
