//! Fixed key universe (no randomness: every key comes from a committed fixture).

use std::sync::OnceLock;

use in_toto::crypto::{PrivateKey, PublicKey, SignatureScheme};

pub const ED_PK8: [&[u8]; 6] = [
    include_bytes!("../../fixtures/keys/ed25519-1.pk8.der"),
    include_bytes!("../../fixtures/keys/ed25519-2.pk8.der"),
    include_bytes!("../../fixtures/keys/ed25519-3.pk8.der"),
    include_bytes!("../../fixtures/keys/ed25519-4.pk8.der"),
    include_bytes!("../../fixtures/keys/ed25519-5.pk8.der"),
    include_bytes!("../../fixtures/keys/ed25519-6.pk8.der"),
];
pub const ED1_KEYPAIR: &[u8] = include_bytes!("../../fixtures/keys/ed25519-1");
pub const ED1_PUB: &[u8] = include_bytes!("../../fixtures/keys/ed25519-1.pub");
pub const ED1_SPKI_NULL: &[u8] =
    include_bytes!("../../fixtures/keys/ed25519-1.spki.der");
pub const ED_SPKI_RFC8410: [&[u8]; 3] = [
    include_bytes!("../../fixtures/keys/ed25519-1.rfc8410.spki.der"),
    include_bytes!("../../fixtures/keys/ed25519-2.rfc8410.spki.der"),
    include_bytes!("../../fixtures/keys/ed25519-3.rfc8410.spki.der"),
];
pub const EC_PK8: [&[u8]; 3] = [
    include_bytes!("../../fixtures/keys/ec.pk8.der"),
    include_bytes!("../../fixtures/keys/ec-2.pk8.der"),
    include_bytes!("../../fixtures/keys/ec-3.pk8.der"),
];
pub const EC_SPKI: [&[u8]; 3] = [
    include_bytes!("../../fixtures/keys/ec.spki.der"),
    include_bytes!("../../fixtures/keys/ec-2.spki.der"),
    include_bytes!("../../fixtures/keys/ec-3.spki.der"),
];
pub const RSA_PK8: [&[u8]; 5] = [
    include_bytes!("../../fixtures/keys/rsa-2048.pk8.der"),
    include_bytes!("../../fixtures/keys/rsa-2048-b.pk8.der"),
    include_bytes!("../../fixtures/keys/rsa-4096.pk8.der"),
    // public exponents 0x800001 and 0x80000001 (top byte >= 0x80: DER needs a leading zero)
    include_bytes!("../../fixtures/keys/rsa-2048-e8388609.pk8.der"),
    include_bytes!("../../fixtures/keys/rsa-2048-e2147483649.pk8.der"),
];
pub const RSA_SPKI: [&[u8]; 5] = [
    include_bytes!("../../fixtures/keys/rsa-2048.spki.der"),
    include_bytes!("../../fixtures/keys/rsa-2048-b.spki.der"),
    include_bytes!("../../fixtures/keys/rsa-4096.spki.der"),
    include_bytes!("../../fixtures/keys/rsa-2048-e8388609.spki.der"),
    include_bytes!("../../fixtures/keys/rsa-2048-e2147483649.spki.der"),
];
/// More RSA sizes (3072 and the largest supported, 8192 bits), made by OpenSSL. ring does not
/// sign with 8192-bit keys, so these come with OpenSSL-made RSASSA-PSS signatures (salt length =
/// digest length, MGF1 with the same digest) over `REFMSG`.
pub const RSA_MORE_SPKI: [(&str, &[u8]); 2] = [
    ("rsa3072", include_bytes!("../../fixtures/keys/rsa-3072.spki.der")),
    ("rsa8192", include_bytes!("../../fixtures/keys/rsa-8192.spki.der")),
];
pub const RSA_3072_PK8: &[u8] = include_bytes!("../../fixtures/keys/rsa-3072.pk8.der");
pub const REFMSG: &[u8] = include_bytes!("../../fixtures/keys/refmsg.bin");
/// (key name, SPKI, signature made with SHA-256, signature made with SHA-512)
pub const RSA_REFSIGS: [(&str, &[u8], &[u8], &[u8]); 4] = [
    ("rsa2048a", include_bytes!("../../fixtures/keys/rsa-2048.spki.der"), include_bytes!("../../fixtures/keys/rsa-2048.pss-sha256.sig"), include_bytes!("../../fixtures/keys/rsa-2048.pss-sha512.sig")),
    ("rsa3072", include_bytes!("../../fixtures/keys/rsa-3072.spki.der"), include_bytes!("../../fixtures/keys/rsa-3072.pss-sha256.sig"), include_bytes!("../../fixtures/keys/rsa-3072.pss-sha512.sig")),
    ("rsa4096", include_bytes!("../../fixtures/keys/rsa-4096.spki.der"), include_bytes!("../../fixtures/keys/rsa-4096.pss-sha256.sig"), include_bytes!("../../fixtures/keys/rsa-4096.pss-sha512.sig")),
    ("rsa8192", include_bytes!("../../fixtures/keys/rsa-8192.spki.der"), include_bytes!("../../fixtures/keys/rsa-8192.pss-sha256.sig"), include_bytes!("../../fixtures/keys/rsa-8192.pss-sha512.sig")),
];
pub const ALICE_PUB_PEM: &str = include_str!("../../fixtures/keys/alice.pub");

/// A named signing key.
pub struct Key {
    pub name: &'static str,
    pub kind: &'static str,
    pub private: PrivateKey,
}

impl Key {
    pub fn public(&self) -> &PublicKey {
        self.private.public()
    }
    pub fn id(&self) -> String {
        serde_json::to_value(self.private.key_id())
            .unwrap()
            .as_str()
            .unwrap()
            .to_string()
    }
    pub fn prefix(&self) -> String {
        self.id()[..8].to_string()
    }
}

fn mk(name: &'static str, kind: &'static str, der: &[u8], scheme: SignatureScheme) -> Key {
    Key {
        name,
        kind,
        private: PrivateKey::from_pkcs8(der, scheme)
            .unwrap_or_else(|e| panic!("fixture key {name}: {e:?}")),
    }
}

/// All fixture keys:
/// ed1..ed6, ec1..ec3, rsa256a (2048), rsa256b (2048-b), rsa512a (2048, sha512),
/// rsa256c (4096), rsa512c (4096, sha512), rsa256e (e = 0x800001), rsa512f (e = 0x80000001).
pub fn all() -> &'static Vec<Key> {
    static K: OnceLock<Vec<Key>> = OnceLock::new();
    K.get_or_init(|| {
        let mut v = vec![];
        let names = ["ed1", "ed2", "ed3", "ed4", "ed5", "ed6"];
        for (i, n) in names.iter().enumerate() {
            v.push(mk(n, "ed25519", ED_PK8[i], SignatureScheme::Ed25519));
        }
        let names = ["ec1", "ec2", "ec3"];
        for (i, n) in names.iter().enumerate() {
            v.push(mk(n, "ecdsa", EC_PK8[i], SignatureScheme::EcdsaP256Sha256));
        }
        v.push(mk("rsa256a", "rsa-pss-sha256/2048", RSA_PK8[0], SignatureScheme::RsaSsaPssSha256));
        v.push(mk("rsa256b", "rsa-pss-sha256/2048", RSA_PK8[1], SignatureScheme::RsaSsaPssSha256));
        v.push(mk("rsa512a", "rsa-pss-sha512/2048", RSA_PK8[0], SignatureScheme::RsaSsaPssSha512));
        v.push(mk("rsa256c", "rsa-pss-sha256/4096", RSA_PK8[2], SignatureScheme::RsaSsaPssSha256));
        v.push(mk("rsa512c", "rsa-pss-sha512/4096", RSA_PK8[2], SignatureScheme::RsaSsaPssSha512));
        v.push(mk("rsa256e", "rsa-pss-sha256/2048", RSA_PK8[3], SignatureScheme::RsaSsaPssSha256));
        v.push(mk("rsa512f", "rsa-pss-sha512/2048", RSA_PK8[4], SignatureScheme::RsaSsaPssSha512));
        v
    })
}

pub fn get(name: &str) -> &'static Key {
    all()
        .iter()
        .find(|k| k.name == name)
        .unwrap_or_else(|| panic!("no fixture key {name}"))
}

pub fn ed(i: usize) -> &'static Key {
    &all()[i]
}
