//! Small, systematic edits of one leaf of a JSON document: the alphabet of "what somebody could
//! change in a signed file without it looking changed". Shared by the checks that judge
//! post-signing changes (C01 layouts, C02 links, C04 blocks, C05 signed bytes).
//!
//! An edit is named `<kind>@<json pointer>`; `edits` lists every applicable one, `apply` performs it.

use serde_json::{json, Value};

/// Re-spellings of one string that a lenient reader or writer might take for "the same".
pub const RESPELLINGS: [&str; 18] = ["z->+00:00", "z->+02:00", "z->-14:00", "slash->backslash", "backslash->slash", "upper", "lower", "first-letter-case", "trailing-space", "trailing-nul", "trailing-slash", "leading-dot-slash", "doubled-slash", "decomposed", "leading-space", "first-char+256", "last-char+256", "last-char+65536"];
/// Edits of an integer: wrap-around distances of the usual widths, neighbours, sign.
pub const NUMBER_EDITS: [&str; 9] = ["+1", "-1", "negated", "+2^8", "+2^16", "+2^31", "+2^32", "-2^32", "+2^63"];
/// A member's value moved to a second member whose *name* is a re-spelling of the first's, the
/// original member keeping an altered value: two members where one was signed. For readers that
/// fold member names (paths, identifiers, algorithm names) the two may become one.
pub const ALIAS_RESPELLINGS: [&str; 7] = ["trailing-slash", "doubled-slash", "leading-dot-slash", "upper", "first-letter-case", "trailing-space", "slash->backslash"];
/// Edits of a list of strings (a command line, above all): two neighbours joined with a blank, one
/// element cut at its first blank, an empty element appended - the same words, cut differently.
pub const LIST_EDITS: [&str; 3] = ["elements-joined", "element-split-at-blank", "empty-element-appended"];
/// Edits of null / empty values / booleans and of a member as a whole.
pub const SHAPE_EDITS: [&str; 10] = ["null->{}", "null->[]", "null->empty-string", "null->0", "null->false", "{}->null", "[]->null", "empty-string->null", "flipped", "member-removed"];

pub fn respell(cur: &str, kind: &str) -> Option<String> {
    let new = match kind {
        "slash->backslash" => cur.replace('/', "\\"),
        "backslash->slash" => cur.replace('\\', "/"),
        "upper" => cur.to_uppercase(),
        "lower" => cur.to_lowercase(),
        "first-letter-case" => {
            let i = cur.find(|c: char| c.is_ascii_alphabetic())?;
            let c = cur.as_bytes()[i] as char;
            let sw = if c.is_ascii_uppercase() { c.to_ascii_lowercase() } else { c.to_ascii_uppercase() };
            format!("{}{}{}", &cur[..i], sw, &cur[i + 1..])
        }
        // a time stamp written with an offset: the same instant (+00:00) or the same clock digits
        // read somewhere else (another instant)
        "z->+00:00" | "z->+02:00" | "z->-14:00" => {
            let looks_like_time = cur.len() >= 20 && cur.ends_with('Z') && cur.as_bytes()[10] == b'T' && cur.as_bytes()[4] == b'-' && cur.as_bytes()[13] == b':';
            if !looks_like_time {
                return None;
            }
            format!("{}{}", &cur[..cur.len() - 1], &kind[3..])
        }
        // (internal, for "another value of the same shape") a hex text with another first digit
        "other-first-digit" => {
            let c = cur.chars().next()?;
            if !c.is_ascii_hexdigit() || !cur.chars().all(|c| c.is_ascii_hexdigit()) {
                return None;
            }
            format!("{}{}", if c == '0' { '1' } else { '0' }, &cur[1..])
        }
        "trailing-space" => format!("{cur} "),
        "leading-space" => format!(" {cur}"),
        "trailing-nul" => format!("{cur}\u{0}"),
        "trailing-slash" => format!("{cur}/"),
        "leading-dot-slash" => format!("./{cur}"),
        "doubled-slash" => cur.replace('/', "//"),
        // the character 256 (65536) code points further on: equal in its low byte (low 16 bits)
        "first-char+256" => {
            let c = cur.chars().next()?;
            let twin = char::from_u32(c as u32 + 0x100)?;
            format!("{twin}{}", &cur[c.len_utf8()..])
        }
        "last-char+256" | "last-char+65536" => {
            let c = cur.chars().last()?;
            let twin = char::from_u32(c as u32 + if kind == "last-char+256" { 0x100 } else { 0x10000 })?;
            format!("{}{twin}", &cur[..cur.len() - c.len_utf8()])
        }
        // U+00E9 -> 'e' + U+0301 (canonically equivalent, different code points)
        "decomposed" => cur.replace('\u{e9}', "e\u{301}"),
        _ => return None,
    };
    if new == cur {
        None
    } else {
        Some(new)
    }
}

fn renumber(cur: &Value, kind: &str) -> Option<Value> {
    let n = cur.as_i64().map(|n| n as i128).or_else(|| cur.as_u64().map(|n| n as i128))?;
    let m: i128 = match kind {
        "+1" => n + 1,
        "-1" => n - 1,
        "negated" => -n,
        "+2^8" => n + (1 << 8),
        "+2^16" => n + (1 << 16),
        "+2^31" => n + (1 << 31),
        "+2^32" => n + (1 << 32),
        "-2^32" => n - (1 << 32),
        "+2^63" => n + (1i128 << 63),
        _ => return None,
    };
    if m == n {
        return None;
    }
    if let Ok(x) = i64::try_from(m) {
        Some(json!(x))
    } else if let Ok(x) = u64::try_from(m) {
        Some(json!(x))
    } else {
        None
    }
}

fn reshape(cur: &Value, kind: &str) -> Option<Value> {
    let is_empty_obj = cur.as_object().map(|o| o.is_empty()).unwrap_or(false);
    let is_empty_arr = cur.as_array().map(|a| a.is_empty()).unwrap_or(false);
    match kind {
        "null->{}" if cur.is_null() => Some(json!({})),
        "null->[]" if cur.is_null() => Some(json!([])),
        "null->empty-string" if cur.is_null() => Some(json!("")),
        "null->0" if cur.is_null() => Some(json!(0)),
        "null->false" if cur.is_null() => Some(json!(false)),
        "{}->null" if is_empty_obj => Some(Value::Null),
        "[]->null" if is_empty_arr => Some(Value::Null),
        "empty-string->null" if cur.as_str() == Some("") => Some(Value::Null),
        "flipped" => cur.as_bool().map(|b| json!(!b)),
        _ => None,
    }
}

fn escape(k: &str) -> String {
    k.replace('~', "~0").replace('/', "~1")
}

fn walk(v: &Value, at: &str, out: &mut Vec<String>) {
    match v {
        Value::String(s) => {
            for k in RESPELLINGS {
                if respell(s, k).is_some() {
                    out.push(format!("{k}@{at}"));
                }
            }
            if s.is_empty() {
                out.push(format!("empty-string->null@{at}"));
            }
        }
        Value::Number(_) => {
            for k in NUMBER_EDITS {
                if renumber(v, k).is_some() {
                    out.push(format!("{k}@{at}"));
                }
            }
        }
        Value::Null | Value::Bool(_) => {
            for k in SHAPE_EDITS {
                if reshape(v, k).is_some() {
                    out.push(format!("{k}@{at}"));
                }
            }
        }
        Value::Array(a) => {
            if a.is_empty() {
                out.push(format!("[]->null@{at}"));
            }
            if !a.is_empty() && a.iter().all(|x| x.is_string()) {
                out.push(format!("empty-element-appended@{at}"));
                for i in 0..a.len() {
                    if i + 1 < a.len() {
                        out.push(format!("elements-joined@{at}/{i}"));
                    }
                    if a[i].as_str().map(|t| t.trim().contains(' ')).unwrap_or(false) {
                        out.push(format!("element-split-at-blank@{at}/{i}"));
                    }
                }
            }
            for (i, x) in a.iter().enumerate() {
                walk(x, &format!("{at}/{i}"), out);
            }
        }
        Value::Object(o) => {
            if o.is_empty() {
                out.push(format!("{{}}->null@{at}"));
            }
            for (k, x) in o {
                let p = format!("{at}/{}", escape(k));
                out.push(format!("member-removed@{p}"));
                for r in ALIAS_RESPELLINGS {
                    if !free_text_names(at) {
                        break;
                    }
                    if let Some(alias) = respell(k, r) {
                        if !o.contains_key(&alias) && altered(x).is_some() {
                            out.push(format!("alias-member:{r}@{p}"));
                        }
                    }
                }
                walk(x, &p, out);
            }
        }
    }
}

/// Objects of the metadata formats whose member names are data (artifact paths, algorithm names,
/// environment and byproduct names), by the pointer of the object. (Key-table labels are left to C12: an alias label is a misfiled entry, which the reader drops.)
fn free_text_names(at: &str) -> bool {
    let parts: Vec<&str> = at.split('/').collect();
    match parts.as_slice() {
        ["", "materials"] | ["", "products"] | ["", "environment"] | ["", "byproducts"] => true,
        ["", "materials", _] | ["", "products", _] => true,
        _ => false,
    }
}

/// Some other value of the same shape (the first applicable leaf edit inside it).
fn altered(v: &Value) -> Option<Value> {
    let mut names = vec![];
    walk_leaves_only(v, "", &mut names);
    for n in names {
        let mut c = v.clone();
        if apply(&mut c, &n) && c != *v {
            return Some(c);
        }
    }
    match v {
        Value::Null => Some(json!("x")),
        Value::Object(o) if o.is_empty() => Some(json!({"x": "y"})),
        Value::Array(a) if a.is_empty() => Some(json!(["x"])),
        _ => None,
    }
}

/// Leaf edits only (no member-level ones): used to make "another value of the same shape".
fn walk_leaves_only(v: &Value, at: &str, out: &mut Vec<String>) {
    match v {
        Value::String(s) => {
            for k in ["other-first-digit", "first-letter-case", "trailing-space"] {
                if respell(s, k).is_some() {
                    out.push(format!("{k}@{at}"));
                }
            }
        }
        Value::Number(_) => out.push(format!("+1@{at}")),
        Value::Bool(_) => out.push(format!("flipped@{at}")),
        Value::Array(a) => {
            for (i, x) in a.iter().enumerate() {
                walk_leaves_only(x, &format!("{at}/{i}"), out);
            }
        }
        Value::Object(o) => {
            for (k, x) in o {
                walk_leaves_only(x, &format!("{at}/{}", escape(k)), out);
            }
        }
        Value::Null => {}
    }
}

/// Every applicable edit of `doc`, by name.
pub fn edits(doc: &Value) -> Vec<String> {
    let mut out = vec![];
    walk(doc, "", &mut out);
    out
}

/// The kind of an edit name (the part before `@`).
pub fn kind_of(name: &str) -> &str {
    name.split('@').next().unwrap_or(name)
}

/// Apply one named edit. Returns false if it does not apply to this document.
pub fn apply(doc: &mut Value, name: &str) -> bool {
    let Some((kind, ptr)) = name.split_once('@') else { return false };
    if let Some(r) = kind.strip_prefix("alias-member:") {
        let Some((parent, last)) = ptr.rsplit_once('/') else { return false };
        let key = last.replace("~1", "/").replace("~0", "~");
        let Some(alias) = respell(&key, r) else { return false };
        let Some(obj) = doc.pointer_mut(parent).and_then(|p| p.as_object_mut()) else { return false };
        let Some(orig) = obj.get(&key).cloned() else { return false };
        let Some(other) = altered(&orig) else { return false };
        if obj.contains_key(&alias) {
            return false;
        }
        obj.insert(alias, orig);
        obj.insert(key, other);
        return true;
    }
    if kind == "empty-element-appended" {
        let Some(arr) = doc.pointer_mut(ptr).and_then(|p| p.as_array_mut()) else { return false };
        arr.push(json!(""));
        return true;
    }
    if kind == "elements-joined" || kind == "element-split-at-blank" {
        let Some((parent, last)) = ptr.rsplit_once('/') else { return false };
        let Ok(i) = last.parse::<usize>() else { return false };
        let Some(arr) = doc.pointer_mut(parent).and_then(|p| p.as_array_mut()) else { return false };
        if kind == "elements-joined" {
            if i + 1 >= arr.len() {
                return false;
            }
            let (Some(x), Some(y)) = (arr[i].as_str().map(String::from), arr[i + 1].as_str().map(String::from)) else { return false };
            arr[i] = json!(format!("{x} {y}"));
            arr.remove(i + 1);
        } else {
            let Some(t) = arr.get(i).and_then(|x| x.as_str()).map(String::from) else { return false };
            let t = t.trim().to_string();
            let Some((x, y)) = t.split_once(' ') else { return false };
            arr[i] = json!(x);
            arr.insert(i + 1, json!(y.trim_start()));
        }
        return true;
    }
    if kind == "member-removed" {
        let Some((parent, last)) = ptr.rsplit_once('/') else { return false };
        let key = last.replace("~1", "/").replace("~0", "~");
        let Some(obj) = doc.pointer_mut(parent).and_then(|p| p.as_object_mut()) else { return false };
        return obj.remove(&key).is_some();
    }
    let Some(leaf) = doc.pointer_mut(ptr) else { return false };
    let new = match leaf {
        Value::String(s) if kind != "empty-string->null" => respell(s, kind).map(Value::String),
        Value::Number(_) => renumber(leaf, kind),
        _ => reshape(leaf, kind),
    };
    match new {
        Some(n) => {
            *leaf = n;
            true
        }
        None => false,
    }
}

/// Reference table: does this single edit of a link's signed part leave its content what it
/// was? Decided on the JSON data, not by the library's reader (a reader that loses information
/// would otherwise vouch for itself). The members the format does not cover:
/// `_type` is not enforced on reading (recorded observation), and an absent `environment` is a
/// null one.
pub fn keeps_link_content(name: &str, original_signed: &Value) -> bool {
    let Some((kind, ptr)) = name.split_once('@') else { return false };
    if ptr == "/_type" && kind != "member-removed" {
        return true;
    }
    kind == "member-removed" && ptr == "/environment" && original_signed["environment"].is_null()
}

/// The same for a layout. Not covered by the format: `_type` (not enforced), the `keyid` and
/// `keyval.private` members of a key object (ignored), the case of the `T`/`Z` letters of the
/// expiry; for `keyval.public` the question is whether the same key comes out, which is the
/// library's key reader's to say (`library_same`; its own property is C12).
pub fn keeps_layout_content(name: &str, library_same: bool) -> bool {
    let Some((kind, ptr)) = name.split_once('@') else { return false };
    if ptr == "/_type" && kind != "member-removed" {
        return true;
    }
    if ptr == "/expires" {
        return matches!(kind, "lower" | "first-letter-case" | "z->+00:00");
    }
    let parts: Vec<&str> = ptr.split('/').collect();
    // "", "keys", <id>, ...
    if parts.len() >= 4 && parts[1] == "keys" {
        if parts[3] == "keyid" || (parts.len() == 5 && parts[3] == "keyval" && parts[4] == "private") {
            return true;
        }
        if parts.len() == 5 && parts[3] == "keyval" && parts[4] == "public" {
            return library_same;
        }
    }
    false
}
