//! E2 — stateless DFS over choice vectors with deviation bounding.
//!
//! `run(script)` executes the real code under a driver that answers the i-th
//! recorded choice point with `script[i]` (0 = default answer) and returns the
//! observation plus the trace of choice points. `explore` enumerates every
//! script whose number of non-default answers is within `bound`.

use in_toto::verif_hooks::ChoicePoint;

use crate::util;

pub struct DfsStats {
    pub executions: u64,
    pub max_points: usize,
    pub capped: bool,
}

fn factorial(n: usize) -> usize {
    (1..=n).product::<usize>().max(1)
}

/// `visit(script, parent_observation, deviating_site, observation)` is called
/// for every execution; for the root, parent is `None`.
pub fn explore<O: Clone>(
    run: &dyn Fn(&[usize]) -> (O, Vec<ChoicePoint>, bool),
    bound: usize,
    max_exec: u64,
    visit: &mut dyn FnMut(&[usize], Option<(&O, &ChoicePoint)>, &O),
) -> DfsStats {
    let mut stats = DfsStats {
        executions: 0,
        max_points: 0,
        capped: false,
    };
    // stack of (prefix script, expected shape of the prefix, parent obs, site)
    struct Job<O> {
        script: Vec<usize>,
        shape: Vec<(&'static str, usize)>,
        parent: Option<(O, ChoicePoint)>,
    }
    let mut stack = vec![Job {
        script: vec![],
        shape: vec![],
        parent: None,
    }];
    while let Some(job) = stack.pop() {
        if stats.executions >= max_exec {
            stats.capped = true;
            break;
        }
        let (obs, points, diverged) = run(&job.script);
        stats.executions += 1;
        stats.max_points = stats.max_points.max(points.len());
        // replaying a prefix must meet the same choice points
        if diverged || points.len() < job.script.len() {
            util::machinery_error(&format!(
                "E2 divergence: script {:?} met points {:?}",
                job.script, points
            ));
        }
        for (i, (site, n)) in job.shape.iter().enumerate() {
            if points[i].site != *site || points[i].n != *n {
                util::machinery_error(&format!(
                    "E2 divergence while replaying prefix {:?}: expected {:?} got {:?}",
                    job.script, job.shape, points
                ));
            }
        }
        for (i, c) in job.script.iter().enumerate() {
            if points[i].chosen != *c {
                util::machinery_error("E2 divergence: choice not honoured");
            }
        }
        match &job.parent {
            Some((po, cp)) => visit(&job.script, Some((po, cp)), &obs),
            None => visit(&job.script, None, &obs),
        }
        let used: usize = job.script.iter().filter(|c| **c != 0).count();
        if used + 1 > bound {
            continue;
        }
        let choices: Vec<usize> = points.iter().map(|p| p.chosen).collect();
        // push in reverse so that the simplest alternatives run first
        for i in (job.script.len()..points.len()).rev() {
            for alt in (1..factorial(points[i].n)).rev() {
                let mut script = choices[..i].to_vec();
                script.push(alt);
                stack.push(Job {
                    script,
                    shape: points[..=i].iter().map(|p| (p.site, p.n)).collect(),
                    parent: Some((obs.clone(), points[i].clone())),
                });
            }
        }
    }
    stats
}
