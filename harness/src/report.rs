//! Evidence writer, violation collector and known-findings matcher.

use std::collections::BTreeMap;
use std::path::PathBuf;
use std::time::Instant;

use serde_json::{json, Map, Value};

use crate::util;

pub const VERIF_ROOT: &str = "/verif";

#[derive(Clone, Copy, PartialEq, Eq, Debug)]
pub enum Tier {
    Quick,
    Thorough,
}

impl Tier {
    pub fn name(&self) -> &'static str {
        match self {
            Tier::Quick => "quick",
            Tier::Thorough => "thorough",
        }
    }
    pub fn thorough(&self) -> bool {
        *self == Tier::Thorough
    }
}

#[derive(Clone, Debug)]
pub struct Violation {
    /// Attribution key (cause class); findings match on (property, key).
    pub key: String,
    pub what: String,
    /// Minimal failing case, in the per-property replay format.
    pub witness: Value,
    pub count: u64,
}

/// Per-check accumulator. Cheap to create per thread and merge.
#[derive(Default, Debug)]
pub struct Acc {
    pub evaluations: u64,
    pub states: u64,
    pub transitions: u64,
    pub traces: u64,
    pub accepting: u64,
    pub nontrivial: u64,
    pub outcomes: BTreeMap<String, u64>,
    pub violations: BTreeMap<String, Violation>,
    pub samples: Vec<Value>,
    pub notes: BTreeMap<String, u64>,
}

impl Acc {
    pub fn new() -> Self {
        Self::default()
    }
    pub fn outcome(&mut self, name: &str) {
        *self.outcomes.entry(name.to_string()).or_insert(0) += 1;
    }
    pub fn note(&mut self, name: &str) {
        *self.notes.entry(name.to_string()).or_insert(0) += 1;
    }
    pub fn note_n(&mut self, name: &str, n: u64) {
        *self.notes.entry(name.to_string()).or_insert(0) += n;
    }
    pub fn sample(&mut self, v: impl FnOnce() -> Value) {
        if self.samples.len() < 3 {
            self.samples.push(v());
        }
    }
    /// Record a violation. The first witness per key is kept (enumeration is
    /// simplest-first, so that is the smallest one seen by this thread).
    pub fn violation(
        &mut self,
        key: &str,
        what: &str,
        witness: impl FnOnce() -> Value,
    ) {
        match self.violations.get_mut(key) {
            Some(v) => v.count += 1,
            None => {
                self.violations.insert(
                    key.to_string(),
                    Violation {
                        key: key.to_string(),
                        what: what.to_string(),
                        witness: witness(),
                        count: 1,
                    },
                );
            }
        }
    }
    pub fn merge(&mut self, o: Acc) {
        self.evaluations += o.evaluations;
        self.states += o.states;
        self.transitions += o.transitions;
        self.traces += o.traces;
        self.accepting += o.accepting;
        self.nontrivial += o.nontrivial;
        for (k, v) in o.outcomes {
            *self.outcomes.entry(k).or_insert(0) += v;
        }
        for (k, v) in o.notes {
            *self.notes.entry(k).or_insert(0) += v;
        }
        for (k, v) in o.violations {
            match self.violations.get_mut(&k) {
                Some(e) => {
                    e.count += v.count;
                    // keep the smaller witness
                    if v.witness.to_string().len()
                        < e.witness.to_string().len()
                    {
                        e.witness = v.witness;
                        e.what = v.what;
                    }
                }
                None => {
                    self.violations.insert(k, v);
                }
            }
        }
        for s in o.samples {
            if self.samples.len() < 4 {
                self.samples.push(s);
            }
        }
    }
    pub fn merge_all(accs: Vec<Acc>) -> Acc {
        let mut a = Acc::new();
        for o in accs {
            a.merge(o);
        }
        a
    }
}

pub struct Check {
    pub id: &'static str,
    pub level: &'static str,
    pub tier: Tier,
    pub seed: u64,
    pub start: Instant,
    pub acc: Acc,
    pub rule: String,
    pub assumptions: Vec<String>,
    pub exhaustive: bool,
    pub bound_completed: String,
    pub caps_hit: Vec<String>,
    pub selftests: Vec<String>,
    pub extra: Map<String, Value>,
}

#[derive(Debug, Clone)]
pub struct Finding {
    pub property: String,
    pub status: String,
    pub key: String,
    pub what: String,
}

pub fn load_findings() -> Vec<Finding> {
    let path = format!("{VERIF_ROOT}/known_findings.json");
    let txt = match std::fs::read_to_string(&path) {
        Ok(t) => t,
        Err(_) => return vec![],
    };
    let v: Value = serde_json::from_str(&txt).unwrap_or_else(|e| {
        util::machinery_error(&format!("known_findings.json unreadable: {e}"))
    });
    v["findings"]
        .as_array()
        .cloned()
        .unwrap_or_default()
        .into_iter()
        .map(|f| Finding {
            property: f["property"].as_str().unwrap_or("").to_string(),
            status: f["status"].as_str().unwrap_or("").to_string(),
            key: f["key"].as_str().unwrap_or("").to_string(),
            what: f["what"].as_str().unwrap_or("").to_string(),
        })
        .collect()
}

impl Check {
    pub fn new(id: &'static str, level: &'static str, tier: Tier) -> Self {
        let seed = std::env::var("VERIF_SEED")
            .ok()
            .and_then(|s| s.parse().ok())
            .unwrap_or(0);
        Check {
            id,
            level,
            tier,
            seed,
            start: Instant::now(),
            acc: Acc::new(),
            rule: String::new(),
            assumptions: vec![],
            exhaustive: true,
            bound_completed: String::new(),
            caps_hit: vec![],
            selftests: vec![],
            extra: Map::new(),
        }
    }

    pub fn assume(&mut self, s: &str) {
        self.assumptions.push(s.to_string());
    }

    pub fn selftest(&mut self, name: &str, ok: bool, detail: &str) {
        if !ok {
            util::machinery_error(&format!(
                "oracle self-test '{name}' failed: {detail}"
            ));
        }
        self.selftests.push(name.to_string());
    }

    /// Write evidence, print protocol lines, return the exit code.
    pub fn finish(mut self) -> i32 {
        let findings = load_findings();
        let mut unlisted = 0;
        let mut known_seen = vec![];
        let mut lines = vec![];
        let replay_dir = PathBuf::from(format!("{VERIF_ROOT}/replays/{}", self.id));
        for (key, v) in &self.acc.violations {
            let open = findings.iter().find(|f| {
                f.property == self.id && f.status == "open" && &f.key == key
            });
            match open {
                Some(f) => {
                    known_seen.push(key.clone());
                    lines.push(format!(
                        "KNOWN-FINDING: property={} key={} {}",
                        self.id, key, f.what
                    ));
                }
                None => {
                    unlisted += 1;
                    let _ = std::fs::create_dir_all(&replay_dir);
                    let fname: String = key
                        .chars()
                        .map(|c| {
                            if c.is_ascii_alphanumeric() || c == '-' || c == '_' {
                                c
                            } else {
                                '_'
                            }
                        })
                        .take(80)
                        .collect();
                    let path = replay_dir.join(format!("{fname}.json"));
                    let body = json!({
                        "property": self.id,
                        "key": key,
                        "what": v.what,
                        "occurrences": v.count,
                        "case": v.witness,
                        "replay": format!("cd /verif && ./check {} --replay {}", self.id, path.display()),
                    });
                    let _ = std::fs::write(
                        &path,
                        serde_json::to_string_pretty(&body).unwrap(),
                    );
                    lines.push(format!(
                        "VIOLATION property={} replay={} key={} :: {}",
                        self.id,
                        path.display(),
                        key,
                        v.what
                    ));
                }
            }
        }
        let not_reproduced: Vec<String> = findings
            .iter()
            .filter(|f| {
                f.property == self.id
                    && f.status == "open"
                    && !known_seen.contains(&f.key)
            })
            .map(|f| f.key.clone())
            .collect();

        let wall = self.start.elapsed().as_secs_f64();
        let distinct_outcomes = self.acc.outcomes.len();
        if self.acc.samples.is_empty() {
            self.acc.samples.push(json!("(no sample recorded)"));
        }
        let mut cov = Map::new();
        cov.insert("evaluations".into(), json!(self.acc.evaluations));
        cov.insert("distinct_nontrivial".into(), json!(self.acc.nontrivial));
        cov.insert("rule".into(), json!(self.rule));
        cov.insert("samples".into(), json!(self.acc.samples));
        cov.insert("states".into(), json!(self.acc.states.max(0)));
        cov.insert("transitions".into(), json!(self.acc.transitions));
        cov.insert(
            "traces_validated_against_impl".into(),
            json!(self.acc.traces),
        );
        cov.insert("exhaustive".into(), json!(self.exhaustive && self.caps_hit.is_empty()));
        cov.insert("bound_completed".into(), json!(self.bound_completed));
        cov.insert("caps_hit".into(), json!(self.caps_hit));
        cov.insert("accepting_executions".into(), json!(self.acc.accepting));
        cov.insert("outcome_histogram".into(), json!(self.acc.outcomes));
        cov.insert("distinct_outcomes".into(), json!(distinct_outcomes));
        cov.insert("counters".into(), json!(self.acc.notes));
        cov.insert("known_findings_seen".into(), json!(known_seen));
        cov.insert(
            "known_findings_not_reproduced".into(),
            json!(not_reproduced),
        );
        cov.insert("oracle_selftests".into(), json!(self.selftests));
        cov.insert(
            "violation_keys".into(),
            json!(self
                .acc
                .violations
                .iter()
                .map(|(k, v)| json!({"key": k, "occurrences": v.count}))
                .collect::<Vec<_>>()),
        );
        if cfg!(in_toto_verif_nosites) {
            cov.insert(
                "degraded".into(),
                json!("built with call-site hooks off (the hooks-on build of the modified library failed): iteration orders and the clock are not owned in this run"),
            );
        }
        if distinct_outcomes <= 1 {
            cov.insert(
                "vacuity_warning".into(),
                json!("only one distinct outcome observed"),
            );
        }
        for (k, v) in self.extra {
            cov.insert(k, v);
        }
        let ev = json!({
            "property_id": self.id,
            "tier": self.tier.name(),
            "seed": self.seed,
            "level": self.level,
            "coverage": Value::Object(cov),
            "assumptions": self.assumptions,
            "wall_s": (wall * 1000.0).round() / 1000.0,
            "violations": unlisted,
        });
        let dir = format!("{VERIF_ROOT}/evidence");
        let _ = std::fs::create_dir_all(&dir);
        let path = format!("{dir}/{}.json", self.id);
        if let Err(e) =
            std::fs::write(&path, serde_json::to_string_pretty(&ev).unwrap() + "\n")
        {
            util::machinery_error(&format!("cannot write {path}: {e}"));
        }
        for l in lines {
            util::out(&l);
        }
        util::out(&format!(
            "{} {}: evaluations={} states={} transitions={} nontrivial={} outcomes={} violations(unlisted)={} known={} wall={:.1}s",
            self.id,
            self.tier.name(),
            self.acc.evaluations,
            self.acc.states,
            self.acc.transitions,
            self.acc.nontrivial,
            distinct_outcomes,
            unlisted,
            known_seen.len(),
            wall
        ));
        if unlisted > 0 {
            1
        } else {
            0
        }
    }
}
