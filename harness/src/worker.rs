//! Worker processes for cwd-sensitive and crash-prone cases.

pub fn main(_args: &[String]) -> ! {
    crate::util::machinery_error("worker: not yet wired")
}
