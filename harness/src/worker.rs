//! Worker processes: cases that depend on the process cwd, or that may abort,
//! run in single-threaded child processes of the same binary.
//!
//! Protocol: the parent writes one JSON case per line to a file; worker
//! `shard` of `n` handles lines i with i % n == shard and appends to its
//! output file a line `{"start": i}` before and `{"i": i, "out": ...}` after
//! each case, so a worker that dies is attributed to the case in flight.

use std::io::{BufRead, Write};
use std::path::{Path, PathBuf};
use std::process::{Command, Stdio};

use serde_json::{json, Value};

use crate::util;

/// Run one case of the given kind in directory `dir` (private to the case).
fn dispatch(kind: &str, case: &Value, dir: &Path) -> Value {
    match kind {
        "c08" => crate::props::c08::worker_case(case, dir),
        "c18" => crate::props::c18::worker_case(case, dir),
        "c13" => crate::props::c13::worker_case(case, dir),
        _ => json!({"machinery_error": format!("unknown worker kind {kind}")}),
    }
}

pub fn main(args: &[String]) -> ! {
    if args[0] == "c14shard" {
        crate::props::c14::shard_main(&args[1..]);
    }
    if args[0] == "envlint" {
        println!("{:?}", crate::envprobe::library_env_reads());
        std::process::exit(0);
    }
    if args[0] == "envprobe" {
        // one line of JSON: item -> digest, computed in the environment this process was given
        let history = std::env::var("ITV_PROBE_HISTORY").unwrap_or_default();
        if history == "warm" {
            crate::envprobe::warm_up(Path::new(&args[1]));
        }
        if history == "twice" {
            let _ = crate::envprobe::compute(Path::new(&args[1]));
        }
        let map = crate::envprobe::compute(Path::new(&args[1]));
        println!("{}", serde_json::to_string(&map).unwrap());
        std::process::exit(0);
    }
    let kind = &args[0];
    let cases_file = &args[1];
    let shard: usize = args[2].parse().unwrap();
    let n: usize = args[3].parse().unwrap();
    let out_file = &args[4];
    util::capture_stdout(Some(Path::new(&format!("{out_file}.log"))));
    let mut out = std::fs::File::create(out_file).expect("worker out");
    let f = std::io::BufReader::new(std::fs::File::open(cases_file).expect("cases"));
    for (i, line) in f.lines().enumerate() {
        if i % n != shard {
            continue;
        }
        let line = line.unwrap();
        let case: Value = serde_json::from_str(&line).unwrap();
        writeln!(out, "{}", json!({"start": i})).unwrap();
        out.flush().unwrap();
        let dir = util::fresh_dir("case");
        let res = dispatch(kind, &case, &dir);
        let _ = std::env::set_current_dir("/");
        let _ = std::fs::remove_dir_all(&dir);
        writeln!(out, "{}", json!({"i": i, "out": res})).unwrap();
        out.flush().unwrap();
    }
    util::cleanup_scratch();
    std::process::exit(0);
}

pub enum WorkerResult {
    Done(Value),
    /// The worker died (signal / abort / exit code) while this case was in flight.
    Died(String),
    /// The worker died before reaching this case.
    NotRun,
}

/// Run all cases in `n_workers` child processes; results in case order.
pub fn run_cases(kind: &str, cases: &[Value], timeout_s: u64) -> Vec<WorkerResult> {
    let root = util::fresh_dir("workers");
    let cases_file = root.join("cases.jsonl");
    {
        let mut f = std::io::BufWriter::new(std::fs::File::create(&cases_file).unwrap());
        for c in cases {
            writeln!(f, "{c}").unwrap();
        }
    }
    let n = util::n_threads().min(cases.len().max(1));
    let exe = std::env::current_exe().unwrap();
    let mut children = vec![];
    for shard in 0..n {
        let out: PathBuf = root.join(format!("out-{shard}.jsonl"));
        let child = Command::new(&exe)
            .args(["worker", kind, cases_file.to_str().unwrap(), &shard.to_string(), &n.to_string(), out.to_str().unwrap()])
            .stdin(Stdio::null())
            .stdout(Stdio::null())
            .stderr(Stdio::null())
            .spawn()
            .unwrap_or_else(|e| util::machinery_error(&format!("cannot spawn worker: {e}")));
        children.push((child, out));
    }
    let deadline = std::time::Instant::now() + std::time::Duration::from_secs(timeout_s);
    let mut results: Vec<WorkerResult> = (0..cases.len()).map(|_| WorkerResult::NotRun).collect();
    for (mut child, out) in children {
        let status = loop {
            match child.try_wait() {
                Ok(Some(s)) => break format!("{s}"),
                Ok(None) => {
                    if std::time::Instant::now() > deadline {
                        let _ = child.kill();
                        let _ = child.wait();
                        break "timeout".to_string();
                    }
                    std::thread::sleep(std::time::Duration::from_millis(5));
                }
                Err(e) => break format!("wait error {e}"),
            }
        };
        let mut in_flight: Option<usize> = None;
        if let Ok(f) = std::fs::File::open(&out) {
            for line in std::io::BufReader::new(f).lines().map_while(Result::ok) {
                let Ok(v) = serde_json::from_str::<Value>(&line) else { continue };
                if let Some(i) = v.get("start").and_then(|x| x.as_u64()) {
                    in_flight = Some(i as usize);
                } else if let Some(i) = v.get("i").and_then(|x| x.as_u64()) {
                    results[i as usize] = WorkerResult::Done(v["out"].clone());
                    in_flight = None;
                }
            }
        }
        if let Some(i) = in_flight {
            results[i] = WorkerResult::Died(status);
        }
    }
    let _ = std::fs::remove_dir_all(&root);
    results
}
