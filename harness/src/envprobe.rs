//! Environment ownership: none of the observables the properties speak about may depend on the
//! process environment (locale and time-zone variables, any variable the library reads, the current
//! working directory). A fixed battery of items is computed in child processes of this binary, one
//! per environment of a menu, and the digests are compared item by item with the baseline.
//!
//! The menu is closed over the library: every `env::var("NAME")` / `env::var_os("NAME")` with a
//! literal name found in the library sources (outside test modules) adds NAME to it, and a read with
//! a computed name is reported by the lint itself.

use std::collections::BTreeMap;
use std::path::{Path, PathBuf};
use std::process::Command;

use in_toto::crypto::PublicKey;
use in_toto::interchange::{DataInterchange, Json};
use in_toto::models::rule::ArtifactRule;
use in_toto::models::{DSSEVersion, MetadataWrapper};
use serde_json::{json, Value};

use crate::keys;
use crate::util::{self, guard, Guard};
use crate::world;

fn digest(bytes: &[u8]) -> String {
    util::hex(&util::sha256(bytes))[..16].to_string()
}

fn show<T: std::fmt::Debug>(r: Guard<T>) -> String {
    match r {
        Guard::Done(v) => format!("{v:?}"),
        Guard::Panicked(l, m) => format!("PANIC {l}: {m}"),
    }
}

/// Child side: compute every item. `root` holds prepared fixture directories (absolute paths).
pub fn compute(root: &Path) -> BTreeMap<String, String> {
    let mut out = BTreeMap::new();
    let mut put = |k: &str, v: String| {
        out.insert(k.to_string(), digest(v.as_bytes()));
    };
    // ---- canonical JSON (C10) and the signing form (C11)
    let vals = [json!({"é": "ü\u{1f600}", "a": ["\u{7f}", "\u{80}", "\n"], "\u{10000}": {"k": -1}}), json!("plain"), json!({"": [0, 1, 18446744073709551615u64]})];
    for (i, v) in vals.iter().enumerate() {
        put(&format!("C10:canonicalize#{i}"), show(guard(|| Json::canonicalize(v))));
        put(&format!("C11:canonicalize_for_signing#{i}"), show(guard(|| Json::canonicalize_for_signing(v))));
        let mut b = vec![];
        let _ = guard(|| Json::to_writer(&mut b, v).is_ok());
        put(&format!("C10:to_writer#{i}"), util::hex(&b));
    }
    // ---- PAE (C20)
    for (t, p) in [("", &b"payload"[..]), ("a", b""), ("é", b"\xff"), ("application/vnd.in-toto+json", b"{}"), ("A", b"a")] {
        put(&format!("C20:pack({t:?})"), show(guard(|| DSSEVersion::V1.pack(p, t.to_string()))));
    }
    put("C20:unpack", show(guard(|| DSSEVersion::V1.unpack(b"DSSEv1 0  7 payload").map_err(|e| format!("{e:?}")))));
    // ---- key ids (C12)
    for k in keys::all() {
        put(&format!("C12:keyid:{}", k.name), k.id());
        put(&format!("C12:json:{}", k.name), serde_json::to_string(k.public()).unwrap_or_default());
    }
    put("C12:from_ed25519", show(guard(|| PublicKey::from_ed25519(keys::ED1_PUB.to_vec()).map(|k| format!("{:?}", k.key_id())).map_err(|e| format!("{e:?}")))));
    // ---- signed bytes and serialization (C05, C09, C16): relative and absolute artifact paths, the
    // absolute ones below the current working directory
    let cwd = std::env::current_dir().map(|p| p.to_string_lossy().to_string()).unwrap_or_default();
    let a = keys::get("ed1");
    for (n, path) in [("relative", "foo.py".to_string()), ("absolute-elsewhere", "/nonexistent/foo.py".to_string()), ("dot-relative", "./foo.py".to_string()), ("non-ascii", "dé/ü.py".to_string())] {
        let l = world::link("s", world::arts(&[(&path, 1)]), world::arts(&[(&path, 2)]));
        put(&format!("C16:link-json:{n}"), serde_json::to_string(&l).unwrap_or_default());
        put(&format!("C05:signed-bytes:{n}"), show(guard(|| MetadataWrapper::Link(l.clone()).to_signable_bytes().map_err(|e| format!("{e:?}")))));
        put(&format!("C09:signature:{n}"), show(guard(|| world::block_text(&world::sign_link(l.clone(), &[a])))));
    }
    // the absolute-below-cwd spelling must differ from the relative one in the signed form (the
    // value itself contains the cwd, so it is compared inside one process, not across environments)
    {
        let rel = world::link("s", world::arts(&[("foo.py", 1)]), Default::default());
        let abs = world::link("s", world::arts(&[(&format!("{}/foo.py", cwd.trim_end_matches('/')), 1)]), Default::default());
        let same = MetadataWrapper::Link(rel).to_signable_bytes().ok() == MetadataWrapper::Link(abs).to_signable_bytes().ok();
        put("C05:relative-and-absolute-below-cwd-share-signed-bytes", format!("{same}"));
        let rr = ArtifactRule::Create(world::vpath("foo.py"));
        let ra = ArtifactRule::Create(world::vpath(&format!("{}/foo.py", cwd.trim_end_matches('/'))));
        put("C05:rule-relative-and-absolute-below-cwd-share-json", format!("{}", serde_json::to_string(&rr).ok() == serde_json::to_string(&ra).ok()));
    }
    // ---- verdicts (C13, C15, C06): prepared directories under `root`
    let owner = keys::get("ed6");
    for case in ["plain", "delegated-ok", "delegated-links-misfiled-in-parent"] {
        let dir = root.join(case);
        let lay_text = std::fs::read_to_string(dir.join("root.layout")).unwrap_or_default();
        let v = match serde_json::from_str::<in_toto::models::Metablock>(&lay_text) {
            Ok(mb) => show(guard(|| match in_toto::verifylib::in_toto_verify(&mb, world::owner_map(&[owner]), dir.join("links").to_str().unwrap(), None) {
                Ok(s) => format!("ok:{}", serde_json::to_string(&s.metadata).unwrap_or_default()),
                Err(_) => "err".to_string(),
            })),
            Err(e) => format!("layout unreadable: {e}"),
        };
        put(&format!("{}:verdict:{case}", if case == "plain" { "C13" } else { "C15" }), v);
    }
    // ---- recording (C18): absolute path argument, strip prefix = the directory
    {
        let t = root.join("tree");
        let ts = t.to_string_lossy().to_string();
        put("C18:record", show(guard(|| in_toto::runlib::record_artifacts(&[&ts], None, Some(&[&format!("{ts}/")])).map(|m| serde_json::to_string(&m).unwrap_or_default()).map_err(|e| format!("{e:?}")))));
    }
    out
}

/// Work on *other* inputs through the same entry points, so that the battery that follows does not
/// start from a fresh process: whatever the library remembers between calls (a cache, a latched
/// clock or directory, a lazily built table) has been filled by something else first.
pub fn warm_up(root: &Path) {
    let scratch = util::fresh_dir("envprobe-warmup");
    let _ = guard(|| Json::canonicalize(&json!({"z": [3, 2, 1], "é": "other", "a": {"b": null}})));
    let _ = guard(|| Json::canonicalize_for_signing(&json!(["other", {"k": "v\n"}])));
    let _ = guard(|| DSSEVersion::V1.pack(b"other payload", "other/type".to_string()));
    let _ = guard(|| DSSEVersion::V1.unpack(b"DSSEv1 1 x 1 y").map_err(|e| format!("{e:?}")));
    let (o2, f2) = (keys::get("ed5"), keys::get("ed3"));
    for k in [keys::get("rsa256b"), keys::get("ec2"), o2] {
        let _ = serde_json::to_string(k.public()).ok().and_then(|t| serde_json::from_str::<PublicKey>(&t).ok());
    }
    // an expired layout, a layout that verifies, a layout whose step lacks its link, a delegated one:
    // other keys, other names, other digests than the battery's
    let expired = world::sign_layout(world::layout(vec![], vec![], &[], world::now() - chrono::Duration::days(2)), &[o2]);
    let _ = guard(|| in_toto::verifylib::in_toto_verify(&expired, world::owner_map(&[o2]), scratch.to_str().unwrap(), None).is_ok());
    let ok = world::sign_layout(world::layout(vec![world::step("s", 1, &[f2])], vec![], &[f2], world::far_future()), &[o2]);
    world::write(&scratch, &world::link_file("s", f2), &world::block_text(&world::sign_link(world::link("s", world::arts(&[("m", 9)]), world::arts(&[("p", 8), ("q", 7)])), &[f2])));
    let _ = guard(|| in_toto::verifylib::in_toto_verify(&ok, world::owner_map(&[o2]), scratch.to_str().unwrap(), Some("warm")).is_ok());
    let missing = world::sign_layout(world::layout(vec![world::step("in", 1, &[f2])], vec![], &[f2], world::far_future()), &[o2]);
    let _ = guard(|| in_toto::verifylib::in_toto_verify(&missing, world::owner_map(&[o2]), scratch.to_str().unwrap(), None).is_ok());
    // the battery's own delegated tree, verified from the wrong end (inner layout as if it were the root)
    if let Ok(t) = std::fs::read_to_string(root.join("delegated-ok/links").join(world::link_file("s", keys::get("ed1")))) {
        if let Ok(mb) = serde_json::from_str::<in_toto::models::Metablock>(&t) {
            let _ = guard(|| in_toto::verifylib::in_toto_verify(&mb, world::owner_map(&[keys::get("ed1")]), root.join("delegated-links-misfiled-in-parent/links").to_str().unwrap(), None).is_ok());
        }
    }
    let l = world::link("other", world::arts(&[("/abs/x", 5)]), world::arts(&[("./rel/../y", 6)]));
    let _ = guard(|| world::block_text(&world::sign_link(l.clone(), &[f2])));
    std::fs::write(scratch.join("w"), "warm").ok();
    let ss = scratch.to_string_lossy().to_string();
    let _ = guard(|| in_toto::runlib::record_artifacts(&[&ss], None, None).is_ok());
    let _ = guard(|| in_toto::runlib::record_artifacts(&[&ss], Some(&["sha512"]), Some(&[&ss])).is_ok());
}

/// Parent side: build the fixture directories once.
pub fn prepare(root: &Path) {
    let owner = keys::get("ed6");
    let (a, b) = (keys::get("ed1"), keys::get("ed2"));
    let far = chrono::DateTime::parse_from_rfc3339("9000-01-01T00:00:00Z").unwrap().with_timezone(&chrono::Utc);
    let w = |dir: &Path, name: &str, text: &str| {
        std::fs::create_dir_all(dir).unwrap();
        std::fs::write(dir.join(name), text).unwrap();
    };
    // plain
    {
        let d = root.join("plain");
        let lay = world::sign_layout(world::layout(vec![world::step("s", 1, &[a])], vec![], &[a], far), &[owner]);
        w(&d, "root.layout", &world::block_text(&lay));
        w(&d.join("links"), &world::link_file("s", a), &world::block_text(&world::sign_link(world::link("s", world::arts(&[("m", 1)]), world::arts(&[("p", 2)])), &[a])));
    }
    // delegated
    for (case, misfiled) in [("delegated-ok", false), ("delegated-links-misfiled-in-parent", true)] {
        let d = root.join(case);
        let links = d.join("links");
        let lay = world::sign_layout(world::layout(vec![world::step("s", 1, &[a])], vec![], &[a], far), &[owner]);
        w(&d, "root.layout", &world::block_text(&lay));
        let inner = world::sign_layout(world::layout(vec![world::step("in", 1, &[b])], vec![], &[b], far), &[a]);
        w(&links, &world::link_file("s", a), &world::block_text(&inner));
        let inner_link = world::block_text(&world::sign_link(world::link("in", world::arts(&[("m", 1)]), world::arts(&[("p", 2)])), &[b]));
        if misfiled {
            // the dedicated sub-directory does not exist; the inner link lies in the parent directory
            w(&links, &world::link_file("in", b), &inner_link);
        } else {
            w(&links.join(format!("s.{}", a.prefix())), &world::link_file("in", b), &inner_link);
        }
    }
    let t = root.join("tree");
    w(&t, "a", "x");
    w(&t.join("d"), "bé", "y");
}

/// Names of environment variables the library reads (source lint over /repo/src outside test
/// modules): `var("X")` / `var_os("X")` in any spelling of the path, names given through a `const`
/// or `static` string defined anywhere in the sources, and - reported separately - reads whose
/// name the lint cannot resolve, plus `env::vars()` and `env!` / `option_env!`.
pub fn library_env_reads() -> (Vec<String>, Vec<String>) {
    let mut files: Vec<(String, String)> = vec![];
    let mut stack = vec![PathBuf::from(std::env::var("ITV_LINT_SRC").unwrap_or("/repo/src".into()))];
    while let Some(d) = stack.pop() {
        let Ok(rd) = std::fs::read_dir(&d) else { continue };
        for e in rd.flatten() {
            let p = e.path();
            if p.is_dir() {
                stack.push(p);
            } else if p.extension().map(|x| x == "rs").unwrap_or(false) && !p.ends_with("verif_hooks.rs") {
                let txt = std::fs::read_to_string(&p).unwrap_or_default();
                files.push((p.strip_prefix("/repo").unwrap_or(&p).display().to_string(), txt.split("#[cfg(test)]").next().unwrap_or("").to_string()));
            }
        }
    }
    // string constants: NAME -> value
    let mut consts: BTreeMap<String, String> = BTreeMap::new();
    for (_, txt) in &files {
        for line in txt.lines() {
            let l = line.trim();
            for kw in ["const ", "static "] {
                if let Some(pos) = l.find(kw) {
                    let rest = &l[pos + kw.len()..];
                    if let (Some(colon), Some(q1)) = (rest.find(':'), rest.find('"')) {
                        if let Some(q2) = rest[q1 + 1..].find('"') {
                            consts.insert(rest[..colon].trim().to_string(), rest[q1 + 1..q1 + 1 + q2].to_string());
                        }
                    }
                }
            }
        }
    }
    let mut names = vec![];
    let mut computed = vec![];
    for (file, txt) in &files {
        let mentions_env = txt.contains("env::") || txt.contains("std::env") || txt.contains("env!");
        for (i, line) in txt.lines().enumerate() {
            let l = line.trim();
            if l.starts_with("//") {
                continue;
            }
            for pat in ["vars(", "vars_os(", "option_env!(", "env!("] {
                if mentions_env && (l.contains(&format!("env::{pat}")) || (pat.ends_with("!(") && l.contains(pat))) {
                    computed.push(format!("{file}:{}: {l}", i + 1));
                }
            }
            for pat in ["var(", "var_os("] {
                let mut from = 0;
                while let Some(pos) = l[from..].find(pat) {
                    let at = from + pos;
                    from = at + pat.len();
                    // `env::var(`, `std::env::var(`, or a bare `var(` in a file that imports it
                    let before = &l[..at];
                    let qualified = before.ends_with("env::");
                    let bare = (before.is_empty() || !before.chars().last().map(|c| c.is_alphanumeric() || c == '_' || c == '.' || c == ':').unwrap_or(false)) && mentions_env && txt.contains("env::{") | txt.contains("env::var");
                    if !qualified && !bare {
                        continue;
                    }
                    let arg = l[from..].trim_start();
                    if let Some(stripped) = arg.strip_prefix('"') {
                        if let Some(end) = stripped.find('"') {
                            names.push(stripped[..end].to_string());
                            continue;
                        }
                    }
                    let ident: String = arg.chars().take_while(|c| c.is_alphanumeric() || *c == '_' || *c == ':').collect();
                    match consts.get(ident.rsplit("::").next().unwrap_or("")) {
                        Some(v) => names.push(v.clone()),
                        None => computed.push(format!("{file}:{}: {l}", i + 1)),
                    }
                }
            }
        }
    }
    names.sort();
    names.dedup();
    computed.sort();
    computed.dedup();
    (names, computed)
}

#[derive(Debug, Clone)]
pub struct EnvCase {
    pub name: String,
    pub vars: Vec<(String, String)>,
    pub unset: Vec<String>,
    /// working directory relative to the prepared root ("" = a fresh empty directory)
    pub cwd: String,
    /// the child is given the copy of the fixtures that lies under a directory whose name has
    /// pattern characters, a blank and a non-ASCII letter
    pub odd_root: bool,
}

pub fn menu() -> (Vec<EnvCase>, Vec<String>, Vec<String>) {
    let (names, computed) = library_env_reads();
    let mut m = vec![];
    let mk = |name: &str, vars: &[(&str, &str)], unset: &[&str], cwd: &str| EnvCase { name: name.to_string(), vars: vars.iter().map(|(k, v)| (k.to_string(), v.to_string())).collect(), unset: unset.iter().map(|s| s.to_string()).collect(), cwd: cwd.to_string(), odd_root: false };
    m.push(mk("baseline", &[], &[], ""));
    // not an environment but a history: the child first works on other inputs, then computes the
    // battery; and computes it a second time (the answer of the second pass is reported)
    m.push(mk("after other work in the same process", &[("ITV_PROBE_HISTORY", "warm")], &[], ""));
    m.push(mk("second pass in the same process", &[("ITV_PROBE_HISTORY", "twice")], &[], ""));
    // not an environment but a place: the same fixtures under a directory named `od[d] *?é`
    m.push(EnvCase { odd_root: true, ..mk("fixtures under a directory named with pattern characters", &[], &[], "") });
    m.push(EnvCase { odd_root: true, ..mk("fixtures under such a directory, run from inside its link directory", &[], &[], "delegated-ok/links") });
    for (n, v) in [("C", "C"), ("POSIX", "POSIX"), ("latin1", "en_US.ISO-8859-1"), ("utf8", "en_US.UTF-8"), ("turkish", "tr_TR.UTF-8")] {
        m.push(mk(&format!("LANG={n}"), &[("LANG", v)], &["LC_ALL", "LC_CTYPE"], ""));
        m.push(mk(&format!("LC_ALL={n}"), &[("LC_ALL", v), ("LC_CTYPE", v), ("LANG", v)], &[], ""));
    }
    for tz in ["Asia/Kolkata", "America/Los_Angeles", "Pacific/Kiritimati", "UTC"] {
        m.push(mk(&format!("TZ={tz}"), &[("TZ", tz)], &[], ""));
    }
    m.push(mk("no HOME, PATH, USER", &[], &["HOME", "PATH", "USER", "TMPDIR"], ""));
    m.push(mk("TMPDIR=/nonexistent", &[("TMPDIR", "/nonexistent")], &[], ""));
    for cwd in ["plain/links", "delegated-links-misfiled-in-parent/links", "delegated-ok/links", "tree", "/"] {
        m.push(mk(&format!("cwd={cwd}"), &[], &[], cwd));
    }
    for n in &names {
        for v in ["1", "application/x-odd", "/nonexistent", ""] {
            m.push(mk(&format!("{n}={v:?}"), &[(n.as_str(), v)], &[], ""));
        }
    }
    // the variable names the reference implementation reads, should they ever be ported
    for n in ["IN_TOTO_ARTIFACT_BASE_PATH", "IN_TOTO_ARTIFACT_EXCLUDE_PATTERNS", "IN_TOTO_LINK_CMD_EXEC_TIMEOUT", "IN_TOTO_LINK_DIR", "SOURCE_DATE_EPOCH", "RUST_LOG"] {
        if !names.iter().any(|x| x == n) {
            m.push(mk(&format!("{n}=odd"), &[(n, "odd/../x")], &[], ""));
        }
    }
    (m, names, computed)
}

/// Differences from the baseline: item -> environments in which its digest differs.
pub struct ProbeResult {
    pub environments: usize,
    pub items: usize,
    pub differing: BTreeMap<String, Vec<String>>,
    pub env_reads: Vec<String>,
    pub computed_env_reads: Vec<String>,
    /// in-process facts of the baseline child (not compared across environments)
    pub baseline: BTreeMap<String, String>,
}

pub fn run() -> ProbeResult {
    let root = util::fresh_dir("envprobe");
    prepare(&root);
    let root_odd = util::fresh_dir("envprobe").join("od[d] *?\u{e9}");
    prepare(&root_odd);
    let (cases, names, computed) = menu();
    let exe = std::env::current_exe().unwrap();
    let mut results: Vec<(String, BTreeMap<String, String>)> = vec![];
    for c in &cases {
        let cwd = if c.cwd.is_empty() {
            util::fresh_dir("envprobe-cwd")
        } else if c.cwd == "/" {
            PathBuf::from("/")
        } else if c.odd_root {
            root_odd.join(&c.cwd)
        } else {
            root.join(&c.cwd)
        };
        let mut cmd = Command::new(&exe);
        cmd.args(["worker", "envprobe", if c.odd_root { root_odd.to_str().unwrap() } else { root.to_str().unwrap() }]).current_dir(&cwd);
        for (k, v) in &c.vars {
            cmd.env(k, v);
        }
        for k in &c.unset {
            cmd.env_remove(k);
        }
        let out = cmd.output().unwrap_or_else(|e| util::machinery_error(&format!("cannot spawn the environment probe: {e}")));
        if !out.status.success() {
            util::machinery_error(&format!("environment probe failed under {}: {}", c.name, String::from_utf8_lossy(&out.stderr)));
        }
        let txt = String::from_utf8_lossy(&out.stdout);
        let line = txt.lines().last().unwrap_or("{}");
        let map: BTreeMap<String, String> = serde_json::from_str(line).unwrap_or_else(|e| util::machinery_error(&format!("environment probe: bad output under {}: {e}", c.name)));
        results.push((c.name.clone(), map));
    }
    let base = results[0].1.clone();
    // the probe must be repeatable in the baseline environment before any difference is believed
    {
        let again = {
            let mut cmd = Command::new(&exe);
            cmd.args(["worker", "envprobe", root.to_str().unwrap()]).current_dir(util::fresh_dir("envprobe-cwd"));
            let out = cmd.output().unwrap_or_else(|e| util::machinery_error(&format!("cannot spawn the environment probe: {e}")));
            serde_json::from_str::<BTreeMap<String, String>>(String::from_utf8_lossy(&out.stdout).lines().last().unwrap_or("{}")).unwrap_or_default()
        };
        let unstable: Vec<&String> = base.keys().filter(|k| !k.starts_with("C09:signature") && again.get(*k) != base.get(*k)).collect();
        if !unstable.is_empty() {
            util::machinery_error(&format!("environment probe: items differ between two runs in the same environment: {unstable:?}"));
        }
    }
    let mut differing: BTreeMap<String, Vec<String>> = BTreeMap::new();
    for (name, map) in results.iter().skip(1) {
        for (k, v) in &base {
            if k.contains("share-") {
                continue;
            }
            if map.get(k) != Some(v) {
                differing.entry(k.clone()).or_default().push(name.clone());
            }
        }
    }
    // in-process facts: must hold in every environment
    for (name, map) in &results {
        for k in map.keys().filter(|k| k.contains("share-")) {
            if map.get(k) != Some(&digest(b"false")) {
                differing.entry(k.clone()).or_default().push(name.clone());
            }
        }
    }
    ProbeResult { environments: cases.len(), items: base.len(), differing, env_reads: names, computed_env_reads: computed, baseline: base }
}

/// Report the differences of the items owned by `prefix` (e.g. "C10:") as violations of that check.
pub fn judge(acc: &mut crate::report::Acc, prefix: &str, extra: &mut serde_json::Map<String, Value>) {
    let r = run();
    let mine: Vec<(&String, &Vec<String>)> = r.differing.iter().filter(|(k, _)| k.starts_with(prefix)).collect();
    let n_items = r.baseline.keys().filter(|k| k.starts_with(prefix)).count();
    acc.evaluations += (n_items * r.environments) as u64;
    acc.nontrivial += n_items as u64;
    for (item, envs) in mine {
        acc.violation(
            &format!("environment-dependent:{}", item.split(['#', '(', ':']).nth(1).unwrap_or("item")),
            &format!("{item} differs from the baseline environment under: {}", envs.join("; ")),
            || json!({"kind": "environment", "item": item, "environments": envs}),
        );
    }
    for c in &r.computed_env_reads {
        // the probe cannot set a variable whose name it cannot resolve: what the library does with it is
        // outside what this run explored; said loudly, and counted
        acc.note(&format!("UNRESOLVED environment read in the library (not varied by the probe): {c}"));
    }
    extra.insert(
        "environment_probe".into(),
        json!({"environments": r.environments, "items_of_this_property": n_items, "variables_read_by_the_library_sources": r.env_reads, "reads_with_computed_names": r.computed_env_reads,
               "menu": "locale variables (C, POSIX, Latin-1, UTF-8, Turkish) via LANG and LC_ALL; 4 time zones; HOME/PATH/USER/TMPDIR unset; 5 working directories (incl. the link directory and one holding misfiled inner links); every variable the library sources read x 4 values; 6 variable names of or like the reference implementation; the fixtures under a directory whose name has pattern characters, a blank and a non-ASCII letter; two call histories (the battery after other work through the same entry points in the same process; the battery a second time in one process)"}),
    );
}
