//! Shared plumbing: protocol output, panic capture, parallel map, scratch dirs.

use std::cell::RefCell;
use std::fs::File;
use std::io::Write;
use std::os::fd::FromRawFd;
use std::panic::{self, AssertUnwindSafe};
use std::path::{Path, PathBuf};
use std::sync::atomic::{AtomicBool, AtomicUsize, Ordering};
use std::sync::Mutex;

static OUT: Mutex<Option<File>> = Mutex::new(None);

/// The library prints to stdout in places (`judge_from_value`, `run_command`).
/// Protocol lines therefore go to a private duplicate of the original stdout and
/// fd 1 is pointed at /dev/null (or a log file for workers).
pub fn capture_stdout(sink: Option<&Path>) {
    unsafe {
        let saved = libc::dup(1);
        assert!(saved >= 0);
        let path = std::ffi::CString::new(
            sink.map(|p| p.to_str().unwrap().to_string())
                .unwrap_or_else(|| "/dev/null".to_string()),
        )
        .unwrap();
        let fd = libc::open(
            path.as_ptr(),
            libc::O_WRONLY | libc::O_CREAT | libc::O_APPEND,
            0o644,
        );
        assert!(fd >= 0);
        libc::dup2(fd, 1);
        libc::dup2(fd, 2);
        libc::close(fd);
        *OUT.lock().unwrap() = Some(File::from_raw_fd(saved));
    }
}

/// Write one protocol line to the real stdout.
pub fn out(line: &str) {
    let mut g = OUT.lock().unwrap();
    match g.as_mut() {
        Some(f) => {
            let _ = writeln!(f, "{line}");
            let _ = f.flush();
        }
        None => println!("{line}"),
    }
}

thread_local! {
    static LAST_PANIC: RefCell<Option<(String, String)>> = const { RefCell::new(None) };
    static IN_GUARD: std::cell::Cell<u32> = const { std::cell::Cell::new(0) };
}

/// Install a panic hook that records `(location, message)` per thread and
/// prints nothing.
pub fn install_panic_hook() {
    panic::set_hook(Box::new(|info| {
        let loc = info
            .location()
            .map(|l| format!("{}:{}", l.file(), l.line()))
            .unwrap_or_else(|| "?".into());
        let msg = if let Some(s) = info.payload().downcast_ref::<&str>() {
            s.to_string()
        } else if let Some(s) = info.payload().downcast_ref::<String>() {
            s.clone()
        } else {
            "<non-string panic>".into()
        };
        if IN_GUARD.with(|g| g.get()) == 0 {
            // a panic of the harness itself: make it visible
            eprintln!("HARNESS PANIC at {loc}: {msg}");
            out(&format!("MACHINERY-ERROR: harness panic at {loc}: {msg}"));
        }
        LAST_PANIC.with(|p| *p.borrow_mut() = Some((loc, msg)));
    }));
}

/// Outcome of a guarded call.
#[derive(Debug, Clone)]
pub enum Guard<T> {
    Done(T),
    /// (location, message)
    Panicked(String, String),
}

/// Call `f`, turning a panic into a value carrying its source location.
pub fn guard<T>(f: impl FnOnce() -> T) -> Guard<T> {
    LAST_PANIC.with(|p| *p.borrow_mut() = None);
    IN_GUARD.with(|g| g.set(g.get() + 1));
    let r = panic::catch_unwind(AssertUnwindSafe(f));
    IN_GUARD.with(|g| g.set(g.get() - 1));
    match r {
        Ok(v) => Guard::Done(v),
        Err(_) => {
            let (loc, msg) = LAST_PANIC
                .with(|p| p.borrow_mut().take())
                .unwrap_or_else(|| ("?".into(), "?".into()));
            Guard::Panicked(normalize_loc(&loc), msg)
        }
    }
}

/// Make a panic location independent of where the repository is checked out
/// and of line drift inside dependencies: keep `src/...:line` for the library
/// itself, `<crate>/...` for dependencies.
pub fn normalize_loc(loc: &str) -> String {
    if let Some(i) = loc.find("/repo/") {
        return loc[i + 6..].to_string();
    }
    if let Some(i) = loc.find("/library/") {
        if loc.starts_with("/rustc/") {
            // the standard library: independent of the toolchain's build hash
            return format!("rust-std:{}", &loc[i + 9..]);
        }
    }
    if let Some(i) = loc.find("/registry/src/") {
        let rest = &loc[i + 14..];
        if let Some(j) = rest.find('/') {
            return rest[j + 1..].to_string();
        }
    }
    loc.to_string()
}

pub fn n_threads() -> usize {
    std::env::var("ITV_THREADS")
        .ok()
        .and_then(|s| s.parse().ok())
        .unwrap_or_else(|| {
            std::thread::available_parallelism()
                .map(|n| n.get())
                .unwrap_or(4)
                .min(16)
        })
}

/// Run `f(index, &case)` over all cases on a pool of threads; each thread
/// accumulates into its own `A` (created by `init`), the accumulators are
/// returned in thread order. Work is handed out in blocks through an atomic
/// cursor so the assignment is dynamic but every case is run exactly once.
pub fn par_fold<C: Sync, A: Send>(
    cases: &[C],
    init: impl Fn() -> A + Sync,
    f: impl Fn(&mut A, usize, &C) + Sync,
) -> Vec<A> {
    let cursor = AtomicUsize::new(0);
    let stop = AtomicBool::new(false);
    let n = cases.len();
    let block = (n / (n_threads() * 16)).clamp(1, 4096);
    let threads = n_threads().min(n.max(1));
    std::thread::scope(|s| {
        let hs: Vec<_> = (0..threads)
            .map(|_| {
                s.spawn(|| {
                    install_panic_hook_thread();
                    let mut acc = init();
                    loop {
                        if stop.load(Ordering::Relaxed) {
                            break;
                        }
                        let start = cursor.fetch_add(block, Ordering::Relaxed);
                        if start >= n {
                            break;
                        }
                        for i in start..(start + block).min(n) {
                            f(&mut acc, i, &cases[i]);
                        }
                    }
                    acc
                })
            })
            .collect();
        hs.into_iter()
            .map(|h| match h.join() {
                Ok(a) => a,
                Err(_) => {
                    stop.store(true, Ordering::Relaxed);
                    machinery_error("worker thread of the harness panicked")
                }
            })
            .collect()
    })
}

fn install_panic_hook_thread() {}

/// Same as `par_fold` over an index range.
pub fn par_fold_range<A: Send>(
    n: usize,
    init: impl Fn() -> A + Sync,
    f: impl Fn(&mut A, usize) + Sync,
) -> Vec<A> {
    let idx: Vec<usize> = Vec::new();
    let _ = idx;
    let cursor = AtomicUsize::new(0);
    let block = (n / (n_threads() * 16)).clamp(1, 4096);
    let threads = n_threads().min(n.max(1));
    std::thread::scope(|s| {
        let hs: Vec<_> = (0..threads)
            .map(|_| {
                s.spawn(|| {
                    let mut acc = init();
                    loop {
                        let start = cursor.fetch_add(block, Ordering::Relaxed);
                        if start >= n {
                            break;
                        }
                        for i in start..(start + block).min(n) {
                            f(&mut acc, i);
                        }
                    }
                    acc
                })
            })
            .collect();
        hs.into_iter()
            .map(|h| {
                h.join().unwrap_or_else(|_| {
                    machinery_error("worker thread of the harness panicked")
                })
            })
            .collect()
    })
}

/// Exit 2: something is wrong with the machinery, never a verdict.
pub fn machinery_error(msg: &str) -> ! {
    out(&format!("MACHINERY-ERROR: {msg}"));
    eprintln!("MACHINERY-ERROR: {msg}");
    cleanup_scratch();
    std::process::exit(2);
}

static SCRATCH: Mutex<Option<PathBuf>> = Mutex::new(None);
static SCRATCH_SEQ: AtomicUsize = AtomicUsize::new(0);

/// Root of this process's private scratch space (removed at exit).
pub fn scratch_root() -> PathBuf {
    let mut g = SCRATCH.lock().unwrap();
    if let Some(p) = g.as_ref() {
        return p.clone();
    }
    let base = if Path::new("/dev/shm").is_dir() {
        PathBuf::from("/dev/shm")
    } else {
        std::env::temp_dir()
    };
    // remove scratch directories of harness processes that no longer exist (killed runs)
    if let Ok(rd) = std::fs::read_dir(&base) {
        for e in rd.flatten() {
            let name = e.file_name().to_string_lossy().to_string();
            if let Some(pid) = name.strip_prefix("itv-").and_then(|s| s.parse::<u32>().ok()) {
                if !Path::new(&format!("/proc/{pid}")).exists() {
                    let _ = std::fs::remove_dir_all(e.path());
                }
            }
        }
    }
    let p = base.join(format!("itv-{}", std::process::id()));
    let _ = std::fs::remove_dir_all(&p);
    std::fs::create_dir_all(&p).expect("create scratch root");
    *g = Some(p.clone());
    p
}

/// A fresh, empty directory under the scratch root.
pub fn fresh_dir(tag: &str) -> PathBuf {
    let n = SCRATCH_SEQ.fetch_add(1, Ordering::Relaxed);
    let p = scratch_root().join(format!("{tag}-{n}"));
    std::fs::create_dir_all(&p).expect("create scratch dir");
    p
}

pub fn cleanup_scratch() {
    if let Some(p) = SCRATCH.lock().unwrap().take() {
        let _ = std::fs::remove_dir_all(p);
    }
}

/// Cartesian power: all sequences of length `k` over `0..n`, in order.
pub fn sequences(n: usize, k: usize) -> Vec<Vec<usize>> {
    let mut out = vec![vec![]];
    for _ in 0..k {
        let mut next = Vec::with_capacity(out.len() * n);
        for s in &out {
            for i in 0..n {
                let mut t = s.clone();
                t.push(i);
                next.push(t);
            }
        }
        out = next;
    }
    out
}

/// All strings of length 0..=k over an alphabet of chars (shortest first).
pub fn strings_upto(alpha: &[char], k: usize) -> Vec<String> {
    let mut out = Vec::new();
    for len in 0..=k {
        for seq in sequences(alpha.len(), len) {
            out.push(seq.iter().map(|&i| alpha[i]).collect());
        }
    }
    out
}

pub fn hex(bytes: &[u8]) -> String {
    data_encoding::HEXLOWER.encode(bytes)
}

pub fn sha256(bytes: &[u8]) -> Vec<u8> {
    ring::digest::digest(&ring::digest::SHA256, bytes)
        .as_ref()
        .to_vec()
}

pub fn sha512(bytes: &[u8]) -> Vec<u8> {
    ring::digest::digest(&ring::digest::SHA512, bytes)
        .as_ref()
        .to_vec()
}
