//! Hooks-off legs: the same battery of end-to-end cases is run (a) in this
//! hooked build with no driver installed, (b) in the hooks-off binary in fresh
//! processes (fresh hash seeds, real clock).

use std::process::Command;

use serde_json::Value;

use crate::util;

#[path = "../../shared/battery.rs"]
mod battery;

const PLAIN: &str = "/verif/harness-plain/target/release/itv-plain";

/// Process time zones the wall-clock leg is run under ("" = inherited environment).
pub const TIME_ZONES: [&str; 4] = ["", "Asia/Kolkata", "America/Los_Angeles", "Pacific/Kiritimati"];

fn run_plain(sub: &str) -> Value {
    run_plain_tz(sub, "")
}

fn run_plain_tz(sub: &str, tz: &str) -> Value {
    let dir = util::fresh_dir("plain");
    // development aid: another build of the companion binary
    let bin = std::env::var("ITV_PLAIN_BIN").unwrap_or_else(|_| PLAIN.to_string());
    let mut cmd = Command::new(&bin);
    cmd.args([sub, dir.to_str().unwrap()]);
    if !tz.is_empty() {
        cmd.env("TZ", tz);
    }
    let out = cmd
        .output()
        .unwrap_or_else(|e| util::machinery_error(&format!("cannot run {PLAIN}: {e} (run ./setup.sh)")));
    if !out.status.success() {
        util::machinery_error(&format!("{PLAIN} {sub} failed: {}", String::from_utf8_lossy(&out.stderr)));
    }
    let txt = String::from_utf8_lossy(&out.stdout);
    let line = txt.lines().last().unwrap_or("");
    serde_json::from_str(line).unwrap_or_else(|e| util::machinery_error(&format!("{PLAIN} {sub}: bad output: {e}")))
}

/// Outcomes of the deterministic battery in this (hooked) build, no driver.
pub fn battery_hooked() -> Vec<(String, String)> {
    assert!(in_toto::verif_hooks::uninstall().is_none());
    battery::deterministic(&util::fresh_dir("battery"))
}

/// Outcomes of the battery in `n` fresh processes of the hooks-off binary.
pub fn battery_plain(n: usize) -> Vec<Vec<(String, String)>> {
    (0..n)
        .map(|_| {
            run_plain("battery")
                .as_array()
                .cloned()
                .unwrap_or_default()
                .into_iter()
                .map(|e| (e["name"].as_str().unwrap_or("").to_string(), e["outcome"].as_str().unwrap_or("").to_string()))
                .collect()
        })
        .collect()
}

/// (expires text, delta seconds, outcome) from the hooks-off binary on the real clock.
pub fn wallclock_plain() -> Vec<(String, i64, String)> {
    let mut all = vec![];
    for tz in TIME_ZONES {
        all.extend(
            run_plain_tz("wallclock", tz)
                .as_array()
                .cloned()
                .unwrap_or_default()
                .into_iter()
                .map(|e| (format!("{} [TZ={}]", e["expires"].as_str().unwrap_or(""), if tz.is_empty() { "inherited" } else { tz }), e["delta_s"].as_i64().unwrap_or(0), e["outcome"].as_str().unwrap_or("").to_string())),
        );
    }
    all
}

/// Ageing leg from the hooks-off binary: (label, expires, started past expiry, returned past expiry, outcome).
pub fn ageing_plain() -> Vec<(String, String, f64, f64, String)> {
    run_plain("ageing")
        .as_array()
        .cloned()
        .unwrap_or_default()
        .into_iter()
        .map(|e| (e["label"].as_str().unwrap_or("").to_string(), e["expires"].as_str().unwrap_or("").to_string(), e["started_past_expiry_s"].as_f64().unwrap_or(0.0), e["returned_past_expiry_s"].as_f64().unwrap_or(0.0), e["outcome"].as_str().unwrap_or("").to_string()))
        .collect()
}
