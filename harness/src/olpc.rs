//! Reference encoders, written independently of the library:
//! OLPC / securesystemslib canonical JSON and the key-id preimage.

use serde_json::{json, Value};

/// securesystemslib `encode_canonical`: objects sorted by code point, `,` and
/// `:` separators, integers in decimal, strings with only `\` and `"` escaped
/// and everything else raw UTF-8; floats are rejected.
pub fn encode(v: &Value) -> Result<Vec<u8>, String> {
    let mut out = Vec::new();
    enc(v, &mut out)?;
    Ok(out)
}

fn enc_str(s: &str, out: &mut Vec<u8>) {
    out.push(b'"');
    for b in s.bytes() {
        match b {
            b'\\' => out.extend_from_slice(b"\\\\"),
            b'"' => out.extend_from_slice(b"\\\""),
            _ => out.push(b),
        }
    }
    out.push(b'"');
}

fn enc(v: &Value, out: &mut Vec<u8>) -> Result<(), String> {
    match v {
        Value::Null => out.extend_from_slice(b"null"),
        Value::Bool(true) => out.extend_from_slice(b"true"),
        Value::Bool(false) => out.extend_from_slice(b"false"),
        Value::Number(n) => {
            if let Some(i) = n.as_i64() {
                out.extend_from_slice(i.to_string().as_bytes());
            } else if let Some(u) = n.as_u64() {
                out.extend_from_slice(u.to_string().as_bytes());
            } else {
                return Err("float".into());
            }
        }
        Value::String(s) => enc_str(s, out),
        Value::Array(a) => {
            out.push(b'[');
            for (i, e) in a.iter().enumerate() {
                if i > 0 {
                    out.push(b',');
                }
                enc(e, out)?;
            }
            out.push(b']');
        }
        Value::Object(o) => {
            // Python sorts str keys by code point; Rust's str Ord is byte-wise
            // over UTF-8, which is the same order.
            let mut keys: Vec<&String> = o.keys().collect();
            keys.sort();
            out.push(b'{');
            for (i, k) in keys.iter().enumerate() {
                if i > 0 {
                    out.push(b',');
                }
                enc_str(k, out);
                out.push(b':');
                enc(&o[*k], out)?;
            }
            out.push(b'}');
        }
    }
    Ok(())
}

/// PEM text exactly as securesystemslib stores RSA public keys (64-column
/// base64, LF line ends, no trailing newline).
pub fn pem_public(spki_der: &[u8]) -> String {
    let b64 = data_encoding::BASE64.encode(spki_der);
    let mut s = String::from("-----BEGIN PUBLIC KEY-----\n");
    for chunk in b64.as_bytes().chunks(64) {
        s.push_str(std::str::from_utf8(chunk).unwrap());
        s.push('\n');
    }
    s.push_str("-----END PUBLIC KEY-----");
    s
}

/// Key id = hex(sha256(olpc({keytype, scheme, keyid_hash_algorithms?, keyval:{public}}))).
pub fn keyid(
    keytype: &str,
    scheme: &str,
    hash_algs: Option<&[&str]>,
    public: &str,
) -> String {
    let mut m = serde_json::Map::new();
    m.insert("keytype".into(), json!(keytype));
    m.insert("scheme".into(), json!(scheme));
    if let Some(h) = hash_algs {
        m.insert("keyid_hash_algorithms".into(), json!(h));
    }
    m.insert("keyval".into(), json!({ "public": public }));
    let bytes = encode(&Value::Object(m)).unwrap();
    crate::util::hex(&crate::util::sha256(&bytes))
}

/// Self-tests binding the reference encoders to the Python reference
/// implementation: the layout and the three links shipped in the repository
/// were produced and RSA-PSS-signed by Python in-toto; their signatures must
/// verify (with ring directly) over `encode(signed)`, and the key ids in them
/// must equal `keyid(...)`.
pub fn selftest() -> Result<Vec<String>, String> {
    use ring::signature::{UnparsedPublicKey, RSA_PSS_2048_8192_SHA256};
    let mut done = vec![];
    let docs: [(&str, &str); 4] = [
        ("root.layout", include_str!("../../fixtures/pyref/root.layout")),
        (
            "clone.776a00e2.link",
            include_str!("../../fixtures/pyref/links/clone.776a00e2.link"),
        ),
        (
            "update-version.776a00e2.link",
            include_str!("../../fixtures/pyref/links/update-version.776a00e2.link"),
        ),
        (
            "package.2f89b927.link",
            include_str!("../../fixtures/pyref/links/package.2f89b927.link"),
        ),
    ];
    let layout: Value = serde_json::from_str(docs[0].1).map_err(|e| e.to_string())?;
    // key table of the layout + alice (owner)
    let mut table: Vec<(String, Vec<u8>)> = vec![];
    let alice = pem::parse(crate::keys::ALICE_PUB_PEM).map_err(|e| e.to_string())?;
    let alice_id = keyid(
        "rsa",
        "rsassa-pss-sha256",
        Some(&["sha256", "sha512"]),
        &pem_public(alice.contents()),
    );
    table.push((alice_id.clone(), alice.contents().to_vec()));
    for (id, k) in layout["signed"]["keys"].as_object().ok_or("keys")? {
        let pemtxt = k["keyval"]["public"].as_str().ok_or("public")?;
        let p = pem::parse(pemtxt).map_err(|e| e.to_string())?;
        let algs: Vec<&str> = k["keyid_hash_algorithms"]
            .as_array()
            .map(|a| a.iter().filter_map(|x| x.as_str()).collect())
            .unwrap_or_default();
        let mine = keyid(
            k["keytype"].as_str().unwrap_or(""),
            k["scheme"].as_str().unwrap_or(""),
            if k.get("keyid_hash_algorithms").is_some() {
                Some(&algs)
            } else {
                None
            },
            &pem_public(p.contents()),
        );
        if &mine != id {
            return Err(format!("keyid oracle: {mine} != {id} (python)"));
        }
        done.push(format!("keyid:{}", &id[..8]));
        table.push((id.clone(), p.contents().to_vec()));
    }
    if alice_id != "556caebdc0877eed53d419b60eddb1e57fa773e4e31d70698b588f3e9cc48b35" {
        return Err(format!("keyid oracle: alice = {alice_id}"));
    }
    done.push("keyid:alice".into());
    for (name, txt) in docs {
        let doc: Value = serde_json::from_str(txt).map_err(|e| e.to_string())?;
        let bytes = encode(&doc["signed"])?;
        let sigs = doc["signatures"].as_array().ok_or("signatures")?;
        if sigs.is_empty() {
            return Err(format!("{name}: no signatures"));
        }
        for s in sigs {
            let id = s["keyid"].as_str().ok_or("keyid")?;
            let sig = data_encoding::HEXLOWER
                .decode(s["sig"].as_str().ok_or("sig")?.as_bytes())
                .map_err(|e| e.to_string())?;
            let spki = &table
                .iter()
                .find(|(i, _)| i == id)
                .ok_or(format!("{name}: unknown signer {id}"))?
                .1;
            let pkcs1 = rsa_pkcs1_from_spki(spki)?;
            UnparsedPublicKey::new(&RSA_PSS_2048_8192_SHA256, &pkcs1)
                .verify(&bytes, &sig)
                .map_err(|_| {
                    format!("{name}: python signature does not verify over olpc(signed)")
                })?;
        }
        done.push(format!("olpc:{name}"));
    }
    Ok(done)
}

/// Minimal DER walk: SPKI -> BIT STRING contents (PKCS#1 RSAPublicKey).
pub fn rsa_pkcs1_from_spki(spki: &[u8]) -> Result<Vec<u8>, String> {
    let (tag, body, _) = der_tlv(spki)?;
    if tag != 0x30 {
        return Err("spki: not a sequence".into());
    }
    let (t1, _alg, rest) = der_tlv(body)?;
    if t1 != 0x30 {
        return Err("spki: no algorithm".into());
    }
    let (t2, bits, _) = der_tlv(rest)?;
    if t2 != 0x03 || bits.is_empty() {
        return Err("spki: no bit string".into());
    }
    Ok(bits[1..].to_vec())
}

/// Split one DER TLV: (tag, value, remainder).
pub fn der_tlv(b: &[u8]) -> Result<(u8, &[u8], &[u8]), String> {
    if b.len() < 2 {
        return Err("der: short".into());
    }
    let tag = b[0];
    let (len, hdr) = if b[1] < 0x80 {
        (b[1] as usize, 2)
    } else {
        let n = (b[1] & 0x7f) as usize;
        if n == 0 || n > 4 || b.len() < 2 + n {
            return Err("der: length".into());
        }
        let mut l = 0usize;
        for &x in &b[2..2 + n] {
            l = (l << 8) | x as usize;
        }
        (l, 2 + n)
    };
    if b.len() < hdr + len {
        return Err("der: truncated".into());
    }
    Ok((tag, &b[hdr..hdr + len], &b[hdr + len..]))
}
