//! End-to-end world builder: layouts, links, link directories, and a guarded
//! call into `in_toto_verify`.

use std::collections::{BTreeMap, HashMap};
use std::path::Path;
use std::str::FromStr;

use chrono::{DateTime, Utc};
use in_toto::crypto::{HashAlgorithm, HashValue, KeyId, PublicKey};
use in_toto::models::byproducts::ByProducts;
use in_toto::models::inspection::Inspection;
use in_toto::models::rule::ArtifactRule;
use in_toto::models::step::{Command, Step};
use in_toto::models::{
    LayoutMetadata, LayoutMetadataBuilder, LinkMetadata, LinkMetadataBuilder,
    Metablock, MetadataWrapper, TargetDescription, VirtualTargetPath,
};
use in_toto::verif_hooks::{self, Driver};
use serde_json::Value;

use crate::keys::Key;
use crate::util::{guard, Guard};

/// The harness clock used for every end-to-end run that is not about expiry.
pub fn now() -> DateTime<Utc> {
    DateTime::parse_from_rfc3339("2030-01-01T00:00:00Z")
        .unwrap()
        .with_timezone(&Utc)
}

pub fn far_future() -> DateTime<Utc> {
    DateTime::parse_from_rfc3339("2031-06-01T00:00:00Z")
        .unwrap()
        .with_timezone(&Utc)
}

/// Digest value number `n` (32 bytes).
pub fn h(n: u8) -> Vec<u8> {
    crate::util::sha256(&[n])
}

pub fn desc(n: u8) -> TargetDescription {
    let mut d = TargetDescription::new();
    d.insert(HashAlgorithm::Sha256, HashValue::new(h(n)));
    d
}

pub fn desc2(n: u8) -> TargetDescription {
    let mut d = desc(n);
    d.insert(
        HashAlgorithm::Sha512,
        HashValue::new(crate::util::sha512(&[n])),
    );
    d
}

/// Paths are built through `From<&str>` (the idiomatic `.into()`), which stores
/// the string as given; parsing goes through `VirtualTargetPath::new`. The two
/// must agree for every string, which the round-trip checks then observe.
pub fn vpath(p: &str) -> VirtualTargetPath {
    VirtualTargetPath::from(p)
}

pub type Artifacts = BTreeMap<VirtualTargetPath, TargetDescription>;

pub fn arts(spec: &[(&str, u8)]) -> Artifacts {
    spec.iter().map(|(p, n)| (vpath(p), desc(*n))).collect()
}

pub fn link(name: &str, materials: Artifacts, products: Artifacts) -> LinkMetadata {
    LinkMetadataBuilder::new()
        .name(name.to_string())
        .materials(materials)
        .products(products)
        .byproducts(
            ByProducts::new()
                .set_return_value(0)
                .set_stdout(String::new())
                .set_stderr(String::new()),
        )
        .command(Command::from(vec!["true".to_string()]))
        .build()
        .unwrap()
}

/// Three links for the leaf-edit sweeps: one with every member filled (paths with separators of
/// both kinds, mixed case, a non-ASCII letter), one of a failed command with an empty (not
/// absent) environment, one with nothing optional in it.
pub fn sample_links(step: &str) -> Vec<(&'static str, LinkMetadata)> {
    let rich = {
        let mut l = link(step, arts(&[("src/a.c", 1), ("Src\\b.c", 3)]), arts(&[("out/p", 2), ("caf\u{e9}/menu", 4)]));
        l.env = Some([("workdir".to_string(), "/w/Build".to_string()), ("empty".to_string(), String::new())].into_iter().collect());
        l.byproducts = ByProducts::new().set_return_value(0).set_stdout("Done\n".to_string()).set_stderr(String::new());
        l.command = vec!["sh".to_string(), "-c".to_string(), "make out/p".to_string()].into();
        l
    };
    let failed = {
        let mut l = rich.clone();
        l.byproducts = ByProducts::new().set_return_value(-1);
        l.env = Some(Default::default());
        l
    };
    let bare = {
        let mut l = link(step, arts(&[]), arts(&[("p", 2)]));
        l.byproducts = ByProducts::new();
        l.command = Vec::<String>::new().into();
        l
    };
    vec![("rich", rich), ("return-value -1, empty environment", failed), ("bare: no environment, no byproducts, no command", bare)]
}

pub fn sign(meta: MetadataWrapper, signers: &[&Key]) -> Metablock {
    let ks: Vec<&in_toto::crypto::PrivateKey> =
        signers.iter().map(|k| &k.private).collect();
    Metablock::new(meta, &ks).expect("sign")
}

pub fn sign_link(l: LinkMetadata, signers: &[&Key]) -> Metablock {
    sign(MetadataWrapper::Link(l), signers)
}

pub fn sign_layout(l: LayoutMetadata, signers: &[&Key]) -> Metablock {
    sign(MetadataWrapper::Layout(l), signers)
}

pub fn block_text(mb: &Metablock) -> String {
    serde_json::to_string(mb).expect("serialize block")
}

pub fn block_value(mb: &Metablock) -> Value {
    serde_json::to_value(mb).expect("serialize block")
}

/// Parse a block from a JSON value (through text: some fields only decode
/// from text).
pub fn block_from_value(v: &Value) -> Result<Metablock, String> {
    serde_json::from_str(&v.to_string()).map_err(|e| e.to_string())
}

pub fn link_file(step: &str, key: &Key) -> String {
    format!("{step}.{}.link", key.prefix())
}

pub fn write(dir: &Path, name: &str, content: &str) {
    std::fs::write(dir.join(name), content).expect("write file");
}

pub fn step(name: &str, threshold: u32, pubkeys: &[&Key]) -> Step {
    let mut s = Step::new(name).threshold(threshold);
    for k in pubkeys {
        s = s.add_key(KeyId::from_str(&k.id()).unwrap());
    }
    s
}

pub fn layout(
    steps: Vec<Step>,
    inspections: Vec<Inspection>,
    key_table: &[&Key],
    expires: DateTime<Utc>,
) -> LayoutMetadata {
    let mut b = LayoutMetadataBuilder::new().expires(expires).steps(steps).inspects(inspections);
    for k in key_table {
        b = b.add_key(k.public().clone());
    }
    b.build().unwrap()
}

pub fn owner_map(keys: &[&Key]) -> HashMap<KeyId, PublicKey> {
    keys.iter()
        .map(|k| (k.private.key_id().clone(), k.public().clone()))
        .collect()
}

#[derive(Debug, Clone, PartialEq, Eq)]
pub enum Verdict {
    /// Summary link (`signed` part) as JSON.
    Ok(Value),
    Err(String),
    Panic(String, String),
}

impl Verdict {
    pub fn is_ok(&self) -> bool {
        matches!(self, Verdict::Ok(_))
    }
    pub fn tag(&self) -> &'static str {
        match self {
            Verdict::Ok(_) => "ok",
            Verdict::Err(_) => "err",
            Verdict::Panic(..) => "panic",
        }
    }
    pub fn to_json(&self) -> Value {
        match self {
            Verdict::Ok(v) => serde_json::json!({"ok": v}),
            Verdict::Err(e) => serde_json::json!({"err": e}),
            Verdict::Panic(l, m) => serde_json::json!({"panic": l, "message": m}),
        }
    }
}

/// Run `in_toto_verify` under the harness clock (and an optional permutation
/// script); returns the verdict and the driver (trace of choice points).
pub fn verify_with(
    layout: &Metablock,
    owner_keys: HashMap<KeyId, PublicKey>,
    dir: &Path,
    driver: Driver,
) -> (Verdict, Driver) {
    verify_named_with(layout, owner_keys, dir, None, driver)
}

/// `name` is the public `step_name` parameter: the name requested for the summary link.
pub fn verify_named(layout: &Metablock, owner_keys: HashMap<KeyId, PublicKey>, dir: &Path, name: Option<&str>) -> Verdict {
    verify_named_with(layout, owner_keys, dir, name, default_driver()).0
}

pub fn verify_named_with(
    layout: &Metablock,
    owner_keys: HashMap<KeyId, PublicKey>,
    dir: &Path,
    name: Option<&str>,
    driver: Driver,
) -> (Verdict, Driver) {
    let prev = verif_hooks::install(driver);
    let d = dir.to_str().unwrap().to_string();
    let r = guard(|| in_toto::verifylib::in_toto_verify(layout, owner_keys, &d, name));
    let drv = verif_hooks::uninstall().unwrap_or_default();
    if let Some(p) = prev {
        verif_hooks::install(p);
    }
    let v = match r {
        Guard::Done(Ok(mb)) => Verdict::Ok(
            serde_json::to_value(&mb.metadata).unwrap_or(Value::Null),
        ),
        Guard::Done(Err(e)) => Verdict::Err(format!("{e:?}")),
        Guard::Panicked(l, m) => Verdict::Panic(l, m),
    };
    (v, drv)
}

pub fn default_driver() -> Driver {
    Driver {
        clock: Some(now()),
        permute: true,
        ..Driver::default()
    }
}

pub fn verify(
    layout: &Metablock,
    owner_keys: HashMap<KeyId, PublicKey>,
    dir: &Path,
) -> Verdict {
    verify_with(layout, owner_keys, dir, default_driver()).0
}

pub fn rule_json(r: &ArtifactRule) -> Value {
    serde_json::to_value(r).unwrap()
}
