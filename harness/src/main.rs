//! `itv` — model-checking harness for the in-toto-rs properties C01..C20.
//!
//! usage: itv check <ID> [--tier quick|thorough]
//!        itv replay <ID> <file>
//!        itv worker <kind> <cases-file> <shard> <nshards> <out-file>

mod envprobe;
mod explore;
mod keys;
mod olpc;
mod plain;
mod props;
mod report;
mod tamper;
mod util;
mod world;
mod worker;

use report::Tier;

fn main() {
    let args: Vec<String> = std::env::args().collect();
    if args.len() < 2 {
        eprintln!("usage: itv check <ID> [--tier quick|thorough] | replay <ID> <file>");
        std::process::exit(2);
    }
    util::install_panic_hook();
    match args[1].as_str() {
        "check" => {
            let id = args.get(2).cloned().unwrap_or_default();
            let mut tier = match std::env::var("VERIF_TIER").as_deref() {
                Ok("thorough") => Tier::Thorough,
                _ => Tier::Quick,
            };
            let mut i = 3;
            while i < args.len() {
                if args[i] == "--tier" {
                    tier = match args.get(i + 1).map(|s| s.as_str()) {
                        Some("thorough") => Tier::Thorough,
                        Some("quick") => Tier::Quick,
                        _ => util::machinery_error("bad --tier"),
                    };
                    i += 1;
                }
                i += 1;
            }
            util::capture_stdout(None);
            let code = match std::panic::catch_unwind(|| props::run(&id, tier)) {
                Ok(c) => c,
                Err(_) => util::machinery_error("the harness itself panicked (see the HARNESS PANIC line above); this is never a verdict"),
            };
            util::cleanup_scratch();
            std::process::exit(code);
        }
        "replay" => {
            let id = args.get(2).cloned().unwrap_or_default();
            let file = args.get(3).cloned().unwrap_or_default();
            let txt = std::fs::read_to_string(&file).unwrap_or_else(|e| {
                util::machinery_error(&format!("cannot read {file}: {e}"))
            });
            let v: serde_json::Value = serde_json::from_str(&txt)
                .unwrap_or_else(|e| util::machinery_error(&format!("bad replay file: {e}")));
            let case = if v.get("case").is_some() { v["case"].clone() } else { v };
            util::capture_stdout(None);
            let obs1 = props::replay(&id, &case);
            let obs2 = props::replay(&id, &case);
            util::cleanup_scratch();
            util::out(&serde_json::to_string_pretty(&obs1).unwrap());
            if obs1 != obs2 {
                util::machinery_error("replay is not deterministic: two runs differ");
            }
            let violated = obs1.get("violation").map(|x| !x.is_null()).unwrap_or(false);
            std::process::exit(if violated { 1 } else { 0 });
        }
        "worker" => {
            worker::main(&args[2..]);
        }
        _ => {
            eprintln!("unknown subcommand");
            std::process::exit(2);
        }
    }
}
