//! C01 — only a layout validly signed by every trusted owner key is enforced.
//!
//! E1: a state is (base layout, signer set, caller key map, history of
//! post-signing mutations, signature corruption). BFS over mutation histories
//! (each mutation has its inverse in the alphabet, so tamper -> restore returns
//! to an accepting state). Every state is run on the real `in_toto_verify`;
//! acceptance implies the reference condition of the statement.

use std::collections::{BTreeSet, HashMap, HashSet};
use std::path::{Path, PathBuf};
use std::str::FromStr;

use in_toto::crypto::{KeyId, PublicKey};
use in_toto::models::rule::{Artifact, ArtifactRule};
use in_toto::models::{LayoutMetadata, Metablock, MetadataWrapper};
use serde_json::{json, Value};

use crate::keys::{self, Key};
use crate::report::{Acc, Check, Tier};
use crate::util;
use crate::world::{self, Verdict};

fn owners() -> [&'static Key; 4] {
    [keys::get("ed6"), keys::get("ec1"), keys::get("rsa256a"), keys::get("rsa512c")]
}
const OWNER_NAMES: [&str; 4] = ["O1(ed25519)", "O2(ecdsa)", "O3(rsa-pss-sha256/2048)", "O4(rsa-pss-sha512/4096)"];

struct Base {
    name: &'static str,
    layout: LayoutMetadata,
    dir: PathBuf,
}

fn bases() -> Vec<Base> {
    let a = keys::get("ed1");
    let b = keys::get("ed2");
    let r = keys::get("rsa256b");
    let mut v = vec![];
    // L0: no steps
    {
        let dir = util::fresh_dir("c01");
        v.push(Base { name: "L0:no-steps", layout: world::layout(vec![], vec![], &[], world::far_future()), dir });
    }
    // L1: one step with rules, command, one functionary
    {
        let dir = util::fresh_dir("c01");
        let s = world::step("s", 1, &[a])
            .expected_command(vec!["true".to_string()].into())
            .add_expected_product(ArtifactRule::Create("p".into()))
            .add_expected_product(ArtifactRule::Disallow("*".into()));
        let l = world::link("s", world::arts(&[]), world::arts(&[("p", 2)]));
        world::write(&dir, &world::link_file("s", a), &world::block_text(&world::sign_link(l, &[a])));
        v.push(Base { name: "L1:one-step", layout: world::layout(vec![s], vec![], &[a], world::far_future()), dir });
    }
    // L2: two steps, MATCH with prefix
    {
        let dir = util::fresh_dir("c01");
        let s0 = world::step("s0", 1, &[a]).add_expected_product(ArtifactRule::Allow("*".into()));
        let s1 = world::step("s1", 1, &[b])
            .add_expected_material(ArtifactRule::Match {
                pattern: "p".into(),
                in_src: Some("d".into()),
                with: Artifact::Products,
                in_dst: None,
                from: "s0".into(),
            })
            .add_expected_material(ArtifactRule::Disallow("*".into()));
        world::write(&dir, &world::link_file("s0", a), &world::block_text(&world::sign_link(world::link("s0", world::arts(&[]), world::arts(&[("p", 2)])), &[a])));
        world::write(&dir, &world::link_file("s1", b), &world::block_text(&world::sign_link(world::link("s1", world::arts(&[("d/p", 2)]), world::arts(&[("q", 3)])), &[b])));
        v.push(Base { name: "L2:two-steps-match", layout: world::layout(vec![s0, s1], vec![], &[a, b], world::far_future()), dir });
    }
    // L3: threshold 2, RSA key in the key table
    {
        let dir = util::fresh_dir("c01");
        let s = world::step("s", 2, &[a, b]);
        for k in [a, b] {
            world::write(&dir, &world::link_file("s", k), &world::block_text(&world::sign_link(world::link("s", world::arts(&[("m", 1)]), world::arts(&[("p", 2)])), &[k])));
        }
        v.push(Base { name: "L3:threshold-2-rsa-in-table", layout: world::layout(vec![s], vec![], &[a, b, r], world::far_future()), dir });
    }
    // L4: one step and one inspection (a command the verifier will execute)
    {
        let dir = util::fresh_dir("c01");
        let s = world::step("s", 1, &[a]);
        let insp = in_toto::models::inspection::Inspection::new("check").run(vec!["true".to_string()].into());
        world::write(&dir, &world::link_file("s", a), &world::block_text(&world::sign_link(world::link("s", world::arts(&[]), world::arts(&[("p", 2)])), &[a])));
        v.push(Base { name: "L4:step-and-inspection", layout: world::layout(vec![s], vec![insp], &[a], world::far_future()), dir });
    }
    // L5: rule patterns and names with separators, mixed case and a non-ASCII letter (for the
    // re-spelling sweep: '/' <-> '\\', case, added separators)
    {
        let dir = util::fresh_dir("c01");
        let s = world::step("Build-it", 1, &[a])
            .expected_command(vec!["make".to_string(), "Out/p".to_string()].into())
            .add_expected_material(ArtifactRule::Allow("src/*".into()))
            .add_expected_product(ArtifactRule::Create("out/p".into()))
            .add_expected_product(ArtifactRule::Disallow("keys/secret.key".into()))
            .add_expected_product(ArtifactRule::Disallow("Keys\\Secret.key".into()))
            .add_expected_product(ArtifactRule::Allow("caf\u{e9}/menu".into()));
        world::write(&dir, &world::link_file("Build-it", a), &world::block_text(&world::sign_link(world::link("Build-it", world::arts(&[("src/a.c", 1)]), world::arts(&[("out/p", 2)])), &[a])));
        v.push(Base { name: "L5:paths-with-separators-and-case", layout: world::layout(vec![s], vec![], &[a], world::far_future()), dir });
    }
    // every base has a readme, and its directory also holds the evidence a *mutated* layout would
    // ask for (a link for the renamed / copied step, a second functionary's link), so that a
    // post-signing change is not rejected downstream for lack of evidence
    for base in v.iter_mut() {
        base.layout.readme = "release".into();
        let Some(first) = base.layout.steps.first().cloned() else { continue };
        for name in ["renamed", "extra"] {
            for k in [a, b] {
                world::write(&base.dir, &world::link_file(name, k), &world::block_text(&world::sign_link(world::link(name, world::arts(&[("m", 1)]), world::arts(&[("p", 2)])), &[k])));
            }
        }
        let f = world::link_file(&first.name, b);
        if !base.dir.join(&f).exists() {
            let products = if base.name.starts_with("L3") { world::arts(&[("p", 2)]) } else { world::arts(&[("p", 2)]) };
            let materials = if base.name.starts_with("L3") { world::arts(&[("m", 1)]) } else { world::arts(&[]) };
            world::write(&base.dir, &f, &world::block_text(&world::sign_link(world::link(&first.name, materials, products), &[b])));
        }
    }
    v
}

// ------------------------------------------------------------ mutations

pub const MUTATIONS: [&str; 43] = [
    "readme=x",
    // one character replaced by the character 256 code points above it
    "readme-twin",
    "rule.disallow-star-twin",
    "rule.with-other-side",
    "inspect0.run",
    "inspect0.name",
    "inspect0.rule+DISALLOW",
    "inspect-last",
    "expires+1s",
    "expires-1s",
    "expires+1y",
    "expires.5s(same second)",
    "expires-other-offset(same instant)",
    "step0.name",
    "step0.threshold+1",
    "step0.threshold-1",
    "step0.pubkeys+B",
    "step0.pubkeys-first",
    "step0.command-token",
    "rule.kind",
    "rule.pattern",
    "rule.prefix",
    "rule.from",
    "steps+copy",
    "steps-last",
    "steps-swap",
    "inspect+one",
    "keys+X",
    "keys-first",
    "keys.first=other-material",
    "keys.rsa-scheme",
    "keys+misfiled(dropped at parse)",
    "_type=foo(not enforced)",
    "unknown-member(not enforced)",
    "step0._type",
    "restore:readme",
    "restore:expires",
    "restore:steps",
    "restore:inspect",
    "restore:keys",
    "restore:all",
    "step0.rules-cleared",
    "steplast.products-rule+ALLOW",
];

fn find_rule(signed: &mut Value, want_match: bool) -> Option<&mut Value> {
    let mut path: Option<(usize, &'static str, usize)> = None;
    'outer: for (si, s) in signed["steps"].as_array()?.iter().enumerate() {
        for field in ["expected_materials", "expected_products"] {
            for (ri, r) in s[field].as_array().into_iter().flatten().enumerate() {
                if !want_match || r[0] == "MATCH" {
                    path = Some((si, field, ri));
                    break 'outer;
                }
            }
        }
    }
    let (si, field, ri) = path?;
    signed["steps"].get_mut(si)?.get_mut(field)?.get_mut(ri)
}

/// Apply mutation `m` to the `signed` object. Returns false if not applicable.
fn mutate(signed: &mut Value, original: &Value, m: &str) -> bool {
    if let Some(rest) = m.strip_prefix("edit:") {
        return crate::tamper::apply(signed, rest);
    }
    let x = keys::get("ed5");
    let b = keys::get("ed2");
    match m {
        "readme=x" => signed["readme"] = json!("x"),
        "readme-twin" => {
            let cur = signed["readme"].as_str().unwrap_or("").to_string();
            let Some(c) = cur.chars().next() else { return false };
            let Some(twin) = char::from_u32(c as u32 + 0x100) else { return false };
            signed["readme"] = json!(format!("{twin}{}", &cur[c.len_utf8()..]));
        }
        "rule.disallow-star-twin" => {
            let mut done = false;
            for s in signed["steps"].as_array_mut().into_iter().flatten() {
                for field in ["expected_materials", "expected_products"] {
                    for r in s[field].as_array_mut().into_iter().flatten() {
                        if !done && r[0] == "DISALLOW" && r[1] == "*" {
                            r[1] = json!("\u{12a}"); // '*' is U+002A
                            done = true;
                        }
                    }
                }
            }
            if !done {
                return false;
            }
        }
        "rule.with-other-side" => {
            let Some(r) = find_rule(signed, true) else { return false };
            let n = r.as_array().unwrap().len();
            let cur = r[n - 3].as_str().unwrap_or("").to_string();
            r[n - 3] = json!(if cur == "PRODUCTS" { "MATERIALS" } else { "PRODUCTS" });
        }
        "inspect0.run" | "inspect0.name" | "inspect0.rule+DISALLOW" => {
            let Some(i) = signed["inspect"].get_mut(0) else { return false };
            match m {
                "inspect0.run" => i["run"] = json!(["sh", "-c", "exit 0"]),
                "inspect0.name" => i["name"] = json!("renamed-inspection"),
                _ => i["expected_products"].as_array_mut().unwrap().push(json!(["DISALLOW", "no-such-file"])),
            }
        }
        "inspect-last" => {
            let a = signed["inspect"].as_array_mut().unwrap();
            if a.is_empty() {
                return false;
            }
            a.pop();
        }
        "expires+1s" => signed["expires"] = json!("2031-06-01T00:00:01Z"),
        "expires-1s" => signed["expires"] = json!("2031-05-31T23:59:59Z"),
        "expires+1y" => signed["expires"] = json!("2032-06-01T00:00:00Z"),
        "expires.5s(same second)" => signed["expires"] = json!("2031-06-01T00:00:00.5Z"),
        "expires-other-offset(same instant)" => signed["expires"] = json!("2031-06-01T02:00:00+02:00"),
        "step0.name" | "step0.threshold+1" | "step0.threshold-1" | "step0.pubkeys+B" | "step0.pubkeys-first" | "step0.command-token" | "step0._type" | "step0.rules-cleared" => {
            let Some(s) = signed["steps"].get_mut(0) else { return false };
            match m {
                "step0.name" => s["name"] = json!("renamed"),
                "step0.threshold+1" => s["threshold"] = json!(s["threshold"].as_u64().unwrap_or(0) + 1),
                "step0.threshold-1" => {
                    let t = s["threshold"].as_u64().unwrap_or(0);
                    if t == 0 {
                        return false;
                    }
                    s["threshold"] = json!(t - 1)
                }
                "step0.pubkeys+B" => s["pubkeys"].as_array_mut().unwrap().push(json!(b.id())),
                "step0.pubkeys-first" => {
                    let a = s["pubkeys"].as_array_mut().unwrap();
                    if a.is_empty() {
                        return false;
                    }
                    a.remove(0);
                }
                "step0.command-token" => s["expected_command"] = json!(["false"]),
                "step0._type" => s["_type"] = json!("stepx"),
                "step0.rules-cleared" => {
                    if s["expected_materials"].as_array().unwrap().is_empty() && s["expected_products"].as_array().unwrap().is_empty() {
                        return false;
                    }
                    s["expected_materials"] = json!([]);
                    s["expected_products"] = json!([]);
                }
                _ => {}
            }
        }
        "steplast.products-rule+ALLOW" => {
            let Some(s) = signed["steps"].as_array_mut().and_then(|a| a.last_mut()) else { return false };
            s["expected_products"].as_array_mut().unwrap().insert(0, json!(["ALLOW", "*"]));
        }
        "rule.kind" => {
            let Some(r) = find_rule(signed, false) else { return false };
            if r[0] == "MATCH" {
                return false;
            }
            r[0] = json!(if r[0] == "ALLOW" { "DISALLOW" } else { "ALLOW" });
        }
        "rule.pattern" => {
            let Some(r) = find_rule(signed, false) else { return false };
            r[1] = json!("other-pattern");
        }
        "rule.prefix" => {
            let Some(r) = find_rule(signed, true) else { return false };
            if r[2] != "IN" {
                return false;
            }
            r[3] = json!("e");
        }
        "rule.from" => {
            let Some(r) = find_rule(signed, true) else { return false };
            let n = r.as_array().unwrap().len();
            r[n - 1] = json!("elsewhere");
        }
        "steps+copy" => {
            let Some(s) = signed["steps"].get(0).cloned() else { return false };
            let mut s = s;
            s["name"] = json!("extra");
            signed["steps"].as_array_mut().unwrap().push(s);
        }
        "steps-last" => {
            let a = signed["steps"].as_array_mut().unwrap();
            if a.is_empty() {
                return false;
            }
            a.pop();
        }
        "steps-swap" => {
            let a = signed["steps"].as_array_mut().unwrap();
            if a.len() < 2 {
                return false;
            }
            a.swap(0, 1);
        }
        "inspect+one" => signed["inspect"].as_array_mut().unwrap().push(json!({
            "_type": "inspection", "name": "insp", "expected_materials": [], "expected_products": [], "run": ["true"]
        })),
        "keys+X" => {
            signed["keys"][x.id()] = serde_json::to_value(x.public()).unwrap();
        }
        "keys-first" => {
            let o = signed["keys"].as_object_mut().unwrap();
            let Some(k) = o.keys().next().cloned() else { return false };
            o.remove(&k);
        }
        "keys.first=other-material" => {
            let o = signed["keys"].as_object_mut().unwrap();
            let Some(k) = o.keys().next().cloned() else { return false };
            o.insert(k, serde_json::to_value(x.public()).unwrap());
        }
        "keys.rsa-scheme" => {
            let o = signed["keys"].as_object_mut().unwrap();
            let Some(k) = o.iter().find(|(_, v)| v["keytype"] == "rsa").map(|(k, _)| k.clone()) else { return false };
            o[&k]["scheme"] = json!("rsassa-pss-sha512");
        }
        "keys+misfiled(dropped at parse)" => {
            signed["keys"]["0".repeat(64)] = serde_json::to_value(x.public()).unwrap();
        }
        "_type=foo(not enforced)" => signed["_type"] = json!("foo"),
        "unknown-member(not enforced)" => signed["zzz-extra"] = json!(1),
        "restore:readme" => signed["readme"] = original["readme"].clone(),
        "restore:expires" => signed["expires"] = original["expires"].clone(),
        "restore:steps" => signed["steps"] = original["steps"].clone(),
        "restore:inspect" => signed["inspect"] = original["inspect"].clone(),
        "restore:keys" => signed["keys"] = original["keys"].clone(),
        "restore:all" => *signed = original.clone(),
        _ => return false,
    }
    true
}

fn same_content(a: &MetadataWrapper, b: &MetadataWrapper) -> bool {
    match (a, b) {
        (MetadataWrapper::Layout(x), MetadataWrapper::Layout(y)) => {
            x.steps == y.steps && x.inspect == y.inspect && x.keys == y.keys && x.readme == y.readme && x.expires.timestamp() == y.expires.timestamp()
        }
        _ => a == b,
    }
}

// ------------------------------------------------- signature corruptions

pub const CORRUPTIONS: [&str; 11] = ["flip-bit-0", "flip-bit-mid", "flip-bit-last", "truncate", "empty", "swap-values", "relabel-keyid", "drop", "duplicate", "zeroed", "copy-under-guise-id"];

/// The same key material as owner `o` (0 = Ed25519, 1 = ECDSA), constructed from the raw public
/// key: no hash-algorithm list, hence another key id. Anyone can build it and can copy the
/// owner's signature under its id.
fn guise(o: usize) -> Option<PublicKey> {
    let raw = owners()[o].public().as_bytes().to_vec();
    match o {
        0 => PublicKey::from_ed25519(raw).ok(),
        1 => PublicKey::from_ecdsa(raw).ok(),
        // the RSA owner's modulus declared with the other PSS digest; the holder of the one private
        // key can sign under either declaration (see `guise_signer`)
        2 => Some(keys::get("rsa512a").public().clone()),
        _ => None,
    }
}

/// For the RSA owner the other guise has a private key too (it is the same key): a second,
/// genuine signature under the other scheme.
fn guise_signer(o: usize) -> Option<&'static Key> {
    (o == 2).then(|| keys::get("rsa512a"))
}

fn id_str(k: &PublicKey) -> String {
    serde_json::to_value(k.key_id()).unwrap().as_str().unwrap().to_string()
}

/// Apply a corruption to signature entry `idx`; returns false if not applicable.
fn corrupt(block: &mut Value, idx: usize, c: &str, bit: Option<usize>) -> bool {
    let n = block["signatures"].as_array().map(|a| a.len()).unwrap_or(0);
    if idx >= n {
        return false;
    }
    let hex = block["signatures"][idx]["sig"].as_str().unwrap_or("").to_string();
    let mut bytes = data_encoding::HEXLOWER.decode(hex.as_bytes()).unwrap_or_default();
    let set = |b: &mut Value, bytes: &[u8]| b["signatures"][idx]["sig"] = json!(util::hex(bytes));
    match c {
        "flip-bit" | "flip-bit-0" | "flip-bit-mid" | "flip-bit-last" => {
            let nbits = bytes.len() * 8;
            if nbits == 0 {
                return false;
            }
            let i = match c {
                "flip-bit-0" => 0,
                "flip-bit-mid" => nbits / 2,
                "flip-bit-last" => nbits - 1,
                _ => bit.unwrap_or(0) % nbits,
            };
            bytes[i / 8] ^= 1 << (i % 8);
            set(block, &bytes);
        }
        "truncate" => {
            bytes.pop();
            set(block, &bytes);
        }
        "empty" => set(block, &[]),
        "zeroed" => set(block, &vec![0u8; bytes.len()]),
        "swap-values" => {
            if n < 2 {
                return false;
            }
            let j = (idx + 1) % n;
            let other = block["signatures"][j]["sig"].clone();
            block["signatures"][j]["sig"] = json!(hex);
            block["signatures"][idx]["sig"] = other;
        }
        "relabel-keyid" => {
            // give this signature another owner's key id
            let own = block["signatures"][idx]["keyid"].as_str().unwrap_or("").to_string();
            let other = owners().iter().map(|k| k.id()).find(|id| *id != own).unwrap();
            block["signatures"][idx]["keyid"] = json!(other);
        }
        "drop" => {
            block["signatures"].as_array_mut().unwrap().remove(idx);
        }
        "duplicate" => {
            let e = block["signatures"][idx].clone();
            block["signatures"].as_array_mut().unwrap().push(e);
        }
        "copy-under-guise-id" => {
            let own = block["signatures"][idx]["keyid"].as_str().unwrap_or("").to_string();
            let Some(o) = (0..3).find(|o| owners()[*o].id() == own) else { return false };
            let Some(g) = guise(o) else { return false };
            let mut e = block["signatures"][idx].clone();
            e["keyid"] = json!(id_str(&g));
            if let Some(signer) = guise_signer(o) {
                // another scheme: the copied value would not verify; the key holder signs again
                let Ok(meta) = serde_json::from_str::<MetadataWrapper>(&block["signed"].to_string()) else { return false };
                e = world::block_value(&world::sign(meta, &[signer]))["signatures"][0].clone();
            }
            block["signatures"].as_array_mut().unwrap().push(e);
        }
        _ => return false,
    }
    true
}

/// Owners (indices) that still have an entry labelled with their id carrying
/// exactly the signature value they made.
fn valid_signers(block: &Value, genuine: &HashMap<String, String>) -> BTreeSet<usize> {
    let mut s = BTreeSet::new();
    for e in block["signatures"].as_array().cloned().unwrap_or_default() {
        let id = e["keyid"].as_str().unwrap_or("");
        let sig = e["sig"].as_str().unwrap_or("");
        if genuine.get(id).map(|g| g == sig).unwrap_or(false) {
            if let Some(i) = owners().iter().position(|k| k.id() == id) {
                s.insert(i);
            }
        }
    }
    s
}

// ----------------------------------------------------------- caller keys

#[derive(Clone, Debug)]
struct KeyMap {
    name: String,
    /// (label, owner index or 9 = unrelated X)
    entries: Vec<(String, usize)>,
}

fn key_of(i: usize) -> &'static Key {
    if i == 9 {
        keys::get("ed5")
    } else {
        owners()[i]
    }
}

/// Key index -> public key: 0..3 owners, 9 unrelated, 80 + o = the other guise of owner o.
fn pub_of(i: usize) -> PublicKey {
    if i == 70 {
        // an unrelated RSA key declared with a scheme the library does not know: it can never have
        // a valid signature, so a key set that contains it can never be satisfied
        return PublicKey::from_spki(keys::RSA_SPKI[1], in_toto::crypto::SignatureScheme::Unknown("rsassa-pss-sha384".into())).expect("key with an unknown scheme");
    }
    if i >= 80 {
        guise(i - 80).expect("guise")
    } else {
        key_of(i).public().clone()
    }
}

fn keymaps(signers: &[usize]) -> Vec<KeyMap> {
    let own = |i: usize| (key_of(i).id(), i);
    let mut v = vec![KeyMap { name: "empty".into(), entries: vec![] }];
    let n = signers.len();
    for mask in 1u32..(1 << n) {
        let sub: Vec<usize> = (0..n).filter(|b| mask & (1 << b) != 0).map(|b| signers[b]).collect();
        v.push(KeyMap { name: format!("subset{sub:?}"), entries: sub.iter().map(|i| own(*i)).collect() });
    }
    let mut sup: Vec<(String, usize)> = signers.iter().map(|i| own(*i)).collect();
    sup.push(own(9));
    v.push(KeyMap { name: "signers+unrelated".into(), entries: sup });
    v.push(KeyMap { name: "unrelated-only".into(), entries: vec![own(9)] });
    // a non-signing owner
    if let Some(ns) = (0..4).find(|i| !signers.contains(i)) {
        let mut e: Vec<(String, usize)> = signers.iter().map(|i| own(*i)).collect();
        e.push(own(ns));
        v.push(KeyMap { name: "signers+non-signing-owner".into(), entries: e });
        v.push(KeyMap { name: "non-signing-owner-only".into(), entries: vec![own(ns)] });
    }
    if let Some(&s0) = signers.first() {
        // the same key under two ids
        v.push(KeyMap { name: "same-key-under-two-ids".into(), entries: vec![own(s0), ("0".repeat(64), s0)] });
        // a signer's key filed under another key's id
        v.push(KeyMap { name: "key-filed-under-foreign-id".into(), entries: vec![(key_of(9).id(), s0)] });
        // an unrelated key filed under a signer's id
        v.push(KeyMap { name: "unrelated-key-under-signer-id".into(), entries: vec![(key_of(s0).id(), 9)] });
    }
    // the signers plus a key whose declared scheme is unknown (nobody can have signed for it)
    {
        let mut e: Vec<(String, usize)> = signers.iter().map(|i| own(*i)).collect();
        e.push((id_str(&pub_of(70)), 70));
        v.push(KeyMap { name: "signers+key-with-unknown-scheme".into(), entries: e });
        v.push(KeyMap { name: "key-with-unknown-scheme-only".into(), entries: vec![(id_str(&pub_of(70)), 70)] });
    }
    // one key in two guises (same material, two intrinsic ids), next to the other signers
    for g in signers.iter().copied().filter(|s| *s < 3) {
        let gid = id_str(&guise(g).unwrap());
        let mut e: Vec<(String, usize)> = signers.iter().map(|i| own(*i)).collect();
        e.push((gid.clone(), 80 + g));
        v.push(KeyMap { name: format!("signers+other-guise-of-{g}"), entries: e });
        v.push(KeyMap { name: format!("other-guise-of-{g}-only"), entries: vec![(gid, 80 + g)] });
    }
    v
}

fn to_map(km: &KeyMap) -> HashMap<KeyId, PublicKey> {
    km.entries.iter().map(|(l, i)| (KeyId::from_str(l).unwrap(), pub_of(*i))).collect()
}

// ------------------------------------------------------------- the check

struct Signed {
    signers: Vec<usize>,
    block: Value,
    genuine: HashMap<String, String>,
    original: Metablock,
}

fn sign_base(b: &Base, signers: &[usize]) -> Signed {
    let ks: Vec<&Key> = signers.iter().map(|i| owners()[*i]).collect();
    let mb = world::sign_layout(b.layout.clone(), &ks);
    let block = world::block_value(&mb);
    let genuine = block["signatures"].as_array().unwrap().iter().map(|e| (e["keyid"].as_str().unwrap().to_string(), e["sig"].as_str().unwrap().to_string())).collect();
    Signed { signers: signers.to_vec(), block, genuine, original: mb }
}

fn state_json(base: &str, s: &Signed, km: &KeyMap, hist: &[&str], corr: &str, cidx: usize, bit: Option<usize>) -> Value {
    json!({
        "base": base,
        "signers": s.signers,
        "caller_keys": km.entries.iter().map(|(l, i)| json!({"label": l, "key": if *i == 9 { "X(unrelated)".to_string() } else if *i == 70 { "U(unrelated RSA key declared with an unknown scheme)".to_string() } else if *i >= 80 { format!("{} rebuilt from its raw public key (no hash-algorithm list: another key id)", OWNER_NAMES[*i - 80]) } else { OWNER_NAMES[*i].to_string() }, "key_index": i})).collect::<Vec<_>>(),
        "caller_keys_name": km.name,
        "mutations": hist,
        "corruption": corr,
        "corrupt_index": cidx,
        "bit": bit,
    })
}

/// Execute one state and judge it.
#[allow(clippy::too_many_arguments)]
fn exec(acc: &mut Acc, base: &Base, s: &Signed, km: &KeyMap, hist: &[&str], corr: &str, cidx: usize, bit: Option<usize>, reference_summary: &Option<Value>) -> Option<bool> {
    let mut block = s.block.clone();
    let original_signed = s.block["signed"].clone();
    for m in hist {
        if !mutate(&mut block["signed"], &original_signed, m) {
            return None;
        }
    }
    if corr != "none" && !corrupt(&mut block, cidx, corr, bit) {
        return None;
    }
    acc.evaluations += 1;
    acc.traces += 1;
    let parsed = match world::block_from_value(&block) {
        Ok(p) => p,
        Err(_) => {
            acc.outcome("unparseable-after-mutation");
            return Some(false);
        }
    };
    let identity = same_content(&parsed.metadata, &s.original.metadata);
    // a single leaf edit is judged by the reference table, not by the library's own reader
    let identity = match hist {
        [one] if one.starts_with("edit:") => {
            let by_table = crate::tamper::keeps_layout_content(&one[5..], identity);
            if identity && !by_table {
                acc.note("edited-layout-reads-back-as-the-signed-one(lossy reader)");
            }
            by_table
        }
        _ => identity,
    };
    let valid = valid_signers(&block, &s.genuine);
    // reference condition
    // distinct keys: distinct intrinsic ids AND distinct key material (one key may have two ids)
    let ids: Vec<String> = km.entries.iter().map(|(_, i)| id_str(&pub_of(*i))).collect();
    let mats: Vec<Vec<u8>> = km.entries.iter().map(|(_, i)| pub_of(*i).as_bytes().to_vec()).collect();
    let distinct = ids.iter().collect::<HashSet<_>>().len() == ids.len() && mats.iter().collect::<HashSet<_>>().len() == mats.len();
    let guise_entry_valid = |g: usize| -> bool {
        // the guise has a valid signature iff an entry under its id carries the owner's genuine value
        let gid = id_str(&pub_of(g));
        let own = key_of(g - 80).id();
        // (for the RSA guise any entry under its id is taken as possibly valid: allowed only errs towards silence)
        block["signatures"].as_array().map(|a| a.iter().any(|e| e["keyid"].as_str() == Some(gid.as_str()) && e["sig"].as_str().is_some() && (g == 82 || e["sig"].as_str() == s.genuine.get(&own).map(|x| x.as_str())))).unwrap_or(false)
    };
    let all_valid = km.entries.iter().all(|(_, i)| *i != 9 && *i != 70 && if *i >= 80 { guise_entry_valid(*i) } else { valid.contains(i) });
    let allowed = !km.entries.is_empty() && distinct && all_valid && identity;
    // the verdict must not depend on the requested summary name (public parameter)
    let v = world::verify(&parsed, to_map(km), &base.dir);
    let v_named = world::verify_named(&parsed, to_map(km), &base.dir, Some("final-product"));
    if v.is_ok() != v_named.is_ok() {
        let why = if v_named.is_ok() && !allowed { "accepted-with-requested-name" } else { "verdict-depends-on-requested-name" };
        if v_named.is_ok() && !allowed {
            acc.violation(&format!("accepted:{why}"), "verification with a requested summary name succeeded although the statement's condition fails", || state_json(base.name, s, km, hist, corr, cidx, bit));
        } else {
            acc.note(why);
        }
    }
    acc.outcome(&format!("{}|{}", v.tag(), if allowed { "allowed" } else { "forbidden" }));
    let witness = || state_json(base.name, s, km, hist, corr, cidx, bit);
    match &v {
        Verdict::Panic(l, m) => acc.violation(&format!("panic:{l}"), &format!("verification panicked at {l}: {m}"), witness),
        Verdict::Ok(summary) => {
            acc.accepting += 1;
            if !allowed {
                let why = if km.entries.is_empty() {
                    "empty-key-set".to_string()
                } else if !distinct {
                    "aliased-key-set".to_string()
                } else if !all_valid {
                    if corr != "none" {
                        format!("corrupted-signature:{corr}")
                    } else {
                        "key-without-valid-signature".to_string()
                    }
                } else {
                    format!("content-changed-after-signing:{}", hist.iter().filter(|m| !m.starts_with("restore")).map(|m| m.split('@').next().unwrap_or(m)).collect::<Vec<_>>().join(","))
                };
                acc.violation(&format!("accepted:{why}"), &format!("verification succeeded although the statement's condition fails ({why})"), witness);
            } else if let Some(r) = reference_summary {
                if r != summary {
                    acc.violation("summary-differs-from-signed-layout", "accepted, but the summary differs from the one the unmodified signed layout yields", witness);
                }
            }
        }
        Verdict::Err(_) => {
            if allowed {
                acc.note("rejected-although-allowed(one-directional: not judged)");
            }
        }
    }
    Some(v.is_ok())
}

/// Changes made to the signed layout *in memory* (the public fields of `Metablock` /
/// `LayoutMetadata`), which no file can express - above all a key table whose entries are filed
/// under other identifiers than their own.
const MEMORY_EDITS: [&str; 9] = ["keys:swap-two-entries", "keys:first-entry-under-zeros", "keys:first-entry-also-under-zeros", "keys:first-entry-under-upper-case-id", "readme", "steps[0].threshold+1", "steps[0].pubkeys+X", "steps:reversed", "expires+1s"];

fn memory_edit(l: &mut LayoutMetadata, e: &str) -> bool {
    let mut ids: Vec<KeyId> = l.keys.keys().cloned().collect();
    ids.sort();
    match e {
        "keys:swap-two-entries" => {
            if ids.len() < 2 {
                return false;
            }
            let (a, b) = (l.keys.remove(&ids[0]).unwrap(), l.keys.remove(&ids[1]).unwrap());
            l.keys.insert(ids[0].clone(), b);
            l.keys.insert(ids[1].clone(), a);
        }
        "keys:first-entry-under-zeros" | "keys:first-entry-also-under-zeros" | "keys:first-entry-under-upper-case-id" => {
            let Some(first) = ids.first() else { return false };
            let k = if e == "keys:first-entry-also-under-zeros" { l.keys.get(first).cloned().unwrap() } else { l.keys.remove(first).unwrap() };
            let label = if e.ends_with("upper-case-id") { serde_json::to_value(first).unwrap().as_str().unwrap().to_uppercase() } else { "0".repeat(64) };
            l.keys.insert(KeyId::from_str(&label).unwrap(), k);
        }
        "readme" => l.readme.push('!'),
        "steps[0].threshold+1" => {
            let Some(s0) = l.steps.first_mut() else { return false };
            s0.threshold += 1;
        }
        "steps[0].pubkeys+X" => {
            let Some(s0) = l.steps.first_mut() else { return false };
            s0.pub_keys.push(keys::get("ed5").private.key_id().clone());
        }
        "steps:reversed" => {
            if l.steps.len() < 2 {
                return false;
            }
            l.steps.reverse();
        }
        "expires+1s" => l.expires += chrono::Duration::seconds(1),
        _ => return false,
    }
    true
}

/// Every in-memory edit of every base layout signed by O1 (and by O1+O3): the owner's signature
/// must stop verifying, both for `Metablock::verify` and for `in_toto_verify`.
fn memory_leg(acc: &mut Acc, bases: &[Base]) {
    for base in bases {
        for signers in [vec![0usize], vec![0, 2]] {
            let s = sign_base(base, &signers);
            let km = KeyMap { name: "exact".into(), entries: signers.iter().map(|i| (key_of(*i).id(), *i)).collect() };
            for e in MEMORY_EDITS {
                let mut mb = s.original.clone();
                let MetadataWrapper::Layout(ref mut l) = mb.metadata else { continue };
                if !memory_edit(l, e) {
                    continue;
                }
                if mb.metadata == s.original.metadata {
                    continue;
                }
                acc.evaluations += 1;
                acc.states += 1;
                acc.transitions += 1;
                acc.nontrivial += 1;
                let witness = || json!({"kind": "in-memory-edit", "base": base.name, "signers": signers, "edit": e});
                let pubs: Vec<PublicKey> = signers.iter().map(|i| pub_of(*i)).collect();
                let block_level = crate::util::guard(|| mb.verify(pubs.len() as u32, pubs.iter()).is_ok());
                let end_to_end = world::verify(&mb, to_map(&km), &base.dir);
                let accepted_block = matches!(block_level, crate::util::Guard::Done(true));
                acc.outcome(&format!("memory-edit|{}|{}", if accepted_block { "block-verifies" } else { "block-rejected" }, end_to_end.tag()));
                if accepted_block || end_to_end.is_ok() {
                    acc.violation(&format!("accepted:content-changed-in-memory:{e}"), &format!("a signed layout changed in memory ({e}) still verifies with the owner's signature ({})", if end_to_end.is_ok() { "in_toto_verify succeeds" } else { "Metablock::verify succeeds" }), witness);
                }
                if let Verdict::Panic(l, m) = &end_to_end {
                    acc.violation(&format!("panic:{l}"), m, witness);
                }
            }
        }
    }
}

pub fn run(tier: Tier) -> i32 {
    let mut c = Check::new("C01", "model_checking", tier);
    let scratch_cwd = util::fresh_dir("c01-cwd");
    std::env::set_current_dir(&scratch_cwd).ok();
    let bases = bases();
    let depth = if tier.thorough() { 3 } else { 2 };
    // jobs: (base index, signer mask)
    let jobs: Vec<(usize, u32)> = (0..bases.len()).flat_map(|b| (0u32..16).map(move |m| (b, m))).collect();
    let accs = util::par_fold(&jobs, Acc::new, |acc, _i, (bi, mask)| {
        let base = &bases[*bi];
        let signers: Vec<usize> = (0..4).filter(|i| mask & (1 << i) != 0).collect();
        let s = sign_base(base, &signers);
        let kms = keymaps(&signers);
        // reference summary: the unmodified layout with exactly its signers
        let exact = KeyMap { name: "exact".into(), entries: signers.iter().map(|i| (key_of(*i).id(), *i)).collect() };
        let reference_summary = if signers.is_empty() {
            None
        } else {
            match world::verify(&s.original, to_map(&exact), &base.dir) {
                Verdict::Ok(v) => Some(v),
                other => {
                    acc.violation("baseline-rejected", "the unmodified layout signed by all supplied keys is rejected (machinery or library problem)", || json!({"base": base.name, "signers": signers, "verdict": other.to_json()}));
                    None
                }
            }
        };
        acc.states += 1;
        // depth 0: every caller key map
        for km in &kms {
            acc.states += 1;
            acc.transitions += 1;
            if km.name != "exact" {
                acc.nontrivial += 1;
            }
            exec(acc, base, &s, km, &[], "none", 0, None, &reference_summary);
            // signature corruptions on each entry
            for (ci, _) in signers.iter().enumerate() {
                for corr in CORRUPTIONS {
                    acc.states += 1;
                    acc.transitions += 1;
                    acc.nontrivial += 1;
                    exec(acc, base, &s, km, &[], corr, ci, None, &reference_summary);
                }
            }
        }
        // mutation histories (BFS by depth), against the key maps that could accept
        let kms_m: Vec<&KeyMap> = kms.iter().filter(|k| k.name.starts_with("subset") || k.name == "key-filed-under-foreign-id").collect();
        for m1 in MUTATIONS {
            for km in &kms_m {
                acc.transitions += 1;
                if exec(acc, base, &s, km, &[m1], "none", 0, None, &reference_summary).is_some() {
                    acc.states += 1;
                    acc.nontrivial += 1;
                }
            }
            if depth >= 2 {
                // deeper histories only with the exact key map (last subset = all signers)
                if let Some(km) = kms_m.iter().rev().find(|k| k.name.starts_with("subset")) {
                    for m2 in MUTATIONS {
                        acc.transitions += 1;
                        if exec(acc, base, &s, km, &[m1, m2], "none", 0, None, &reference_summary).is_some() {
                            acc.states += 1;
                            acc.nontrivial += 1;
                        }
                        if depth >= 3 && *mask == 1 {
                            for m3 in MUTATIONS {
                                acc.transitions += 1;
                                if exec(acc, base, &s, km, &[m1, m2, m3], "none", 0, None, &reference_summary).is_some() {
                                    acc.states += 1;
                                    acc.nontrivial += 1;
                                }
                            }
                        }
                    }
                }
            }
        }
        // leaf-edit sweep: every leaf of the signed part x every small edit (re-spelled strings,
        // wrapped numbers, null <-> empty, member removed), one at a time
        // (single Ed25519 signer and the three-signer set, exact key map)
        if *mask == 1 || *mask == 7 {
            if let Some(km) = kms_m.iter().rev().find(|k| k.name.starts_with("subset")) {
                for e in crate::tamper::edits(&s.block["signed"]) {
                    let name = format!("edit:{e}");
                    acc.transitions += 1;
                    if exec(acc, base, &s, km, &[name.as_str()], "none", 0, None, &reference_summary).is_some() {
                        acc.states += 1;
                        acc.nontrivial += 1;
                        acc.note_n("leaf_edits", 1);
                    }
                }
            }
        }
        if *bi == 1 && *mask == 5 {
            acc.sample(|| state_json(base.name, &s, &kms[1], &["step0.threshold-1"], "none", 0, None));
            acc.sample(|| state_json(base.name, &s, &kms[2], &[], "flip-bit-mid", 0, None));
        }
    });
    let mut acc = Acc::merge_all(accs);
    memory_leg(&mut acc, &bases);
    // every single bit of every signature (Ed25519 always; all schemes in thorough)
    let bit_jobs: Vec<(usize, usize)> = {
        let mut v = vec![];
        let which: &[usize] = if tier.thorough() { &[0, 1, 2, 3] } else { &[0] };
        for &o in which {
            let nbits = sign_base(&bases[1], &[o]).genuine.values().next().unwrap().len() * 4;
            for bit in 0..nbits {
                v.push((o, bit));
            }
        }
        v
    };
    let signed_single: Vec<Signed> = (0..4).map(|o| sign_base(&bases[1], &[o])).collect();
    let accs = util::par_fold(&bit_jobs, Acc::new, |acc, _i, (o, bit)| {
        let s = &signed_single[*o];
        let km = KeyMap { name: "exact".into(), entries: vec![(key_of(*o).id(), *o)] };
        acc.states += 1;
        acc.transitions += 1;
        acc.nontrivial += 1;
        exec(acc, &bases[1], s, &km, &[], "flip-bit", 0, Some(*bit), &None);
    });
    acc.merge(Acc::merge_all(accs));
    acc.note_n("bit_flip_cases", bit_jobs.len() as u64);
    let _ = std::env::set_current_dir("/");
    c.acc = acc;
    c.rule = format!(
        "state = (base layout in {{no steps, one step with rules, two steps with MATCH+prefix, threshold 2 with RSA key in table, one step and one inspection, one step whose names and rule patterns carry separators, mixed case and a non-ASCII letter}} (each directory also holds the evidence the mutated layouts ask for), signer subset of 4 owners of 4 key types, caller key map, mutation history of length <= {depth} over {} mutations incl. inverses, signature corruption); every state is one in_toto_verify run; non-trivial = anything but the exact key map on the untouched block",
        MUTATIONS.len()
    );
    c.bound_completed = format!("all 16 signer subsets x all caller key maps x 10 corruptions per signature entry; mutation depth {depth} ({}); every leaf of the signed part x {} small edits (strings re-spelled: separators, case, added blanks/NUL/slashes, decomposed letter; integers +-1, negated, +2^8..+2^63; null <-> empty; booleans; member removed) for the one- and three-signer sets; {} in-memory edits of each base layout (key-table entries swapped / re-filed under another identifier, fields changed through the public API) for two signer sets, judged by Metablock::verify and in_toto_verify; every single bit of {} signature(s)", if depth == 3 { "depth 1 with every accepting-capable key map, depth 2 with the exact key map for all signer sets, depth 3 for the single-Ed25519-signer set" } else { "depth 1 with every accepting-capable key map, depth 2 with the exact key map" }, crate::tamper::RESPELLINGS.len() + crate::tamper::NUMBER_EDITS.len() + crate::tamper::SHAPE_EDITS.len(), MEMORY_EDITS.len(), if tier.thorough() { "all four schemes'" } else { "the Ed25519" });
    c.assume("ring's verification is a trusted black box; fixed keys");
    c.assume("'content enforced equals content signed' is decided on the parsed value (expiry to the second)");
    c.finish()
}

pub fn replay(case: &Value) -> Value {
    if case["kind"] == "in-memory-edit" {
        let mut acc = Acc::new();
        memory_leg(&mut acc, &bases());
        let hit = acc.violations.values().find(|v| v.witness["edit"] == case["edit"] && v.witness["base"] == case["base"]).map(|v| v.key.clone());
        return json!({"note": "the in-memory leg is re-run as a whole", "violation": hit.or_else(|| acc.violations.keys().next().cloned())});
    }
    let bs = bases();
    let Some(base) = bs.iter().find(|b| Some(b.name) == case["base"].as_str()) else {
        return json!({"error": "unknown base", "violation": null});
    };
    let signers: Vec<usize> = case["signers"].as_array().map(|a| a.iter().filter_map(|x| x.as_u64().map(|x| x as usize)).collect()).unwrap_or_default();
    let s = sign_base(base, &signers);
    let km = KeyMap {
        name: case["caller_keys_name"].as_str().unwrap_or("").to_string(),
        entries: case["caller_keys"].as_array().map(|a| a.iter().map(|e| (e["label"].as_str().unwrap_or("").to_string(), e["key_index"].as_u64().unwrap_or(9) as usize)).collect()).unwrap_or_default(),
    };
    let hist_owned: Vec<String> = case["mutations"].as_array().map(|a| a.iter().filter_map(|x| x.as_str().map(String::from)).collect()).unwrap_or_default();
    let hist: Vec<&str> = hist_owned.iter().map(|s| s.as_str()).collect();
    let corr = case["corruption"].as_str().unwrap_or("none");
    let corr = if corr == "flip-bit" { "flip-bit" } else { CORRUPTIONS.iter().find(|c| **c == corr).copied().unwrap_or("none") };
    let mut acc = Acc::new();
    let scratch_cwd = util::fresh_dir("c01-cwd");
    std::env::set_current_dir(&scratch_cwd).ok();
    let r = exec(&mut acc, base, &s, &km, &hist, corr, case["corrupt_index"].as_u64().unwrap_or(0) as usize, case["bit"].as_u64().map(|b| b as usize), &None);
    let _ = std::env::set_current_dir("/");
    json!({"accepted": r, "violation": acc.violations.keys().next()})
}

#[allow(dead_code)]
fn _p(_: &Path) {}
