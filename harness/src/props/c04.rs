//! C04 — signature thresholds count distinct authorized keys with valid signatures.
//!
//! E1 over signature-list histories: a state is (authorised-key sequence,
//! threshold, signature list); a transition appends one entry of the alphabet.
//! The reference automaton's state is the set of authorised keys that have a
//! valid entry so far. Every state is executed on the real `Metablock::verify`
//! under every iteration order of its internal signature map (hook site F).

use std::collections::BTreeSet;

use in_toto::crypto::{PublicKey, Signature};
use in_toto::models::{Metablock, MetadataWrapper};
use in_toto::verif_hooks::{self, Driver};
use serde_json::{json, Value};

use crate::keys::{self, Key};
use crate::report::{Acc, Check, Tier};
use crate::util::{self, guard, Guard};
use crate::world;

/// Entry alphabet of the standard families. A, B, C are the three keys of the family.
pub const ENTRIES: [&str; 12] = ["vA", "vB", "vC", "iA", "mAB", "rA", "eA", "uA", "uB", "sA", "pA", "cA"];

/// Randomized schemes have signature *classes*: an ECDSA signature whose DER encoding is shorter
/// than 70 bytes (r or s with a leading zero byte, about 1 in 250), an RSA-PSS value with a leading
/// zero byte (1 in 256). Searched (sign until seen), not enumerated.
fn unusual_signature(k: &Key, meta: &MetadataWrapper) -> Option<Signature> {
    for _ in 0..8000 {
        let s = world::sign(meta.clone(), &[k]).signatures[0].clone();
        let h = sig_hex(&s);
        let unusual = if k.kind == "ecdsa" { h.len() / 2 < 70 } else if k.kind.starts_with("rsa") { h.starts_with("00") } else { return None };
        if unusual {
            return Some(s);
        }
    }
    None
}
/// Entries that only occur in lists of length <= 3 in the quick tier.
const LATE: usize = 7;

pub struct Entry {
    pub name: String,
    pub sig: Signature,
    /// index of the family key whose id the entry carries; >= 100: an id no key has
    pub label: usize,
    /// the value is a valid signature, over this block, by the key the entry is labelled with
    pub valid: bool,
}

pub struct Family {
    pub name: &'static str,
    pub keys: Vec<PublicKey>,
    pub key_names: Vec<&'static str>,
    /// key material behind each key: two keys with the same material are ONE key that was
    /// loaded twice (other hash-algorithm list, other declared scheme) and so has two ids
    pub mats: Vec<usize>,
    pub meta: MetadataWrapper,
    pub entries: Vec<Entry>,
}

fn sig_json(keyid: &str, sig_hex: &str) -> Signature {
    serde_json::from_value(json!({"keyid": keyid, "sig": sig_hex})).expect("signature entry")
}

fn sig_hex(s: &Signature) -> String {
    serde_json::to_value(s).unwrap()["sig"].as_str().unwrap().to_string()
}

fn the_meta() -> MetadataWrapper {
    MetadataWrapper::Link(world::link("step", world::arts(&[("m", 1)]), world::arts(&[("p", 2)])))
}

pub fn family(name: &'static str, names: [&str; 3]) -> Family {
    let ks = [keys::get(names[0]), keys::get(names[1]), keys::get(names[2])];
    let meta = the_meta();
    let sign = |k: &Key| -> Signature { world::sign(meta.clone(), &[k]).signatures[0].clone() };
    let (va, vb, vc) = (sign(ks[0]), sign(ks[1]), sign(ks[2]));
    // a second signature by A (different bytes for randomized schemes; of an unusual class if one is found)
    let ra = unusual_signature(ks[0], &meta).unwrap_or_else(|| sign(ks[0]));
    let a_id = ks[0].id();
    let garbage = "00".repeat(sig_hex(&va).len() / 2);
    // a well-formed signature by A over other content (a stale signature)
    let other = MetadataWrapper::Link(world::link("step", world::arts(&[("m", 1)]), world::arts(&[("p", 3)])));
    let stale = world::sign(other, &[ks[0]]).signatures[0].clone();
    let e = |n: &str, sig: Signature, label: usize, valid: bool| Entry { name: n.to_string(), sig, label, valid };
    let entries = vec![
        e("vA", va.clone(), 0, true),
        e("vB", vb.clone(), 1, true),
        e("vC", vc, 2, true),
        e("iA", sig_json(&a_id, &garbage), 0, false),
        e("mAB", sig_json(&a_id, &sig_hex(&vb)), 0, false),
        e("rA", ra, 0, true),
        e("eA", sig_json(&a_id, ""), 0, false),
        // valid signatures by A and by B, labelled with key ids nobody has
        e("uA", sig_json(&"f".repeat(64), &sig_hex(&va)), 100, false),
        e("uB", sig_json(&"e".repeat(64), &sig_hex(&vb)), 101, false),
        e("sA", sig_json(&a_id, &sig_hex(&stale)), 0, false),
        // A's valid signature under ids that resemble A's: same first 8 characters; upper case
        e("pA", sig_json(&format!("{}{}", &a_id[..8], "0".repeat(56)), &sig_hex(&va)), 102, false),
        e("cA", sig_json(&a_id.to_uppercase(), &sig_hex(&va)), 103, false),
    ];
    assert_eq!(entries.iter().map(|x| x.name.as_str()).collect::<Vec<_>>(), ENTRIES.to_vec());
    Family { name, keys: ks.iter().map(|k| k.public().clone()).collect(), key_names: vec!["A", "B", "C"], mats: vec![0, 1, 2], meta, entries }
}

/// One key loaded twice. Ed25519: `A` from PKCS#8 (hash-algorithm list [sha256, sha512]) and `A2`
/// from the raw key pair (no list) - two ids, one key. RSA: one modulus declared PSS-SHA256 (`A`)
/// and PSS-SHA512 (`A2`). `B` is an unrelated key.
pub fn guise_family(name: &'static str) -> Family {
    let meta = the_meta();
    let sign = |k: &in_toto::crypto::PrivateKey| -> Signature { Metablock::new(meta.clone(), &[k]).expect("sign").signatures[0].clone() };
    let id_of = |k: &PublicKey| -> String { serde_json::to_value(k.key_id()).unwrap().as_str().unwrap().to_string() };
    let e = |n: &str, sig: Signature, label: usize, valid: bool| Entry { name: n.to_string(), sig, label, valid };
    let (a, a2, b): (&in_toto::crypto::PrivateKey, in_toto::crypto::PrivateKey, &in_toto::crypto::PrivateKey) = if name == "guise-ed25519" {
        (&keys::get("ed1").private, in_toto::crypto::PrivateKey::from_ed25519(keys::ED1_KEYPAIR).expect("ed1 key pair"), &keys::get("ed2").private)
    } else {
        (&keys::get("rsa256a").private, in_toto::crypto::PrivateKey::from_pkcs8(keys::RSA_PK8[0], in_toto::crypto::SignatureScheme::RsaSsaPssSha512).expect("rsa"), &keys::get("rsa256b").private)
    };
    let (ia, ia2) = (id_of(a.public()), id_of(a2.public()));
    if ia == ia2 || a.public().as_bytes() != a2.public().as_bytes() {
        util::machinery_error("C04: the two guises of one key must have one material and two ids");
    }
    let (va, va2, vb) = (sign(a), sign(&a2), sign(b));
    let same_scheme = name == "guise-ed25519";
    let entries = vec![
        e("vA", va.clone(), 0, true),
        e("vA2", va2.clone(), 1, true),
        e("vB", vb.clone(), 2, true),
        // A's signature value under A2's id and the reverse: the same key made it, so it is valid
        // whenever both guises use one scheme, and invalid when the declared schemes differ
        e("vA@A2", sig_json(&ia2, &sig_hex(&va)), 1, same_scheme),
        e("vA2@A", sig_json(&ia, &sig_hex(&va2)), 0, same_scheme),
        e("vB@A2", sig_json(&ia2, &sig_hex(&vb)), 1, false),
    ];
    Family { name, keys: vec![a.public().clone(), a2.public().clone(), b.public().clone()], key_names: vec!["A", "A2", "B"], mats: vec![0, 0, 2], meta, entries }
}

/// Keys whose declared scheme cannot verify anything: A's Ed25519 material declared RSA-PSS (M),
/// ECDSA material declared with an unknown scheme (U). A signature attributed to them never counts,
/// whatever its bytes are; A itself (well declared) is in the family for comparison.
pub fn odd_scheme_family() -> Family {
    use in_toto::crypto::SignatureScheme;
    let meta = the_meta();
    let a = keys::get("ed1");
    let ec = keys::get("ec1");
    let va = world::sign(meta.clone(), &[a]).signatures[0].clone();
    let vec_ = world::sign(meta.clone(), &[ec]).signatures[0].clone();
    let m = PublicKey::from_spki(keys::ED_SPKI_RFC8410[0], SignatureScheme::RsaSsaPssSha256).expect("ed25519 material declared rsa-pss");
    let u = PublicKey::from_ecdsa_with_keyid_hash_algorithm(ec.public().as_bytes().to_vec(), SignatureScheme::Unknown("ecdsa-sha2-nistp384".into()), None).expect("ecdsa material with an unknown scheme");
    let id_of = |k: &PublicKey| -> String { serde_json::to_value(k.key_id()).unwrap().as_str().unwrap().to_string() };
    let e = |n: &str, sig: Signature, label: usize, valid: bool| Entry { name: n.to_string(), sig, label, valid };
    let entries = vec![
        e("vA", va.clone(), 0, true),
        e("vA@M", sig_json(&id_of(&m), &sig_hex(&va)), 1, false),
        e("vEC@U", sig_json(&id_of(&u), &sig_hex(&vec_)), 2, false),
        e("empty@M", sig_json(&id_of(&m), ""), 1, false),
        e("zeros@U", sig_json(&id_of(&u), &"00".repeat(70)), 2, false),
    ];
    Family { name: "odd-schemes", keys: vec![a.public().clone(), m, u], key_names: vec!["A", "M", "U"], mats: vec![0, 10, 11], meta, entries }
}

/// Reference: the set of distinct keys (by material) that are authorised and have a valid
/// entry in the list.
fn counting(f: &Family, list: &[usize], auth: &[usize]) -> BTreeSet<usize> {
    list.iter()
        .map(|e| &f.entries[*e])
        .filter(|e| e.valid && auth.contains(&e.label))
        .map(|e| f.mats[e.label])
        .collect()
}

/// "Each key signs at most once": no key id twice in the list, and no key (material) behind two ids.
fn each_key_at_most_once(f: &Family, list: &[usize]) -> bool {
    let ids: Vec<usize> = list.iter().map(|e| f.entries[*e].label).collect();
    let set: BTreeSet<usize> = ids.iter().copied().collect();
    let mats: BTreeSet<usize> = ids.iter().map(|l| if *l < 100 { f.mats[*l] } else { *l }).collect();
    set.len() == ids.len() && mats.len() == ids.len()
}

pub const THRESHOLDS: [u32; 5] = [0, 1, 2, 3, u32::MAX];

#[derive(Debug, Clone, PartialEq)]
enum Res {
    Ok(bool), // returned content equals the block's content
    Err,
    Panic(String),
}

fn run_verify(f: &Family, list: &[usize], auth: &[usize], t: u32, perm: usize) -> (Res, usize) {
    let block = Metablock { signatures: list.iter().map(|e| f.entries[*e].sig.clone()).collect(), metadata: f.meta.clone() };
    let auth_keys: Vec<&PublicKey> = auth.iter().map(|i| &f.keys[*i]).collect();
    verif_hooks::install(Driver { permute: true, script: vec![perm], ..Driver::default() });
    let r = guard(|| block.verify(t, auth_keys));
    let drv = verif_hooks::uninstall().unwrap_or_default();
    if drv.diverged {
        util::machinery_error("C04: permutation index out of range at site F");
    }
    let n = drv.trace.first().map(|p| p.n).unwrap_or(1);
    let res = match r {
        Guard::Done(Ok(m)) => Res::Ok(m == f.meta),
        Guard::Done(Err(_)) => Res::Err,
        Guard::Panicked(l, _) => Res::Panic(l),
    };
    (res, n)
}

fn fact(n: usize) -> usize {
    (1..=n).product::<usize>().max(1)
}

fn case_json(f: &Family, list: &[usize], auth: &[usize], t: u32) -> Value {
    json!({
        "family": f.name,
        "signatures": list.iter().map(|e| f.entries[*e].name.clone()).collect::<Vec<_>>(),
        "authorized": auth.iter().map(|i| f.key_names[*i]).collect::<Vec<_>>(),
        "threshold": t,
    })
}

fn reason(f: &Family, list: &[usize], auth: &[usize]) -> String {
    let mut r = BTreeSet::new();
    let mut seen_valid = BTreeSet::new();
    let mut seen_mats = BTreeSet::new();
    for e in list {
        let en = &f.entries[*e];
        let (k, valid) = (en.label, en.valid);
        if k >= 100 {
            r.insert(match en.name.as_str() {
                "pA" => "signature-under-id-sharing-a-prefix",
                "cA" => "signature-under-upper-case-id",
                _ => "signature-under-unknown-key-id",
            });
        } else if !auth.contains(&k) {
            r.insert("unauthorized-key");
        } else if !valid {
            r.insert(match en.name.as_str() {
                "mAB" | "vB@A2" => "mislabeled-signature",
                "eA" => "empty-signature",
                "sA" => "signature-over-other-content",
                "vA@A2" | "vA2@A" => "signature-made-under-the-other-scheme",
                _ => "invalid-signature",
            });
        } else if !seen_valid.insert(k) {
            r.insert("repeated-signature-by-one-key");
        } else if !seen_mats.insert(f.mats[k]) {
            r.insert("one-key-under-two-ids");
        }
    }
    let auth_set: BTreeSet<usize> = auth.iter().copied().collect();
    if auth_set.len() < auth.len() {
        r.insert("duplicate-authorized-key");
    }
    if r.is_empty() {
        "too-few-signatures".into()
    } else {
        r.into_iter().collect::<Vec<_>>().join("+")
    }
}

fn check_case(acc: &mut Acc, f: &Family, list: &[usize], auth: &[usize], t: u32) {
    let count = counting(f, list, auth).len() as u64;
    let must_reject = t < 1 || count < t as u64;
    let must_accept = !must_reject && each_key_at_most_once(f, list);
    let mut outcomes = BTreeSet::new();
    let mut perm = 0;
    loop {
        let (res, n) = run_verify(f, list, auth, t, perm);
        acc.evaluations += 1;
        acc.traces += 1;
        outcomes.insert(format!("{res:?}"));
        match &res {
            Res::Panic(l) => acc.violation(&format!("panic:{l}"), &format!("Metablock::verify panicked at {l}"), || case_json(f, list, auth, t)),
            Res::Ok(same) => {
                acc.accepting += 1;
                if must_reject {
                    // shrink: drop entries while still accepted and still must-reject
                    let mut small = list.to_vec();
                    let mut i = 0;
                    while i < small.len() {
                        let mut cand = small.clone();
                        cand.remove(i);
                        let c2 = counting(f, &cand, auth).len() as u64;
                        let rej = t < 1 || c2 < t as u64;
                        if rej && matches!(run_verify(f, &cand, auth, t, 0).0, Res::Ok(_)) {
                            small = cand;
                        } else {
                            i += 1;
                        }
                    }
                    let key = if t < 1 {
                        "accepted:threshold-zero".to_string()
                    } else {
                        format!("accepted:count-below-threshold:{}", reason(f, &small, auth))
                    };
                    acc.violation(&key, &format!("verify succeeded with threshold {t} although only {count} distinct authorised keys have a valid signature ({key})"), || case_json(f, &small, auth, t));
                }
                if !same {
                    acc.violation("returned-content-differs", "verify returned metadata different from the block's content", || case_json(f, list, auth, t));
                }
            }
            Res::Err => {
                if must_accept {
                    acc.violation(
                        "rejected:enough-distinct-valid-signatures",
                        &format!("verify failed although each key signs at most once and {count} >= {t} distinct authorised keys have valid signatures"),
                        || {
                            let mut j = case_json(f, list, auth, t);
                            j["permutation"] = json!(perm);
                            j
                        },
                    );
                }
            }
        }
        perm += 1;
        if perm >= fact(n).min(24) {
            break;
        }
    }
    acc.outcome(&format!("{}{}", if must_reject { "reject" } else { "accept" }, if outcomes.len() > 1 { "/order-dependent" } else { "" }));
    if outcomes.len() > 1 {
        // order dependence is only a violation of this property when a bound is crossed
        // (those are reported above); record it for the evidence
        acc.note("order-dependent-outcome");
        if must_accept || must_reject {
            acc.violation("order-dependent", "the result of verify depends on the iteration order of its internal signature map", || case_json(f, list, auth, t));
        }
    }
}

fn auth_sequences(max: usize) -> Vec<Vec<usize>> {
    let mut v = vec![];
    for len in 0..=max {
        v.extend(util::sequences(3, len));
    }
    v
}

fn lists(n_entries: usize, max: usize) -> Vec<Vec<usize>> {
    let mut v = vec![];
    for len in 0..=max {
        v.extend(util::sequences(n_entries, len));
    }
    v
}

fn family_by_name(name: &str) -> Family {
    match name {
        "ecdsa-p256" => family("ecdsa-p256", ["ec1", "ec2", "ec3"]),
        "rsa-pss-sha256" => family("rsa-pss-sha256", ["rsa256a", "rsa256b", "rsa256c"]),
        "rsa-pss-sha512" => family("rsa-pss-sha512", ["rsa512a", "rsa256b", "rsa512c"]),
        "mixed" => family("mixed", ["ed1", "ec1", "rsa256a"]),
        "guise-ed25519" => guise_family("guise-ed25519"),
        "guise-rsa" => guise_family("guise-rsa"),
        "odd-schemes" => odd_scheme_family(),
        _ => family("ed25519", ["ed1", "ed2", "ed3"]),
    }
}

/// Near twins: for every leaf of a block's signed part and every small edit that yields another
/// readable block, A's genuine signature over the *edited* block is attached to the original one
/// (and the other way round). It is a signature by an authorised key, but not over this block's
/// content: it must not count.
fn twin_leg(acc: &mut Acc) {
    let a = keys::get("ed1");
    let mut metas: Vec<(String, MetadataWrapper)> = world::sample_links("step").into_iter().map(|(n, l)| (format!("link/{n}"), MetadataWrapper::Link(l))).collect();
    let lay = world::layout(
        vec![world::step("Build-it", 1, &[a]).add_expected_product(in_toto::models::rule::ArtifactRule::Create("out/p".into())).add_expected_product(in_toto::models::rule::ArtifactRule::Disallow("keys/secret.key".into()))],
        vec![in_toto::models::inspection::Inspection::new("check").run(vec!["true".to_string()].into())],
        &[a],
        world::far_future(),
    );
    metas.push(("layout".to_string(), MetadataWrapper::Layout(lay)));
    for (mname, meta) in &metas {
        let block = world::sign(meta.clone(), &[a]);
        let v0 = world::block_value(&block);
        let is_layout = matches!(meta, MetadataWrapper::Layout(_));
        for e in crate::tamper::edits(&v0["signed"]) {
            let mut v = v0.clone();
            if !crate::tamper::apply(&mut v["signed"], &e) {
                continue;
            }
            // the edited document must be readable and, for the library too, another value
            let Ok(twin) = world::block_from_value(&v) else { continue };
            if twin.metadata == *meta {
                continue;
            }
            let keeps = if is_layout { crate::tamper::keeps_layout_content(&e, false) } else { crate::tamper::keeps_link_content(&e, &v0["signed"]) };
            if keeps {
                continue;
            }
            let twin_sig = world::sign(twin.metadata.clone(), &[a]).signatures[0].clone();
            for (dir, content, sig) in [("signature over the edited block attached to the original", meta.clone(), twin_sig.clone()), ("signature over the original attached to the edited block", twin.metadata.clone(), block.signatures[0].clone())] {
                acc.evaluations += 1;
                acc.nontrivial += 1;
                acc.states += 1;
                let b = Metablock { signatures: vec![sig], metadata: content };
                let r = guard(|| b.verify(1, [a.public()]));
                let w = || json!({"kind": "near-twin", "block": mname, "edit": e, "direction": dir});
                match r {
                    Guard::Done(Ok(_)) => {
                        acc.outcome("twin-signature-counted");
                        acc.violation(&format!("counted:signature-over-near-twin:{}", crate::tamper::kind_of(&e)), &format!("{mname}: {dir} ({e}) met threshold 1: a signature over other content counted"), w);
                    }
                    Guard::Done(Err(_)) => acc.outcome("twin-signature-not-counted"),
                    Guard::Panicked(l, m) => acc.violation(&format!("panic:{l}"), &m, w),
                }
            }
        }
    }
}

/// Other renderings of the same content: an authorised key's genuine signature over the block's
/// content written in another way than the signing form (the JSON-escaped canonical form that older
/// versions signed, plain serde output compact and pretty, the signing form plus a line feed). Where
/// the rendering differs from the signing form - it does as soon as a string holds a control
/// character - it is a signature over other bytes and must not count.
fn renderings_leg(acc: &mut Acc) {
    let mut metas: Vec<(String, MetadataWrapper)> = world::sample_links("step").into_iter().map(|(n, l)| (format!("link/{n}"), MetadataWrapper::Link(l))).collect();
    let mut lay = world::layout(vec![world::step("s", 1, &[keys::get("ed1")])], vec![], &[keys::get("ed1")], world::far_future());
    lay.readme = "line one\nline two\ttabbed".into();
    metas.push(("layout/readme with control characters".to_string(), MetadataWrapper::Layout(lay)));
    {
        // strings that begin (and end) with the two characters the signing form escapes
        let mut l = world::link("step", world::arts(&[("\"m\"", 1)]), world::arts(&[("\\p\\", 2)]));
        l.env = Some([("\\\\server\\share".to_string(), "\"v\"".to_string())].into_iter().collect());
        l.byproducts = in_toto::models::byproducts::ByProducts::new().set_return_value(0).set_stdout("\"quoted\" first".to_string()).set_stderr("\\".to_string());
        l.command = vec!["\"".to_string(), "\\".to_string(), "a\"b\\c".to_string()].into();
        metas.push(("link/strings that begin with a quote or a backslash".to_string(), MetadataWrapper::Link(l)));
    }
    // the content's canonical form by the independent reference encoder: a signature over it is a
    // valid signature over the block's canonical content and must count
    for (mname, meta) in &metas {
        let Ok(reference) = serde_json::to_value(meta).map_err(|e| e.to_string()).and_then(|v| crate::olpc::encode(&v)) else { continue };
        for kname in ["ed1", "ec1", "rsa256a"] {
            let k = keys::get(kname);
            let Guard::Done(Ok(sig)) = guard(|| k.private.sign(&reference)) else { continue };
            acc.evaluations += 1;
            acc.nontrivial += 1;
            acc.states += 1;
            let b = Metablock { signatures: vec![sig], metadata: meta.clone() };
            let w = || json!({"kind": "other-rendering", "block": mname, "rendering": "reference canonical form", "key": kname});
            match guard(|| b.verify(1, [k.public()])) {
                Guard::Done(Ok(m)) if m == *meta => acc.outcome("reference-form-counted"),
                Guard::Done(Ok(_)) => acc.violation("returned-content-differs", "verify returned other content than the block's", w),
                Guard::Done(Err(_)) => {
                    acc.outcome("reference-form-not-counted");
                    acc.violation("rejected:signature-over-the-canonical-content", &format!("{mname}: a valid signature by {kname} over the block's canonical content (reference encoder) did not meet threshold 1"), w);
                }
                Guard::Panicked(l, m) => acc.violation(&format!("panic:{l}"), &m, w),
            }
        }
    }
    for (mname, meta) in &metas {
        let Ok(signable) = meta.to_signable_bytes() else { continue };
        let mut with_lf = signable.clone();
        with_lf.push(b'\n');
        let renderings: Vec<(&str, Option<Vec<u8>>)> = vec![
            ("JSON-escaped canonical form (to_bytes)", meta.to_bytes().ok()),
            ("serde_json compact", serde_json::to_vec(meta).ok()),
            ("serde_json pretty", serde_json::to_vec_pretty(meta).ok()),
            ("signing form plus a line feed", Some(with_lf)),
        ];
        for kname in ["ed1", "ec1", "rsa256a"] {
            let k = keys::get(kname);
            for (rname, bytes) in &renderings {
                let Some(bytes) = bytes else { continue };
                if *bytes == signable {
                    acc.note("rendering-equals-signing-form(not a case)");
                    continue;
                }
                let Guard::Done(Ok(sig)) = guard(|| k.private.sign(bytes)) else { continue };
                acc.evaluations += 1;
                acc.nontrivial += 1;
                acc.states += 1;
                let b = Metablock { signatures: vec![sig], metadata: meta.clone() };
                let w = || json!({"kind": "other-rendering", "block": mname, "rendering": rname, "key": kname});
                match guard(|| b.verify(1, [k.public()])) {
                    Guard::Done(Ok(_)) => {
                        acc.outcome("other-rendering-counted");
                        acc.violation("counted:signature-over-another-rendering", &format!("{mname}: a signature by {kname} over the {rname} of the content - not over its signing form - met threshold 1"), w);
                    }
                    Guard::Done(Err(_)) => acc.outcome("other-rendering-not-counted"),
                    Guard::Panicked(l, m) => acc.violation(&format!("panic:{l}"), &m, w),
                }
            }
        }
    }
}

/// The authorised keys may arrive in any kind of collection: a vector, a filtered or chained
/// iterator (no exact size known in advance), the values of a map, a generator. The verdict is
/// that of the vector.
fn iterator_kinds_leg(acc: &mut Acc) {
    let f = family_by_name("ed25519");
    let vi = |n: &str| f.entries.iter().position(|e| e.name == n).unwrap();
    let lists: Vec<Vec<usize>> = vec![vec![], vec![vi("vA")], vec![vi("vA"), vi("vB")], vec![vi("vA"), vi("vB"), vi("vC")], vec![vi("uA"), vi("vB")], vec![vi("iA"), vi("vB"), vi("vA")]];
    let auths: Vec<Vec<usize>> = vec![vec![], vec![0], vec![0, 1], vec![0, 1, 2], vec![1, 0, 0]];
    for list in &lists {
        for auth in &auths {
            for t in [0u32, 1, 2, 3, 4] {
                let block = Metablock { signatures: list.iter().map(|e| f.entries[*e].sig.clone()).collect(), metadata: f.meta.clone() };
                let ks: Vec<&PublicKey> = auth.iter().map(|i| &f.keys[*i]).collect();
                let as_vec = matches!(guard(|| block.verify(t, ks.clone())), Guard::Done(Ok(_)));
                let map: std::collections::BTreeMap<usize, &PublicKey> = ks.iter().copied().enumerate().collect();
                let mut gen_i = 0usize;
                let kinds: Vec<(&str, Guard<bool>)> = vec![
                    ("filter", guard(|| block.verify(t, ks.iter().copied().filter(|_| true)).is_ok())),
                    ("chain", guard(|| block.verify(t, ks.iter().copied().take(1).chain(ks.iter().copied().skip(1))).is_ok())),
                    ("map values", guard(|| block.verify(t, map.values().copied()).is_ok())),
                    ("flat_map", guard(|| block.verify(t, ks.iter().flat_map(|k| std::iter::once(*k))).is_ok())),
                    ("generator", guard(|| {
                        block
                            .verify(
                                t,
                                std::iter::from_fn(|| {
                                    let k = ks.get(gen_i).copied();
                                    gen_i += 1;
                                    k
                                }),
                            )
                            .is_ok()
                    })),
                ];
                for (kname, r) in kinds {
                    acc.evaluations += 1;
                    acc.nontrivial += 1;
                    let w = || json!({"kind": "iterator-kind", "iterator": kname, "signatures": list.iter().map(|e| f.entries[*e].name.clone()).collect::<Vec<_>>(), "authorized": auth.iter().map(|i| f.key_names[*i]).collect::<Vec<_>>(), "threshold": t});
                    match r {
                        Guard::Done(ok) if ok == as_vec => acc.outcome("iterator-kind-agrees"),
                        Guard::Done(ok) => acc.violation(&format!("verdict-depends-on-the-kind-of-key-collection:{}", if ok { "accepted" } else { "rejected" }), &format!("verify gives {} for the authorised keys as a {kname} and {} for the same keys as a vector", if ok { "Ok" } else { "Err" }, if as_vec { "Ok" } else { "Err" }), w),
                        Guard::Panicked(l, m) => acc.violation(&format!("panic:{l}"), &m, w),
                    }
                }
            }
        }
    }
}

pub fn run(tier: Tier) -> i32 {
    let mut c = Check::new("C04", "model_checking", tier);
    let full = if tier.thorough() { 5 } else { 4 };
    let reduced = if tier.thorough() { 4 } else { 3 };
    let fams: Vec<(Family, usize)> = vec![
        (family_by_name("ed25519"), full),
        (family_by_name("ecdsa-p256"), reduced),
        (family_by_name("rsa-pss-sha256"), reduced),
        (family_by_name("rsa-pss-sha512"), reduced),
        (family_by_name("mixed"), reduced),
        (family_by_name("guise-ed25519"), full),
        (family_by_name("guise-rsa"), reduced + 1),
        (family_by_name("odd-schemes"), full),
    ];
    // self-test: randomized schemes give two different valid signatures (rA != vA)
    let differ = sig_hex(&fams[1].0.entries[0].sig) != sig_hex(&fams[1].0.entries[5].sig);
    c.selftest("ecdsa-resignature-differs", differ, "rA equals vA for ECDSA");
    let auths = auth_sequences(3);
    let mut acc = Acc::new();
    let mut bounds = vec![];
    for (f, maxlen) in &fams {
        // quick tier: the entries from LATE on (unknown / look-alike key ids, stale signature)
        // only in lists of length <= 3
        let standard = f.entries.len() == ENTRIES.len();
        // the entries from LATE on: in lists of length <= 3 (quick) / <= 4 (thorough)
        let late_max = if tier.thorough() && (f.name == "ed25519" || f.name.starts_with("guise")) { 4 } else { 3 };
        let ls: Vec<Vec<usize>> = lists(f.entries.len(), *maxlen).into_iter().filter(|l| !standard || l.len() <= late_max || l.iter().all(|e| *e < LATE)).collect();
        bounds.push(format!("{}: lists <= {maxlen} ({} lists)", f.name, ls.len()));
        let accs = util::par_fold(&ls, Acc::new, |acc, i, list| {
            acc.states += 1;
            acc.transitions += if list.is_empty() { 0 } else { 1 };
            let nontrivial = list.iter().any(|e| !f.entries[*e].valid) || !each_key_at_most_once(f, list);
            if nontrivial {
                acc.nontrivial += 1;
            }
            for auth in &auths {
                for t in THRESHOLDS {
                    check_case(acc, f, list, auth, t);
                }
            }
            if i == 100 {
                acc.sample(|| case_json(f, list, &auths[7], 2));
            }
        });
        acc.merge(Acc::merge_all(accs));
    }
    twin_leg(&mut acc);
    renderings_leg(&mut acc);
    iterator_kinds_leg(&mut acc);
    bounds.push("kinds of key collection: 6 signature lists x 5 authorised sequences x thresholds 0..4 x {filtered, chained, map values, flat_map, generator} against the vector".to_string());
    bounds.push("the canonical content by the reference encoder (5 blocks, incl. strings beginning with a quote or a backslash, x 3 key types: must count); other renderings: 5 blocks x 3 key types x 4 renderings of the same content (escaped canonical form, serde compact / pretty, signing form + LF)".to_string());
    bounds.push("near twins: 3 links + 1 layout x every leaf of the signed part x every small edit that yields another readable block, both directions".to_string());
    c.acc = acc;
    c.rule = "state = signature list (sequence over {valid by A/B/C, garbage labelled A, B's signature relabelled A, second valid signature by A, empty labelled A, A's / B's valid signature under an unknown key id, A's signature over other content, A's valid signature under an id sharing A's first 8 characters / under A's id in upper case}); transition = append one entry; each state is verified for every authorised sequence over {A,B,C} of length <= 3 (with duplicates, and empty) x thresholds {0,1,2,3,u32::MAX} x every iteration order of the internal signature map; two more families have ONE key loaded twice (A, A2: Ed25519 with / without a hash-algorithm list; one RSA modulus declared PSS-SHA256 / PSS-SHA512) next to an unrelated B, with each guise's signature under its own and under the other guise's id: distinct keys are counted by key material; one family has authorised keys whose declared scheme does not fit their material (Ed25519 material declared RSA-PSS) or is unknown: nothing attributed to them counts; non-trivial = list with an invalid entry, a repeated key id or one key under two ids".into();
    c.bound_completed = bounds.join("; ");
    c.assume("ring's verification primitives are a trusted black box; three fixed keys per family");
    c.assume("sufficiency is only demanded when every key id occurs at most once in the list and no key appears under two ids (as the statement says: each key signs at most once)");
    c.assume("two PublicKey values over the same key material are one key");
    c.assume("searched, not enumerated: the entry rA of the ECDSA / RSA families is a signature of an unusual class (short DER encoding / leading zero byte), found by signing until one appears");
    c.finish()
}

pub fn replay(case: &Value) -> Value {
    if case["kind"] == "iterator-kind" {
        let mut acc = Acc::new();
        iterator_kinds_leg(&mut acc);
        return json!({"note": "the leg is re-run as a whole", "violation": acc.violations.keys().next()});
    }
    if case["kind"] == "other-rendering" {
        let mut acc = Acc::new();
        renderings_leg(&mut acc);
        return json!({"note": "the leg is re-run as a whole", "violation": acc.violations.keys().next()});
    }
    if case["kind"] == "near-twin" {
        let mut acc = Acc::new();
        twin_leg(&mut acc);
        let hit = acc.violations.values().find(|v| v.witness["edit"] == case["edit"] && v.witness["block"] == case["block"]).map(|v| v.key.clone());
        return json!({"note": "the near-twin leg is re-run as a whole", "violation": hit.or_else(|| acc.violations.keys().next().cloned())});
    }
    let fam = family_by_name(case["family"].as_str().unwrap_or("ed25519"));
    let list: Vec<usize> = case["signatures"].as_array().map(|a| a.iter().filter_map(|x| fam.entries.iter().position(|e| Some(e.name.as_str()) == x.as_str())).collect()).unwrap_or_default();
    let auth: Vec<usize> = case["authorized"].as_array().map(|a| a.iter().filter_map(|x| fam.key_names.iter().position(|e| Some(*e) == x.as_str())).collect()).unwrap_or_default();
    let t = case["threshold"].as_u64().unwrap_or(0) as u32;
    let mut acc = Acc::new();
    check_case(&mut acc, &fam, &list, &auth, t);
    json!({
        "result_default_order": format!("{:?}", run_verify(&fam, &list, &auth, t, 0).0),
        "distinct_valid_authorized": counting(&fam, &list, &auth).len(),
        "violation": acc.violations.keys().next(),
    })
}
