//! C04 — signature thresholds count distinct authorized keys with valid signatures.
//!
//! E1 over signature-list histories: a state is (authorised-key sequence,
//! threshold, signature list); a transition appends one entry of the alphabet.
//! The reference automaton's state is the set of authorised keys that have a
//! valid entry so far. Every state is executed on the real `Metablock::verify`
//! under every iteration order of its internal signature map (hook site F).

use std::collections::BTreeSet;

use in_toto::crypto::{PublicKey, Signature};
use in_toto::models::{Metablock, MetadataWrapper};
use in_toto::verif_hooks::{self, Driver};
use serde_json::{json, Value};

use crate::keys::{self, Key};
use crate::report::{Acc, Check, Tier};
use crate::util::{self, guard, Guard};
use crate::world;

/// Entry alphabet. A, B, C are the three keys of the family.
pub const ENTRIES: [&str; 9] = ["vA", "vB", "vC", "iA", "mAB", "rA", "eA", "uA", "uB"];

pub struct Family {
    pub name: &'static str,
    pub keys: [&'static Key; 3],
    pub meta: MetadataWrapper,
    /// one Signature per entry of ENTRIES
    pub sigs: Vec<Signature>,
}

fn sig_json(keyid: &str, sig_hex: &str) -> Signature {
    serde_json::from_value(json!({"keyid": keyid, "sig": sig_hex})).expect("signature entry")
}

fn sig_hex(s: &Signature) -> String {
    serde_json::to_value(s).unwrap()["sig"].as_str().unwrap().to_string()
}

pub fn family(name: &'static str, names: [&str; 3]) -> Family {
    let ks = [keys::get(names[0]), keys::get(names[1]), keys::get(names[2])];
    let meta = MetadataWrapper::Link(world::link("step", world::arts(&[("m", 1)]), world::arts(&[("p", 2)])));
    let sign = |k: &Key| -> Signature { world::sign(meta.clone(), &[k]).signatures[0].clone() };
    let (va, vb, vc) = (sign(ks[0]), sign(ks[1]), sign(ks[2]));
    let ra = sign(ks[0]); // a second signature by A (different bytes for randomized schemes)
    let a_id = ks[0].id();
    let garbage = "00".repeat(sig_hex(&va).len() / 2);
    let sigs = vec![
        va.clone(),
        vb.clone(),
        vc,
        sig_json(&a_id, &garbage),
        sig_json(&a_id, &sig_hex(&vb)),
        ra,
        sig_json(&a_id, ""),
        // valid signatures by A and by B, labelled with key ids nobody has
        sig_json(&"f".repeat(64), &sig_hex(&va)),
        sig_json(&"e".repeat(64), &sig_hex(&vb)),
    ];
    Family { name, keys: ks, meta, sigs }
}

/// Which key (0..3) an entry is labelled with, and whether its value is a
/// valid signature by that key.
fn entry_info(e: usize) -> (usize, bool) {
    match ENTRIES[e] {
        "vA" | "rA" => (0, true),
        "vB" => (1, true),
        "vC" => (2, true),
        // labelled with an unknown id: belongs to no key (index 9 is never authorised)
        "uA" | "uB" => (9, false),
        _ => (0, false),
    }
}

/// Reference: the set of authorised keys with a valid entry in the list.
fn counting(list: &[usize], auth: &[usize]) -> BTreeSet<usize> {
    list.iter()
        .map(|e| entry_info(*e))
        .filter(|(k, valid)| *valid && auth.contains(k))
        .map(|(k, _)| k)
        .collect()
}

fn each_key_at_most_once(list: &[usize]) -> bool {
    let ids: Vec<usize> = list.iter().map(|e| entry_info(*e).0).collect();
    let set: BTreeSet<usize> = ids.iter().copied().collect();
    set.len() == ids.len()
}

pub const THRESHOLDS: [u32; 5] = [0, 1, 2, 3, u32::MAX];

#[derive(Debug, Clone, PartialEq)]
enum Res {
    Ok(bool), // returned content equals the block's content
    Err,
    Panic(String),
}

fn run_verify(f: &Family, list: &[usize], auth: &[usize], t: u32, perm: usize) -> (Res, usize) {
    let block = Metablock { signatures: list.iter().map(|e| f.sigs[*e].clone()).collect(), metadata: f.meta.clone() };
    let auth_keys: Vec<&PublicKey> = auth.iter().map(|i| f.keys[*i].public()).collect();
    verif_hooks::install(Driver { permute: true, script: vec![perm], ..Driver::default() });
    let r = guard(|| block.verify(t, auth_keys));
    let drv = verif_hooks::uninstall().unwrap_or_default();
    if drv.diverged {
        util::machinery_error("C04: permutation index out of range at site F");
    }
    let n = drv.trace.first().map(|p| p.n).unwrap_or(1);
    let res = match r {
        Guard::Done(Ok(m)) => Res::Ok(m == f.meta),
        Guard::Done(Err(_)) => Res::Err,
        Guard::Panicked(l, _) => Res::Panic(l),
    };
    (res, n)
}

fn fact(n: usize) -> usize {
    (1..=n).product::<usize>().max(1)
}

fn case_json(f: &Family, list: &[usize], auth: &[usize], t: u32) -> Value {
    json!({
        "family": f.name,
        "signatures": list.iter().map(|e| ENTRIES[*e]).collect::<Vec<_>>(),
        "authorized": auth.iter().map(|i| ["A", "B", "C"][*i]).collect::<Vec<_>>(),
        "threshold": t,
    })
}

fn reason(list: &[usize], auth: &[usize]) -> String {
    let mut r = BTreeSet::new();
    let mut seen_valid = BTreeSet::new();
    for e in list {
        let (k, valid) = entry_info(*e);
        if k == 9 {
            r.insert("signature-under-unknown-key-id");
        } else if !auth.contains(&k) {
            r.insert("unauthorized-key");
        } else if !valid {
            r.insert(match ENTRIES[*e] {
                "mAB" => "mislabeled-signature",
                "eA" => "empty-signature",
                _ => "invalid-signature",
            });
        } else if !seen_valid.insert(k) {
            r.insert("repeated-signature-by-one-key");
        }
    }
    let auth_set: BTreeSet<usize> = auth.iter().copied().collect();
    if auth_set.len() < auth.len() {
        r.insert("duplicate-authorized-key");
    }
    if r.is_empty() {
        "too-few-signatures".into()
    } else {
        r.into_iter().collect::<Vec<_>>().join("+")
    }
}

fn check_case(acc: &mut Acc, f: &Family, list: &[usize], auth: &[usize], t: u32) {
    let count = counting(list, auth).len() as u64;
    let must_reject = t < 1 || count < t as u64;
    let must_accept = !must_reject && each_key_at_most_once(list);
    let mut outcomes = BTreeSet::new();
    let mut perm = 0;
    loop {
        let (res, n) = run_verify(f, list, auth, t, perm);
        acc.evaluations += 1;
        acc.traces += 1;
        outcomes.insert(format!("{res:?}"));
        match &res {
            Res::Panic(l) => acc.violation(&format!("panic:{l}"), &format!("Metablock::verify panicked at {l}"), || case_json(f, list, auth, t)),
            Res::Ok(same) => {
                acc.accepting += 1;
                if must_reject {
                    // shrink: drop entries while still accepted and still must-reject
                    let mut small = list.to_vec();
                    let mut i = 0;
                    while i < small.len() {
                        let mut cand = small.clone();
                        cand.remove(i);
                        let c2 = counting(&cand, auth).len() as u64;
                        let rej = t < 1 || c2 < t as u64;
                        if rej && matches!(run_verify(f, &cand, auth, t, 0).0, Res::Ok(_)) {
                            small = cand;
                        } else {
                            i += 1;
                        }
                    }
                    let key = if t < 1 {
                        "accepted:threshold-zero".to_string()
                    } else {
                        format!("accepted:count-below-threshold:{}", reason(&small, auth))
                    };
                    acc.violation(&key, &format!("verify succeeded with threshold {t} although only {count} distinct authorised keys have a valid signature ({key})"), || case_json(f, &small, auth, t));
                }
                if !same {
                    acc.violation("returned-content-differs", "verify returned metadata different from the block's content", || case_json(f, list, auth, t));
                }
            }
            Res::Err => {
                if must_accept {
                    acc.violation(
                        "rejected:enough-distinct-valid-signatures",
                        &format!("verify failed although each key signs at most once and {count} >= {t} distinct authorised keys have valid signatures"),
                        || {
                            let mut j = case_json(f, list, auth, t);
                            j["permutation"] = json!(perm);
                            j
                        },
                    );
                }
            }
        }
        perm += 1;
        if perm >= fact(n).min(24) {
            break;
        }
    }
    acc.outcome(&format!("{}{}", if must_reject { "reject" } else { "accept" }, if outcomes.len() > 1 { "/order-dependent" } else { "" }));
    if outcomes.len() > 1 {
        // order dependence is only a violation of this property when a bound is crossed
        // (those are reported above); record it for the evidence
        acc.note("order-dependent-outcome");
        if must_accept || must_reject {
            acc.violation("order-dependent", "the result of verify depends on the iteration order of its internal signature map", || case_json(f, list, auth, t));
        }
    }
}

fn auth_sequences(max: usize) -> Vec<Vec<usize>> {
    let mut v = vec![];
    for len in 0..=max {
        v.extend(util::sequences(3, len));
    }
    v
}

fn lists(max: usize) -> Vec<Vec<usize>> {
    let mut v = vec![];
    for len in 0..=max {
        v.extend(util::sequences(ENTRIES.len(), len));
    }
    v
}

pub fn run(tier: Tier) -> i32 {
    let mut c = Check::new("C04", "model_checking", tier);
    let full = if tier.thorough() { 5 } else { 4 };
    let reduced = if tier.thorough() { 4 } else { 3 };
    let fams: Vec<(Family, usize)> = vec![
        (family("ed25519", ["ed1", "ed2", "ed3"]), full),
        (family("ecdsa-p256", ["ec1", "ec2", "ec3"]), reduced),
        (family("rsa-pss-sha256", ["rsa256a", "rsa256b", "rsa256c"]), reduced),
        (family("rsa-pss-sha512", ["rsa512a", "rsa256b", "rsa512c"]), reduced),
        (family("mixed", ["ed1", "ec1", "rsa256a"]), reduced),
    ];
    // self-test: randomized schemes give two different valid signatures (rA != vA)
    let differ = sig_hex(&fams[1].0.sigs[0]) != sig_hex(&fams[1].0.sigs[5]);
    c.selftest("ecdsa-resignature-differs", differ, "rA equals vA for ECDSA");
    let auths = auth_sequences(3);
    let mut acc = Acc::new();
    let mut bounds = vec![];
    for (f, maxlen) in &fams {
        // quick tier: the two unknown-key-id entries only in lists of length <= 3
        let ls: Vec<Vec<usize>> = lists(*maxlen).into_iter().filter(|l| tier.thorough() || l.len() < 4 || l.iter().all(|e| *e < 7)).collect();
        bounds.push(format!("{}: lists <= {maxlen} ({} lists)", f.name, ls.len()));
        let accs = util::par_fold(&ls, Acc::new, |acc, i, list| {
            acc.states += 1;
            acc.transitions += if list.is_empty() { 0 } else { 1 };
            let nontrivial = list.iter().any(|e| !entry_info(*e).1) || !each_key_at_most_once(list);
            if nontrivial {
                acc.nontrivial += 1;
            }
            for auth in &auths {
                for t in THRESHOLDS {
                    check_case(acc, f, list, auth, t);
                }
            }
            if i == 100 {
                acc.sample(|| case_json(f, list, &auths[7], 2));
            }
        });
        acc.merge(Acc::merge_all(accs));
    }
    c.acc = acc;
    c.rule = "state = signature list (sequence over {valid by A/B/C, garbage labelled A, B's signature relabelled A, second valid signature by A, empty labelled A, A's / B's valid signature under an unknown key id}); transition = append one entry; each state is verified for every authorised sequence over {A,B,C} of length <= 3 (with duplicates, and empty) x thresholds {0,1,2,3,u32::MAX} x every iteration order of the internal signature map; non-trivial = list with an invalid entry or a repeated key id".into();
    c.bound_completed = bounds.join("; ");
    c.assume("ring's verification primitives are a trusted black box; three fixed keys per family");
    c.assume("sufficiency is only demanded when every key id occurs at most once in the list (as the statement says)");
    c.finish()
}

pub fn replay(case: &Value) -> Value {
    let fam = match case["family"].as_str().unwrap_or("ed25519") {
        "ecdsa-p256" => family("ecdsa-p256", ["ec1", "ec2", "ec3"]),
        "rsa-pss-sha256" => family("rsa-pss-sha256", ["rsa256a", "rsa256b", "rsa256c"]),
        "rsa-pss-sha512" => family("rsa-pss-sha512", ["rsa512a", "rsa256b", "rsa512c"]),
        "mixed" => family("mixed", ["ed1", "ec1", "rsa256a"]),
        _ => family("ed25519", ["ed1", "ed2", "ed3"]),
    };
    let list: Vec<usize> = case["signatures"].as_array().map(|a| a.iter().filter_map(|x| ENTRIES.iter().position(|e| Some(*e) == x.as_str())).collect()).unwrap_or_default();
    let auth: Vec<usize> = case["authorized"].as_array().map(|a| a.iter().filter_map(|x| ["A", "B", "C"].iter().position(|e| Some(*e) == x.as_str())).collect()).unwrap_or_default();
    let t = case["threshold"].as_u64().unwrap_or(0) as u32;
    let mut acc = Acc::new();
    check_case(&mut acc, &fam, &list, &auth, t);
    json!({
        "result_default_order": format!("{:?}", run_verify(&fam, &list, &auth, t, 0).0),
        "distinct_valid_authorized": counting(&list, &auth).len(),
        "violation": acc.violations.keys().next(),
    })
}
