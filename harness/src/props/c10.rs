//! C10 — canonical JSON is deterministic, order-insensitive, loss-free, integer-only.
//!
//! E3: exhaustive enumeration of a JSON value grammar, of every Unicode scalar
//! value (as string and as key), of an integer boundary set, and of all
//! spellings of a value subset. The oracle is derived from the property (no
//! reference encoder): parse-back identity, token-level structure of the
//! output, spelling independence, float rejection, run-to-run identity.

use in_toto::interchange::{DataInterchange, Json, JsonPretty};
use serde_json::{json, Map, Value};

use crate::report::{Acc, Check, Tier};
use crate::util::{self, guard, Guard};

fn canon(v: &Value) -> Result<Vec<u8>, String> {
    match guard(|| Json::canonicalize(v)) {
        Guard::Done(Ok(b)) => Ok(b),
        Guard::Done(Err(e)) => Err(format!("{e:?}")),
        Guard::Panicked(l, m) => Err(format!("PANIC {l}: {m}")),
    }
}

/// Token-level check of a canonical output: no whitespace outside strings,
/// object keys strictly increasing by code point, numbers in plain decimal.
fn structure_ok(out: &[u8]) -> Result<(), String> {
    // stack of "last key of the enclosing object" (None for arrays)
    let mut stack: Vec<Option<Option<String>>> = vec![];
    let mut i = 0;
    let mut expect_key = false;
    while i < out.len() {
        let b = out[i];
        match b {
            b' ' | b'\t' | b'\n' | b'\r' => return Err(format!("whitespace at byte {i}")),
            b'{' => {
                stack.push(Some(None));
                expect_key = true;
                i += 1;
            }
            b'[' => {
                stack.push(None);
                expect_key = false;
                i += 1;
            }
            b'}' | b']' => {
                stack.pop();
                expect_key = false;
                i += 1;
            }
            b',' => {
                expect_key = matches!(stack.last(), Some(Some(_)));
                i += 1;
            }
            b':' => {
                expect_key = false;
                i += 1;
            }
            b'"' => {
                let start = i;
                i += 1;
                while i < out.len() && out[i] != b'"' {
                    if out[i] == b'\\' {
                        i += 1;
                    }
                    i += 1;
                }
                i += 1;
                if i > out.len() {
                    return Err("unterminated string".into());
                }
                if expect_key {
                    let key: String = serde_json::from_slice(&out[start..i]).map_err(|e| format!("key token: {e}"))?;
                    if let Some(Some(last)) = stack.last_mut() {
                        if let Some(prev) = last {
                            // String Ord is byte-wise over UTF-8 = code point order
                            if prev.as_str() >= key.as_str() {
                                return Err(format!("keys not strictly increasing by code point: {prev:?} then {key:?}"));
                            }
                        }
                        *last = Some(key);
                    }
                    expect_key = false;
                }
            }
            b'-' | b'0'..=b'9' => {
                let start = i;
                while i < out.len() && matches!(out[i], b'-' | b'+' | b'.' | b'e' | b'E' | b'0'..=b'9') {
                    i += 1;
                }
                let tok = std::str::from_utf8(&out[start..i]).unwrap();
                let digits = tok.strip_prefix('-').unwrap_or(tok);
                let plain = !digits.is_empty() && digits.bytes().all(|c| c.is_ascii_digit()) && (digits == "0" || !digits.starts_with('0')) && tok != "-0";
                if !plain {
                    return Err(format!("number token {tok:?} is not a plain decimal integer"));
                }
            }
            b't' | b'f' | b'n' => {
                let lit: &[u8] = match b {
                    b't' => b"true",
                    b'f' => b"false",
                    _ => b"null",
                };
                if !out[i..].starts_with(lit) {
                    return Err(format!("bad literal at {i}"));
                }
                i += lit.len();
            }
            _ => return Err(format!("unexpected byte {b:#x} at {i}")),
        }
    }
    Ok(())
}

/// All per-value obligations for an integer-only value.
fn check_value(acc: &mut Acc, v: &Value, origin: &str) {
    acc.evaluations += 1;
    let witness = || {
        let t = v.to_string();
        if t.len() > 600 {
            json!({"kind": "long-value", "origin": origin, "value_sha256": util::hex(&util::sha256(t.as_bytes())), "value_head": t.chars().take(80).collect::<String>(), "value_len": t.len()})
        } else {
            json!({"kind": "value", "origin": origin, "value_text": t})
        }
    };
    // call history: the other encoding style of the same value runs first on this thread; the
    // canonical form must not depend on it
    if origin != "scalar-as-string" {
        let _ = guard(|| Json::canonicalize_for_signing(v));
    }
    let out = match canon(v) {
        Ok(o) => o,
        Err(e) => {
            acc.outcome("rejected");
            acc.violation(
                &format!("integer-only-value-rejected:{}", if e.starts_with("PANIC") { "panic" } else { "error" }),
                &format!("canonicalisation of an integer-only value failed: {e}"),
                witness,
            );
            return;
        }
    };
    acc.outcome("encoded");
    match serde_json::from_slice::<Value>(&out) {
        Ok(back) if &back == v => {}
        Ok(_) => acc.violation("parse-back-differs", "the canonical encoding parses back to a different value", witness),
        Err(e) => acc.violation("output-not-json", &format!("the canonical encoding is not valid JSON: {e}"), witness),
    }
    if let Err(e) = structure_ok(&out) {
        let class = if e.contains("whitespace") {
            "whitespace"
        } else if e.contains("keys") {
            "key-order"
        } else if e.contains("number") {
            "number-format"
        } else {
            "other"
        };
        acc.violation(&format!("structure:{class}"), &format!("canonical output violates the canonical structure: {e}"), witness);
    }
    if canon(v).ok().as_ref() != Some(&out) {
        acc.violation("nondeterministic", "two canonicalisations of the same value differ", witness);
    }
    // the other entry points that promise the same bytes
    if origin != "scalar-as-string" && origin != "scalar-key-pair" {
        let mut buf = vec![];
        let w = guard(|| Json::to_writer(&mut buf, v).map_err(|e| format!("{e:?}")));
        if !matches!(w, Guard::Done(Ok(()))) || buf != out {
            acc.violation("entry-points-disagree:Json::to_writer", "Json::to_writer does not write the bytes Json::canonicalize returns", witness);
        }
        match guard(|| JsonPretty::canonicalize(v)) {
            Guard::Done(Ok(b)) if b == out => {}
            _ => acc.violation("entry-points-disagree:JsonPretty::canonicalize", "JsonPretty::canonicalize differs from Json::canonicalize", witness),
        }
    }
}

/// Strings of length 15..70000 whose escaping-relevant characters sit at the start, in the middle,
/// at the end, or everywhere.
pub fn long_strings() -> Vec<String> {
    let mut out = vec![];
    for len in [15usize, 16, 17, 31, 32, 33, 63, 64, 65, 127, 128, 129, 255, 256, 257, 1023, 1024, 1025, 4095, 4096, 4097, 8192, 65536, 70001] {
        for special in ['\\', '"', '\n', '\0', 'é', '\u{1f600}', '\u{7f}'] {
            for place in 0..4 {
                if len > 5000 && place == 3 {
                    continue;
                }
                let mut s = String::new();
                for i in 0..len {
                    let here = match place {
                        0 => i == 0,
                        1 => i == len / 2,
                        2 => i == len - 1,
                        _ => i % 2 == 1,
                    };
                    s.push(if here { special } else { 'a' });
                }
                out.push(s);
            }
        }
    }
    out
}

fn key_alphabet() -> Vec<String> {
    vec!["".into(), "a".into(), "aa".into(), "B".into(), "é".into(), "\u{ffff}".into(), "\u{10000}".into()]
}

fn leaves() -> Vec<Value> {
    vec![
        Value::Null,
        json!(true),
        json!(false),
        json!(0),
        json!(1),
        json!(-1),
        json!(i64::MIN),
        json!(i64::MAX),
        json!(u64::MAX),
        json!(""),
        json!("a"),
        json!("\""),
        json!("é"),
    ]
}

/// arrays of length <= 2 and objects with <= 2 members over `children`, keys from `keys`
fn composites(children: &[Value], keys: &[String]) -> Vec<Value> {
    let mut out = vec![json!([]), json!({})];
    for a in children {
        out.push(json!([a]));
        for k in keys {
            out.push(json!({ k.clone(): a }));
        }
    }
    for a in children {
        for b in children {
            out.push(json!([a, b]));
        }
    }
    for (i, k1) in keys.iter().enumerate() {
        for k2 in keys.iter().skip(i + 1) {
            for a in children {
                for b in children {
                    let mut m = Map::new();
                    m.insert(k1.clone(), a.clone());
                    m.insert(k2.clone(), b.clone());
                    out.push(Value::Object(m));
                }
            }
        }
    }
    out
}

// ------------------------------------------------------------ spellings

#[derive(Clone, Copy, PartialEq)]
enum Esc {
    Raw,
    Short,
    U4,
}

fn spell_char(c: char, mode: Esc, out: &mut String) {
    let must_escape = c == '"' || c == '\\' || (c as u32) < 0x20;
    let short = match c {
        '"' => Some("\\\""),
        '\\' => Some("\\\\"),
        '/' => Some("\\/"),
        '\n' => Some("\\n"),
        '\t' => Some("\\t"),
        '\r' => Some("\\r"),
        '\u{8}' => Some("\\b"),
        '\u{c}' => Some("\\f"),
        _ => None,
    };
    let u4 = |out: &mut String| {
        let mut buf = [0u16; 2];
        for u in c.encode_utf16(&mut buf) {
            out.push_str(&format!("\\u{:04x}", u));
        }
    };
    match mode {
        Esc::U4 => u4(out),
        Esc::Short => match short {
            Some(s) => out.push_str(s),
            None if must_escape => u4(out),
            None => out.push(c),
        },
        Esc::Raw => {
            if must_escape {
                match short {
                    Some(s) => out.push_str(s),
                    None => u4(out),
                }
            } else {
                out.push(c)
            }
        }
    }
}

fn spell_string(s: &str, modes: &dyn Fn(usize) -> Esc, out: &mut String) {
    out.push('"');
    for (i, c) in s.chars().enumerate() {
        spell_char(c, modes(i), out);
    }
    out.push('"');
}

/// Emit `v` as JSON text: `ws` is inserted at every token boundary, members in
/// the order given by `rev` (false: sorted, true: reversed), strings by `modes`.
fn spell(v: &Value, ws: &str, rev: bool, modes: &dyn Fn(usize) -> Esc, out: &mut String) {
    out.push_str(ws);
    match v {
        Value::String(s) => spell_string(s, modes, out),
        Value::Array(a) => {
            out.push('[');
            for (i, e) in a.iter().enumerate() {
                if i > 0 {
                    out.push(',');
                }
                spell(e, ws, rev, modes, out);
            }
            out.push_str(ws);
            out.push(']');
        }
        Value::Object(o) => {
            out.push('{');
            let mut ks: Vec<&String> = o.keys().collect();
            if rev {
                ks.reverse();
            }
            for (i, k) in ks.iter().enumerate() {
                if i > 0 {
                    out.push(',');
                }
                out.push_str(ws);
                spell_string(k, modes, out);
                out.push_str(ws);
                out.push(':');
                spell(&o[*k], ws, rev, modes, out);
            }
            out.push_str(ws);
            out.push('}');
        }
        other => out.push_str(&other.to_string()),
    }
    out.push_str(ws);
}

fn check_spellings(acc: &mut Acc, v: &Value) {
    let Ok(reference) = canon(v) else { return };
    let modes: [(&str, Box<dyn Fn(usize) -> Esc>); 5] = [
        ("raw", Box::new(|_| Esc::Raw)),
        ("short", Box::new(|_| Esc::Short)),
        ("u4", Box::new(|_| Esc::U4)),
        ("alternate-u4-raw", Box::new(|i| if i % 2 == 0 { Esc::U4 } else { Esc::Raw })),
        ("alternate-raw-u4", Box::new(|i| if i % 2 == 0 { Esc::Raw } else { Esc::U4 })),
    ];
    for ws in ["", " ", "\t", "\n", "\r\n ", "  \n\t"] {
        for rev in [false, true] {
            for (mname, m) in &modes {
                let mut text = String::new();
                spell(v, ws, rev, m.as_ref(), &mut text);
                acc.evaluations += 1;
                acc.note("spellings");
                let witness = || json!({"kind": "spelling", "text": text, "value_text": v.to_string(), "escape_mode": mname});
                for channel in ["slice", "reader"] {
                    let parsed: Result<Value, _> = if channel == "slice" { Json::from_slice(text.as_bytes()) } else { Json::from_reader(text.as_bytes()) };
                    match parsed {
                        Err(e) => acc.violation("spelling-rejected", &format!("a legal spelling of a value was rejected by the reader: {e:?}"), witness),
                        Ok(p) => {
                            if &p != v {
                                acc.violation("spelling-parses-to-other-value", "a spelling of the value parsed to a different value", witness);
                            } else if canon(&p).ok().as_ref() != Some(&reference) {
                                acc.violation("spelling-dependent-encoding", "the canonical encoding depends on the spelling of the source text", witness);
                            }
                        }
                    }
                }
            }
        }
    }
}

fn int_texts() -> Vec<(String, bool)> {
    // (decimal text, fits in i64 or u64)
    let mut v: Vec<i128> = vec![0];
    for k in 0..=64u32 {
        let p = 1i128 << k;
        for d in [-1i128, 0, 1] {
            v.push(p + d);
            v.push(-(p + d));
        }
    }
    let mut t = 1i128;
    for _ in 0..=21 {
        v.push(t);
        v.push(t - 1);
        v.push(-t);
        t *= 10;
    }
    v.extend([i64::MIN as i128, i64::MAX as i128, u64::MAX as i128, i64::MIN as i128 - 1, u64::MAX as i128 + 1]);
    v.sort();
    v.dedup();
    v.into_iter().map(|n| (n.to_string(), n >= i64::MIN as i128 && n <= u64::MAX as i128)).collect()
}

/// The value grammar of this check (used by C05 for injectivity as well).
pub fn grammar(thorough: bool) -> Vec<Value> {
    let l0 = leaves();
    let keys = key_alphabet();
    let l1 = composites(&l0, &keys);
    let r1: Vec<Value> = vec![Value::Null, json!(-1), json!("\""), json!([]), json!({}), json!([0]), json!(["a", "é"]), json!({"a": 0}), json!({"": null, "B": true}), json!({"\u{10000}": 1, "\u{ffff}": 2})];
    let k2: Vec<String> = vec!["a".into(), "é".into(), "\u{10000}".into(), "\u{ffff}".into()];
    let mut g = l0;
    g.extend(l1);
    g.extend(composites(&r1, &k2));
    if thorough {
        let r2: Vec<Value> = vec![json!([[0]]), json!({"a": {"a": 0}}), json!([{"é": [1]}, {"a": {"": null}}]), json!({"\u{ffff}": [{}], "\u{10000}": {"B": []}}), Value::Null, json!(u64::MAX)];
        g.extend(composites(&r2, &k2));
    }
    g
}

pub fn run(tier: Tier) -> i32 {
    let mut c = Check::new("C10", "exploration", tier);
    c.selftest("structure-checker-accepts-canonical", structure_ok(br#"{"a":[1,-2,"x y"],"b":{"":null}}"#).is_ok(), "");
    c.selftest(
        "structure-checker-rejects-noncanonical",
        structure_ok(br#"{"b":1,"a":2}"#).is_err() && structure_ok(br#"{"a": 1}"#).is_err() && structure_ok(br#"[1.0]"#).is_err() && structure_ok(br#"[01]"#).is_err() && structure_ok("{\"\u{10000}\":1,\"\u{ffff}\":2}".as_bytes()).is_err(),
        "",
    );
    let mut acc = Acc::new();

    // (a) every Unicode scalar value as string and as key
    let scalars: Vec<u32> = if tier.thorough() || true {
        (0..=0x10ffffu32).filter(|c| char::from_u32(*c).is_some()).collect()
    } else {
        let mut v: Vec<u32> = (0..0x10000u32).collect();
        for b in [0xd7ff, 0xe000, 0xfffd, 0xfffe, 0xffff, 0x10000, 0x10001, 0x1f600, 0x2028, 0x2029, 0xfeff, 0xfffff, 0x100000, 0x10fffe, 0x10ffff] {
            v.push(b);
        }
        for b in (0x10000..0x110000u32).step_by(17) {
            v.push(b);
        }
        v.into_iter().filter(|c| char::from_u32(*c).is_some()).collect()
    };
    let accs = util::par_fold(&scalars, Acc::new, |acc, _i, cp| {
        let ch = char::from_u32(*cp).unwrap();
        let s: String = ch.to_string();
        check_value(acc, &json!(s), "scalar-as-string");
        check_value(acc, &json!({ s.clone(): 0, "m": [s.clone()] }), "scalar-as-key");
        // neighbours in key order: the scalar against its successor
        if let Some(next) = char::from_u32(cp + 1) {
            check_value(acc, &json!({ s.clone(): 1, next.to_string(): 2 }), "scalar-key-pair");
        }
        acc.nontrivial += 1;
    });
    acc.merge(Acc::merge_all(accs));
    acc.note_n("scalars", scalars.len() as u64);

    // (a') all strings of length <= 3 over the characters that any escaping scheme must treat
    let crit: Vec<char> = vec!['\\', '"', '/', '\n', '\0', 'a', 'é', '\u{ffff}', '\u{10000}', '\u{7f}', '\t'];
    let strs = util::strings_upto(&crit, if tier.thorough() { 4 } else { 3 });
    let accs = util::par_fold(&strs, Acc::new, |acc, _i, s| {
        check_value(acc, &json!(s), "critical-string");
        check_value(acc, &json!({ s.clone(): [s.clone()], "k": s.clone() }), "critical-string-as-key");
        acc.nontrivial += 1;
    });
    acc.merge(Acc::merge_all(accs));
    acc.note_n("critical_strings", strs.len() as u64);

    // (a+) control characters next to each other: every ordered pair over the 32 C0 controls, DEL,
    // a letter, the quote and the backslash; every triple over both ends of the two halves of C0
    // (an escaper that builds \u00XX from a template or a table meets every neighbour here)
    {
        let mut cs: Vec<char> = (0u8..0x20).map(|b| b as char).collect();
        cs.extend(['\u{7f}', 'a', '"', '\\']);
        let mut strs: Vec<String> = vec![];
        for x in &cs {
            for y in &cs {
                strs.push(format!("{x}{y}"));
            }
        }
        let ends = ['\0', '\u{1}', '\u{8}', '\n', '\u{f}', '\u{10}', '\u{1b}', '\u{1f}', 'a'];
        for x in ends {
            for y in ends {
                for z in ends {
                    strs.push(format!("{x}{y}{z}"));
                }
            }
        }
        let accs = util::par_fold(&strs, Acc::new, |acc, _i, s| {
            check_value(acc, &json!(s), "control-neighbours");
            check_value(acc, &json!({ s.clone(): [s.clone()], "k": s.clone() }), "control-neighbours-as-key");
            acc.nontrivial += 1;
        });
        acc.merge(Acc::merge_all(accs));
        acc.note_n("control_neighbour_strings", strs.len() as u64);
    }

    // (a'') long strings: lengths around typical buffer / fast-path thresholds, with the
    // escaping-relevant characters at the start, in the middle, at the end, and throughout
    let long = long_strings();
    let accs = util::par_fold(&long, Acc::new, |acc, _i, s| {
        check_value(acc, &json!(s), "long-string");
        check_value(acc, &json!({ s.clone(): [s.clone()], "k": s.clone() }), "long-string-as-key");
        acc.nontrivial += 1;
    });
    acc.merge(Acc::merge_all(accs));
    acc.note_n("long_strings", long.len() as u64);

    // (b) grammar
    let l0 = leaves();
    let keys = key_alphabet();
    let l1 = composites(&l0, &keys);
    let r1: Vec<Value> = vec![Value::Null, json!(-1), json!("\""), json!([]), json!({}), json!([0]), json!(["a", "é"]), json!({"a": 0}), json!({"": null, "B": true}), json!({"\u{10000}": 1, "\u{ffff}": 2})];
    let k2: Vec<String> = vec!["a".into(), "é".into(), "\u{10000}".into(), "\u{ffff}".into()];
    let l2 = composites(&r1, &k2);
    let mut grammar: Vec<Value> = l0.clone();
    grammar.extend(l1.iter().cloned());
    grammar.extend(l2.iter().cloned());
    let mut depth_done = 2;
    if tier.thorough() {
        let r2: Vec<Value> = vec![json!([[0]]), json!({"a": {"a": 0}}), json!([{"é": [1]}, {"a": {"": null}}]), json!({"\u{ffff}": [{}], "\u{10000}": {"B": []}}), Value::Null, json!(u64::MAX)];
        grammar.extend(composites(&r2, &k2));
        depth_done = 3;
    }
    let accs = util::par_fold(&grammar, Acc::new, |acc, i, v| {
        check_value(acc, v, "grammar");
        acc.nontrivial += 1;
        if i % 997 == 0 {
            acc.sample(|| json!({"kind": "value", "value_text": v.to_string()}));
        }
    });
    acc.merge(Acc::merge_all(accs));
    acc.note_n("grammar_values", grammar.len() as u64);

    // (c) all key triples
    let mut triples = vec![];
    for a in &keys {
        for b in &keys {
            for cc in &keys {
                let mut m = Map::new();
                m.insert(a.clone(), json!(1));
                m.insert(b.clone(), json!(2));
                m.insert(cc.clone(), json!(3));
                triples.push(Value::Object(m));
            }
        }
    }
    for v in &triples {
        check_value(&mut acc, v, "key-triple");
    }

    // (d) integers and non-integers
    for (txt, fits) in int_texts() {
        acc.evaluations += 1;
        let parsed: Value = serde_json::from_str(&txt).unwrap();
        let r = canon(&parsed);
        let witness = || json!({"kind": "number", "text": txt});
        if fits {
            match &r {
                Ok(b) if b == txt.as_bytes() => acc.outcome("integer-exact"),
                Ok(b) => acc.violation("integer-not-exact", &format!("integer {txt} rendered as {}", String::from_utf8_lossy(b)), witness),
                Err(e) => acc.violation("integer-rejected", &format!("64-bit integer {txt} rejected: {e}"), witness),
            }
            for wrapped in [json!([parsed.clone()]), json!({"k": parsed.clone()})] {
                check_value(&mut acc, &wrapped, "integer-nested");
            }
        } else if let Ok(b) = &r {
            acc.violation("out-of-range-number-encoded", &format!("{txt} (outside the 64-bit integer range, hence a non-integer number) was encoded as {} instead of being rejected", String::from_utf8_lossy(b)), witness);
        } else {
            acc.outcome("out-of-range-rejected");
        }
    }
    let floats = ["0.0", "-0.0", "0.5", "1.0", "1e2", "1E-2", "1.5e300", "18446744073709551616", "-9223372036854775809", "1e30", "100.0", "1e0", "-1.0", "2.5e-1", "9007199254740993.0"];
    for f in floats {
        let n: Value = serde_json::from_str(f).unwrap();
        for (ctx, v) in [("top", n.clone()), ("array", json!([1, n.clone()])), ("object", json!({"a": n.clone()})), ("deep", json!({"a": [{"b": [n.clone()]}]})), ("after-valid", json!([{"x": 1}, "s", n.clone()]))] {
            acc.evaluations += 1;
            acc.nontrivial += 1;
            match canon(&v) {
                Err(e) if e.starts_with("PANIC") => acc.violation("non-integer-panics", &format!("non-integer number {f} ({ctx}) panics: {e}"), || json!({"kind": "float", "text": f, "context": ctx})),
                Err(_) => acc.outcome("non-integer-rejected"),
                Ok(b) => acc.violation(
                    "non-integer-encoded",
                    &format!("a value containing the non-integer number {f} ({ctx}) was encoded as {} instead of being rejected", String::from_utf8_lossy(&b)),
                    || json!({"kind": "float", "text": f, "context": ctx}),
                ),
            }
        }
    }

    // (f) composition: both writers (the canonical one and the signing form) encode a container as
    // brackets, separators and the encodings of its parts - wherever a string sits, it is written
    // the same way. Model-free: the encoding of the bare string is taken from the same writer.
    {
        let mut strs: Vec<String> = util::strings_upto(&crit, 2);
        let mut cs: Vec<char> = (0u8..0x20).map(|b| b as char).collect();
        cs.extend(['\u{7f}', 'é', '\u{10000}']);
        for x in &cs {
            strs.push(x.to_string());
            strs.push(format!("a{x}b"));
        }
        let writers: [(&str, fn(&Value) -> in_toto::Result<Vec<u8>>); 2] = [("canonicalize", |v| Json::canonicalize(v)), ("canonicalize_for_signing", |v| Json::canonicalize_for_signing(v))];
        let accs = util::par_fold(&strs, Acc::new, |acc, _i, s| {
            for (wname, w) in writers {
                let Guard::Done(Ok(bare)) = guard(|| w(&json!(s))) else { continue };
                let cat = |parts: &[&[u8]]| -> Vec<u8> { parts.concat() };
                let shapes: Vec<(&str, Value, Vec<u8>)> = vec![
                    ("[s]", json!([s]), cat(&[b"[", &bare, b"]"])),
                    ("[[s]]", json!([[s]]), cat(&[b"[[", &bare, b"]]"])),
                    ("[0,s]", json!([0, s]), cat(&[b"[0,", &bare, b"]"])),
                    ("{k:s}", json!({"k": s}), cat(&[b"{\"k\":", &bare, b"}"])),
                    ("{k:[s]}", json!({"k": [s]}), cat(&[b"{\"k\":[", &bare, b"]}"])),
                    ("[{k:s}]", json!([{"k": s}]), cat(&[b"[{\"k\":", &bare, b"}]"])),
                    ("{k:{k:[[s]]}}", json!({"k": {"k": [[s]]}}), cat(&[b"{\"k\":{\"k\":[[", &bare, b"]]}}"])),
                    ("{s:0}", json!({ s.clone(): 0 }), cat(&[b"{", &bare, b":0}"])),
                    ("[{s:[s]}]", json!([{ s.clone(): [s] }]), cat(&[b"[{", &bare, b":[", &bare, b"]}]"])),
                ];
                for (shape, v, want) in shapes {
                    acc.evaluations += 1;
                    match guard(|| w(&v)) {
                        Guard::Done(Ok(got)) if got == want => acc.outcome("composes"),
                        Guard::Done(Ok(got)) => acc.violation(
                            &format!("encoding-depends-on-position:{wname}"),
                            &format!("{wname}: the string {s:?} is written differently inside {shape} than on its own ({} vs {})", String::from_utf8_lossy(&got), String::from_utf8_lossy(&want)),
                            || json!({"kind": "composition", "writer": wname, "string": s, "shape": shape}),
                        ),
                        Guard::Done(Err(e)) => acc.violation(&format!("encoding-depends-on-position:{wname}"), &format!("{wname}: {s:?} is encoded on its own but rejected inside {shape}: {e:?}"), || json!({"kind": "composition", "writer": wname, "string": s, "shape": shape})),
                        Guard::Panicked(l, m) => acc.violation(&format!("panic:{l}"), &m, || json!({"kind": "composition", "writer": wname, "string": s, "shape": shape})),
                    }
                }
            }
            acc.nontrivial += 1;
        });
        acc.merge(Acc::merge_all(accs));
    }

    // (e) spellings of a value subset
    let mut subset: Vec<Value> = vec![
        json!({"b": [1, "x"], "a": {"d": null, "c": "\"\\/\n\t\u{8}\u{c}\r"}, "é": "\u{1f600}\u{ffff}"}),
        json!(["", "a/b", "\u{0}\u{1f}\u{7f}", {"\u{10000}": "\u{2028}", "\u{ffff}": -5}]),
        json!("\u{1d11e}x\u{e9}"),
        json!({"": {"": {"": []}}}),
    ];
    subset.extend(l1.iter().step_by(if tier.thorough() { 7 } else { 61 }).cloned());
    subset.extend(l2.iter().step_by(if tier.thorough() { 11 } else { 53 }).cloned());
    let accs = util::par_fold(&subset, Acc::new, |acc, _i, v| check_spellings(acc, v));
    acc.merge(Acc::merge_all(accs));
    // duplicate members: last wins in the value; the encoding follows the value
    for (text, expect) in [(r#"{"a":1,"a":2}"#, r#"{"a":2}"#), (r#"{"a":{"b":1},"a":[]}"#, r#"{"a":[]}"#)] {
        acc.evaluations += 1;
        let p: Value = Json::from_slice(text.as_bytes()).unwrap();
        if canon(&p).ok().as_deref() != Some(expect.as_bytes()) {
            acc.violation("duplicate-member-handling", "duplicate members are not encoded according to the parsed value", || json!({"kind": "spelling", "text": text}));
        }
    }
    // Json::to_writer with typed values (not a pre-built JSON tree) and with a sink that takes at
    // most 5 bytes per call: the bytes delivered are the canonical form of the serialised value
    {
        struct Short(Vec<u8>, usize);
        impl std::io::Write for Short {
            fn write(&mut self, buf: &[u8]) -> std::io::Result<usize> {
                let n = buf.len().min(self.1);
                self.0.extend_from_slice(&buf[..n]);
                Ok(n)
            }
            fn flush(&mut self) -> std::io::Result<()> {
                Ok(())
            }
        }
        let typed: Vec<(String, Value, Vec<u8>, Vec<u8>)> = {
            let mut v = vec![];
            for (n, l) in crate::props::c16::links(false).into_iter().step_by(29) {
                if n.contains("other-field-named") {
                    continue;
                }
                let tree = serde_json::to_value(&l).unwrap();
                let mut whole = vec![];
                let _ = guard(|| Json::to_writer(&mut whole, &l).is_ok());
                let mut short = Short(vec![], 5);
                let _ = guard(|| Json::to_writer(&mut short, &l).is_ok());
                v.push((format!("link {n}"), tree, whole, short.0));
                let mb = crate::world::sign_link(l, &[crate::keys::get("ed1")]);
                let tree = serde_json::to_value(&mb).unwrap();
                let mut whole = vec![];
                let _ = guard(|| Json::to_writer(&mut whole, &mb).is_ok());
                let mut short = Short(vec![], 1);
                let _ = guard(|| Json::to_writer(&mut short, &mb).is_ok());
                v.push((format!("signed block of link {n}"), tree, whole, short.0));
            }
            v
        };
        for (n, tree, whole, short) in &typed {
            acc.evaluations += 2;
            acc.nontrivial += 1;
            let want = canon(tree).unwrap_or_default();
            if *whole != want {
                acc.violation("entry-points-disagree:Json::to_writer(typed value)", "Json::to_writer on a typed value does not write the canonical form of its serialisation", || json!({"kind": "typed-writer", "value": n}));
            }
            if *short != want {
                acc.violation("entry-points-disagree:Json::to_writer(short writes)", "Json::to_writer does not deliver all bytes to a writer that accepts a few bytes per call", || json!({"kind": "typed-writer", "value": n, "delivered": short.len(), "expected": want.len()}));
            }
            if let Err(e) = structure_ok(whole) {
                acc.violation("structure:typed-writer", &format!("Json::to_writer on a typed value: {e}"), || json!({"kind": "typed-writer", "value": n}));
            }
        }
    }
    // two threads give identical bytes
    {
        let vals: Vec<Value> = grammar.iter().step_by(101).cloned().collect();
        let a: Vec<_> = vals.iter().map(|v| canon(v).ok()).collect();
        let b = std::thread::scope(|s| s.spawn(|| vals.iter().map(|v| canon(v).ok()).collect::<Vec<_>>()).join().unwrap());
        acc.evaluations += vals.len() as u64;
        if a != b {
            acc.violation("nondeterministic-across-threads", "canonical bytes differ between threads", || json!({"kind": "threads"}));
        }
    }
    crate::envprobe::judge(&mut acc, "C10:", &mut c.extra);
    c.acc = acc;
    c.rule = format!(
        "(a) every scalar of the tier's set as a one-character string, as an object key next to another member, and as a key next to its successor; (a+) every ordered pair over the 32 C0 controls, DEL, a letter, quote and backslash and every triple over 9 of them, as string and as key; (a'') strings of 24 lengths 15..70001 with one of 7 escaping-relevant characters at the start / middle / end / every second position, as string and as key; for every value except single scalars also Json::to_writer and JsonPretty::canonicalize (same bytes) and a preceding canonicalize_for_signing call on the same thread (no influence); (b) value grammar: 13 leaves, arrays <= 2 and objects <= 2 (7 keys incl. U+FFFF / U+10000) over them, nested to depth {depth_done} over reduced child sets; (c) all 343 key triples; (d) integers 0, +-2^k, +-2^k+-1 (k<=64), 10^k, 10^k-1, extremes and 15 non-integer spellings in 5 contexts; (f) composition for the canonical writer and the signing form: a string (critical strings <= 2, every C0 control alone and between letters) is written inside 9 container shapes (arrays, objects, as a key, nested to depth 4) exactly as on its own; (e) all spellings (6 whitespace fillers x 2 member orders x 5 escape modes x 2 channels) of {} values. distinct_nontrivial counts scalars + grammar values + non-integer cases",
        subset.len()
    );
    c.bound_completed = format!("scalars: {}; grammar depth {depth_done}", "all 1,112,064");
    c.assume("serde_json (as built into the library, default features) is the JSON reader used for parse-back and for spellings");
    c.assume("member-order independence is discharged by serde_json's default (sorted) map in this build: every Value reaching the encoder is already sorted, so the encoder's own sort is not observable here (it would be with the preserve_order feature unified in by another crate)");
    c.assume("non-integer numbers include integral-valued floats (1.0, 1e2): they must be rejected because the canonical form 1 would parse back to a different value");
    c.finish()
}

pub fn replay(case: &Value) -> Value {
    let mut acc = Acc::new();
    match case["kind"].as_str() {
        Some("value") => {
            if let Ok(v) = serde_json::from_str::<Value>(case["value_text"].as_str().unwrap_or("null")) {
                check_value(&mut acc, &v, "replay");
                return json!({"canonical": canon(&v).map(|b| String::from_utf8_lossy(&b).to_string()), "violation": acc.violations.keys().next()});
            }
        }
        Some("number") | Some("float") => {
            let v: Value = serde_json::from_str(case["text"].as_str().unwrap_or("0")).unwrap_or(Value::Null);
            let r = canon(&v);
            let is_int = v.as_i64().is_some() || v.as_u64().is_some();
            return json!({"canonical": r.clone().map(|b| String::from_utf8_lossy(&b).to_string()), "violation": if r.is_ok() != is_int { json!("number-handling") } else { Value::Null }});
        }
        Some("typed-writer") | Some("environment") | Some("long-value") => return json!({"note": "re-run ./check C10 quick", "violation": null}),
        Some("composition") => {
            let st = case["string"].as_str().unwrap_or("");
            let sign = case["writer"] == "canonicalize_for_signing";
            let w = |v: &Value| if sign { Json::canonicalize_for_signing(v) } else { Json::canonicalize(v) };
            let bare = w(&json!(st)).unwrap_or_default();
            let inside = w(&json!([st])).unwrap_or_default();
            let nested = w(&json!({"k": [st]})).unwrap_or_default();
            let ok = inside == [b"[".as_slice(), &bare, b"]"].concat() && nested == [b"{\"k\":[".as_slice(), &bare, b"]}"].concat();
            return json!({"bare": String::from_utf8_lossy(&bare), "in_array": String::from_utf8_lossy(&inside), "violation": if ok { Value::Null } else { json!("encoding-depends-on-position") }});
        }
        Some("spelling") => {
            if let Ok(v) = serde_json::from_str::<Value>(case["value_text"].as_str().unwrap_or("null")) {
                check_spellings(&mut acc, &v);
                return json!({"violation": acc.violations.keys().next()});
            }
        }
        _ => {}
    }
    json!({"violation": null})
}
