//! C17 — decoding does not depend on how the JSON reaches the parser.
//!
//! E3: documents x channels {from_str, from_slice, from_reader (whole and one
//! byte at a time), from_value, Json::from_slice, Json::from_reader,
//! Json::deserialize} x spellings {compact, pretty, whitespace-heavy, every
//! string \u-escaped, each string token escaped alone}. Across all of them a
//! document must be accepted or rejected identically and yield equal values.

use std::io::Read;

use in_toto::crypto::{PublicKey, Signature};
use in_toto::interchange::{DataInterchange, Json};
use in_toto::models::byproducts::ByProducts;
use in_toto::models::inspection::Inspection;
use in_toto::models::rule::ArtifactRule;
use in_toto::models::step::Step;
use in_toto::models::{LayoutMetadata, LinkMetadata, LinkV02, Metablock, MetadataWrapper, PredicateWrapper, SLSAProvenanceV01, SLSAProvenanceV02, StateNaive, StateV01, StatementWrapper};
use serde::de::DeserializeOwned;
use serde_json::{json, Value};

use crate::keys;
use crate::props::{c16, c19};
use crate::report::{Acc, Check, Tier};
use crate::util::{self, guard, Guard};
use crate::world;

struct OneByte<'a>(&'a [u8]);
impl Read for OneByte<'_> {
    fn read(&mut self, buf: &mut [u8]) -> std::io::Result<usize> {
        if self.0.is_empty() || buf.is_empty() {
            return Ok(0);
        }
        buf[0] = self.0[0];
        self.0 = &self.0[1..];
        Ok(1)
    }
}

pub const CHANNELS: [&str; 15] = [
    "Json::from_reader(interrupted before every chunk)",
    "from_reader(interrupted before every chunk)",
    "from_str",
    "from_slice",
    "from_reader",
    "from_reader(1 byte at a time)",
    "from_value",
    "Json::from_slice",
    "Json::from_reader",
    "Json::deserialize",
    "Json::from_reader(1 byte at a time)",
    "Json::from_reader(7 bytes at a time)",
    "Json::from_reader(two chained halves)",
    "JsonPretty::from_reader(3 bytes at a time)",
    "JsonPretty::from_slice",
];

/// A reader that hands out at most `n` bytes per call (short reads before EOF).
struct Trickle<'a>(&'a [u8], usize);
impl Read for Trickle<'_> {
    fn read(&mut self, buf: &mut [u8]) -> std::io::Result<usize> {
        let n = self.1.min(buf.len()).min(self.0.len());
        buf[..n].copy_from_slice(&self.0[..n]);
        self.0 = &self.0[n..];
        Ok(n)
    }
}

/// A reader that fails with `ErrorKind::Interrupted` before every chunk of `n` bytes it hands out
/// (a signal arrived; the call is to be repeated).
struct Interrupted<'a>(&'a [u8], usize, bool);
impl Read for Interrupted<'_> {
    fn read(&mut self, buf: &mut [u8]) -> std::io::Result<usize> {
        if !self.2 {
            self.2 = true;
            return Err(std::io::Error::new(std::io::ErrorKind::Interrupted, "interrupted"));
        }
        self.2 = false;
        let n = self.1.min(buf.len()).min(self.0.len());
        buf[..n].copy_from_slice(&self.0[..n]);
        self.0 = &self.0[n..];
        Ok(n)
    }
}

fn decode<T: DeserializeOwned>(channel: &str, text: &str) -> Result<Option<T>, String> {
    let r = guard(|| -> Option<T> {
        match channel {
            "Json::from_reader(interrupted before every chunk)" => Json::from_reader(Interrupted(text.as_bytes(), 5, false)).ok(),
            "from_reader(interrupted before every chunk)" => serde_json::from_reader(Interrupted(text.as_bytes(), 4096, false)).ok(),
            "from_str" => serde_json::from_str(text).ok(),
            "from_slice" => serde_json::from_slice(text.as_bytes()).ok(),
            "from_reader" => serde_json::from_reader(text.as_bytes()).ok(),
            "from_reader(1 byte at a time)" => serde_json::from_reader(OneByte(text.as_bytes())).ok(),
            "from_value" => serde_json::from_str::<Value>(text).ok().and_then(|v| serde_json::from_value(v).ok()),
            "Json::from_slice" => Json::from_slice(text.as_bytes()).ok(),
            "Json::from_reader" => Json::from_reader(text.as_bytes()).ok(),
            "Json::from_reader(1 byte at a time)" => Json::from_reader(Trickle(text.as_bytes(), 1)).ok(),
            "Json::from_reader(7 bytes at a time)" => Json::from_reader(Trickle(text.as_bytes(), 7)).ok(),
            "Json::from_reader(two chained halves)" => {
                let b = text.as_bytes();
                let (x, y) = b.split_at(b.len() / 2);
                Json::from_reader(x.chain(y)).ok()
            }
            "JsonPretty::from_reader(3 bytes at a time)" => in_toto::interchange::JsonPretty::from_reader(Trickle(text.as_bytes(), 3)).ok(),
            "JsonPretty::from_slice" => in_toto::interchange::JsonPretty::from_slice(text.as_bytes()).ok(),
            _ => serde_json::from_str::<Value>(text).ok().and_then(|v| Json::deserialize(&v).ok()),
        }
    });
    match r {
        Guard::Done(v) => Ok(v),
        Guard::Panicked(l, m) => Err(format!("{l}: {m}")),
    }
}

#[derive(Clone, Copy, PartialEq)]
enum Style {
    Compact,
    Pretty,
    WsHeavy,
    AllU4,
    /// only the k-th string token (keys and values, in emission order) is \u-escaped
    Token(usize),
}

fn emit_string(s: &str, escape_all: bool, out: &mut String) {
    if !escape_all {
        out.push_str(&Value::String(s.to_string()).to_string());
        return;
    }
    out.push('"');
    for c in s.chars() {
        let mut buf = [0u16; 2];
        for u in c.encode_utf16(&mut buf) {
            out.push_str(&format!("\\u{:04X}", u));
        }
    }
    out.push('"');
}

fn emit(v: &Value, style: Style, counter: &mut usize, out: &mut String) {
    let ws = if style == Style::WsHeavy { " \n\t " } else { "" };
    out.push_str(ws);
    let mut string = |s: &str, out: &mut String| {
        let esc = match style {
            Style::AllU4 => true,
            Style::Token(k) => k == *counter,
            _ => false,
        };
        *counter += 1;
        emit_string(s, esc, out);
    };
    match v {
        Value::String(s) => string(s, out),
        Value::Array(a) => {
            out.push('[');
            for (i, e) in a.iter().enumerate() {
                if i > 0 {
                    out.push(',');
                }
                emit(e, style, counter, out);
            }
            out.push_str(ws);
            out.push(']');
        }
        Value::Object(o) => {
            out.push('{');
            let mut first = true;
            for (k, e) in o {
                if !first {
                    out.push(',');
                }
                first = false;
                out.push_str(ws);
                // keys
                let esc = match style {
                    Style::AllU4 => true,
                    Style::Token(t) => t == *counter,
                    _ => false,
                };
                *counter += 1;
                emit_string(k, esc, out);
                out.push_str(ws);
                out.push(':');
                emit(e, style, counter, out);
            }
            out.push_str(ws);
            out.push('}');
        }
        other => out.push_str(&other.to_string()),
    }
    out.push_str(ws);
}

fn count_strings(v: &Value) -> usize {
    match v {
        Value::String(_) => 1,
        Value::Array(a) => a.iter().map(count_strings).sum(),
        Value::Object(o) => o.len() + o.values().map(count_strings).sum::<usize>(),
        _ => 0,
    }
}

fn spellings(v: &Value, max_tokens: usize) -> Vec<(String, String)> {
    let mut out = vec![];
    for (name, st) in [("compact", Style::Compact), ("whitespace-heavy", Style::WsHeavy), ("all-strings-escaped", Style::AllU4)] {
        let mut s = String::new();
        emit(v, st, &mut 0, &mut s);
        out.push((name.to_string(), s));
    }
    out.push(("pretty".into(), serde_json::to_string_pretty(v).unwrap()));
    // the members of every object in reverse order (a JSON tree re-sorts them; a text does not)
    {
        fn rev(v: &Value, out: &mut String) {
            match v {
                Value::Array(a) => {
                    out.push('[');
                    for (i, e) in a.iter().enumerate() {
                        if i > 0 {
                            out.push(',');
                        }
                        rev(e, out);
                    }
                    out.push(']');
                }
                Value::Object(o) => {
                    out.push('{');
                    for (i, (k, e)) in o.iter().rev().enumerate() {
                        if i > 0 {
                            out.push(',');
                        }
                        out.push_str(&Value::String(k.clone()).to_string());
                        out.push(':');
                        rev(e, out);
                    }
                    out.push('}');
                }
                other => out.push_str(&other.to_string()),
            }
        }
        let mut s = String::new();
        rev(v, &mut s);
        out.push(("members-reversed".into(), s));
    }
    // data after a complete document: trailing whitespace is fine, anything else must be
    // judged the same way on every channel
    let compact = out[0].1.clone();
    out.push(("trailing-whitespace".into(), format!("{compact} \n\t")));
    out.push(("trailing-brace".into(), format!("{compact}}}")));
    out.push(("trailing-second-document".into(), format!("{compact}{compact}")));
    out.push(("trailing-garbage-after-newline".into(), format!("{compact}\nx")));
    out.push(("leading-whitespace".into(), format!("\n {compact}")));
    let n = count_strings(v);
    let stride = n.div_ceil(max_tokens.max(1)).max(1);
    for k in (0..n).step_by(stride) {
        let mut s = String::new();
        emit(v, Style::Token(k), &mut 0, &mut s);
        out.push((format!("token-{k}-escaped"), s));
    }
    out
}

/// Check one document for one type across all channels and spellings.
fn check<T: DeserializeOwned + PartialEq>(acc: &mut Acc, typ: &str, name: &str, doc: &Value, max_tokens: usize) {
    let sp = spellings(doc, max_tokens);
    let base: Option<T> = match decode::<T>("from_str", &sp[0].1) {
        Ok(b) => b,
        Err(e) => {
            acc.violation(&format!("panic:{}", e.split(": ").next().unwrap_or("?")), &format!("decoding panicked: {e}"), || json!({"type": typ, "document": name, "text": sp[0].1}));
            return;
        }
    };
    acc.outcome(if base.is_some() { "accepted" } else { "rejected" });
    if base.is_some() {
        acc.accepting += 1;
    }
    for (sname, text) in &sp {
        // a spelling of the same document is compared with the compact baseline; a text with
        // data after the document is a different input, compared with what from_str says about it
        let different_input = sname.starts_with("trailing-") && sname != "trailing-whitespace";
        let own_base: Option<T>;
        let base: &Option<T> = if different_input {
            own_base = decode::<T>("from_str", text).ok().flatten();
            &own_base
        } else {
            &base
        };
        for ch in CHANNELS {
            acc.evaluations += 1;
            let got = match decode::<T>(ch, text) {
                Ok(g) => g,
                Err(e) => {
                    acc.violation(&format!("panic:{}", e.split(": ").next().unwrap_or("?")), &format!("decoding panicked: {e}"), || json!({"type": typ, "document": name, "channel": ch, "spelling": sname, "text": text}));
                    continue;
                }
            };
            if &got != base {
                let sclass = if sname.starts_with("token-") {
                    "one-string-escaped"
                } else if sname.starts_with("trailing-") {
                    "trailing-data"
                } else {
                    sname.as_str()
                };
                let what = match (base, &got) {
                    (Some(_), None) => "accepted from compact text via from_str but rejected here",
                    (None, Some(_)) => "rejected from compact text via from_str but accepted here",
                    _ => "decodes to a different value",
                };
                // attribute to the channel when the compact spelling already differs there
                let compact_differs = !different_input && decode::<T>(ch, &sp[0].1).ok().map(|g| &g != base).unwrap_or(true);
                let key = if compact_differs { format!("channel-dependent:{typ}:{ch}") } else { format!("spelling-dependent:{typ}:{sclass}") };
                acc.violation(&key, &format!("{typ}: {what} (channel {ch}, spelling {sname})"), || json!({"type": typ, "document": name, "channel": ch, "spelling": sname, "text": text, "compact": sp[0].1}));
            }
        }
    }
}

/// One text as it is (no re-spelling: the text has number spellings a `Value` cannot keep),
/// every channel against `from_str`.
fn check_text<T: DeserializeOwned + PartialEq>(acc: &mut Acc, typ: &str, name: &str, text: &str) {
    let base: Option<T> = match decode::<T>("from_str", text) {
        Ok(b) => b,
        Err(e) => {
            acc.violation(&format!("panic:{}", e.split(": ").next().unwrap_or("?")), &format!("decoding panicked: {e}"), || json!({"type": typ, "document": name, "text": text}));
            return;
        }
    };
    acc.outcome(if base.is_some() { "accepted" } else { "rejected" });
    if base.is_some() {
        acc.accepting += 1;
    }
    for ch in CHANNELS {
        acc.evaluations += 1;
        match decode::<T>(ch, text) {
            Err(e) => acc.violation(&format!("panic:{}", e.split(": ").next().unwrap_or("?")), &format!("decoding panicked: {e}"), || json!({"type": typ, "document": name, "channel": ch, "text": text})),
            Ok(got) => {
                if got != base {
                    let what = match (&base, &got) {
                        (Some(_), None) => "accepted via from_str but rejected here",
                        (None, Some(_)) => "rejected via from_str but accepted here",
                        _ => "decodes to a different value",
                    };
                    acc.violation(&format!("channel-dependent:{typ}:{ch}"), &format!("{typ}: {what} (channel {ch}; {name})"), || json!({"type": typ, "document": name, "channel": ch, "as_text": true, "text": text}));
                }
            }
        }
    }
}

/// Texts in which one member name occurs twice in an object (the first or the last occurrence
/// carrying another value). A tree cannot hold such a document, so the tree channels are left
/// out; every text and byte channel - the library's own included - must treat it alike.
fn duplicate_member_texts(doc: &Value) -> Vec<(String, String)> {
    let mut out = vec![];
    let mut points: Vec<String> = vec![String::new()];
    if let Some(o) = doc.as_object() {
        for (k, v) in o {
            let k = k.replace('~', "~0").replace('/', "~1");
            match v {
                Value::Object(_) => points.push(format!("/{k}")),
                Value::Array(a) if a.first().map(|x| x.is_object()).unwrap_or(false) => points.push(format!("/{k}/0")),
                _ => {}
            }
        }
    }
    for pt in points {
        let Some(Value::Object(o)) = doc.pointer(&pt) else { continue };
        let sub = Value::Object(o.clone()).to_string();
        for (k, v) in o {
            let other = match v {
                Value::String(s) => json!(format!("{s}-second")),
                Value::Number(n) => json!(n.as_i64().unwrap_or(0) + 1),
                Value::Array(_) => json!(["second"]),
                Value::Object(_) => json!({"second": "x"}),
                Value::Bool(b) => json!(!b),
                Value::Null => json!("second"),
            };
            let member = format!("{}:{}", json!(k), other);
            let first = if sub.len() > 2 { format!("{{{member},{}", &sub[1..]) } else { continue };
            let last = format!("{},{member}}}", &sub[..sub.len() - 1]);
            for (which, subtext) in [("other value first", first), ("other value last", last)] {
                let mut d = doc.clone();
                let text = if pt.is_empty() {
                    subtext
                } else {
                    *d.pointer_mut(&pt).unwrap() = json!("@@DUP@@");
                    d.to_string().replace("\"@@DUP@@\"", &subtext)
                };
                out.push((format!("member {k:?} twice at {pt:?} ({which})"), text));
            }
        }
    }
    out
}

fn check_duplicates<T: DeserializeOwned + PartialEq>(acc: &mut Acc, typ: &str, doc: &Value, wrapper: bool) {
    for (name, text) in duplicate_member_texts(doc) {
        acc.nontrivial += 1;
        let base: Option<T> = decode::<T>("from_str", &text).ok().flatten();
        acc.outcome(if base.is_some() { "accepted" } else { "rejected" });
        for ch in CHANNELS.iter().filter(|c| **c != "from_value" && **c != "Json::deserialize") {
            acc.evaluations += 1;
            match decode::<T>(ch, &text) {
                Err(e) => acc.violation(&format!("panic:{}", e.split(": ").next().unwrap_or("?")), &format!("decoding panicked: {e}"), || json!({"type": typ, "document": name, "channel": ch, "text": text})),
                Ok(got) => {
                    if got != base {
                        acc.violation(&format!("channel-dependent:{typ}:{ch}"), &format!("{typ}: a text with a repeated member is treated differently by {ch} and from_str ({name})"), || json!({"type": typ, "document": name, "channel": ch, "as_text": true, "text": text}));
                    }
                }
            }
        }
        if wrapper {
            wrapper_channels_on_text(acc, &name, "repeated-member", &text, &text);
        }
    }
}

/// Channels the library itself chooses for one type: `MetadataWrapper::try_from_bytes`,
/// `MetadataWrapper::from_bytes` with the matching type, `MetablockBuilder::from_raw_metadata`.
fn check_wrapper_channels(acc: &mut Acc, name: &str, doc: &Value) {
    for (sname, text) in spellings(doc, 2) {
        wrapper_channels_on_text(acc, name, &sname, &text, &doc.to_string());
    }
}

fn wrapper_channels_on_text(acc: &mut Acc, name: &str, sname: &str, text: &str, compact: &str) {
    use in_toto::models::{MetablockBuilder, MetadataType};
    {
        let text = text.to_string();
        let base: Option<MetadataWrapper> = decode::<MetadataWrapper>("from_str", &text).ok().flatten();
        let via: Vec<(&str, Guard<Option<MetadataWrapper>>)> = vec![
            ("MetadataWrapper::try_from_bytes", guard(|| MetadataWrapper::try_from_bytes(text.as_bytes()).ok())),
            ("MetablockBuilder::from_raw_metadata", guard(|| MetablockBuilder::from_raw_metadata(text.as_bytes()).ok().map(|b| b.build().metadata))),
            ("MetadataWrapper::from_bytes(own type)", guard(|| match &base {
                // the type the text was read as; a text that is neither must be neither here too
                Some(MetadataWrapper::Layout(_)) => MetadataWrapper::from_bytes(text.as_bytes(), MetadataType::Layout).ok(),
                Some(MetadataWrapper::Link(_)) => MetadataWrapper::from_bytes(text.as_bytes(), MetadataType::Link).ok(),
                None => MetadataWrapper::from_bytes(text.as_bytes(), MetadataType::Layout).ok().or(MetadataWrapper::from_bytes(text.as_bytes(), MetadataType::Link).ok()),
            })),
        ];
        for (ch, got) in via {
            acc.evaluations += 1;
            match got {
                Guard::Panicked(l, m) => acc.violation(&format!("panic:{l}"), &format!("decoding panicked: {m}"), || json!({"type": "MetadataWrapper", "document": name, "channel": ch, "spelling": sname, "text": text})),
                Guard::Done(g) => {
                    if g != base {
                        acc.violation(&format!("channel-dependent:MetadataWrapper:{ch}"), &format!("MetadataWrapper: {ch} and from_str disagree on the same text (spelling {sname})"), || json!({"type": "MetadataWrapper", "document": name, "channel": ch, "spelling": sname, "text": text, "compact": compact}));
                    }
                }
            }
        }
    }
}

/// Inputs that are bytes but not text: every byte channel must judge them alike (baseline
/// serde_json::from_slice): a byte-order mark, an invalid UTF-8 byte inside a string, a raw control
/// character inside a string, a trailing NUL, UTF-16.
fn check_bytes<T: DeserializeOwned + PartialEq>(acc: &mut Acc, typ: &str, name: &str, doc: &Value) {
    let compact = doc.to_string().into_bytes();
    let first_quote = compact.iter().position(|b| *b == b'"').map(|i| i + 1).unwrap_or(0);
    // inside the first string *value* (after `":"`) and just before the end of the last string
    let first_value = compact.windows(3).position(|w| w == b"\":\"").map(|i| i + 3).unwrap_or(first_quote);
    let last_string_end = compact.iter().rposition(|b| *b == b'"').unwrap_or(first_quote);
    let with = |at: usize, ins: &[u8]| -> Vec<u8> {
        let mut v = compact[..at].to_vec();
        v.extend_from_slice(ins);
        v.extend_from_slice(&compact[at..]);
        v
    };
    let variants: Vec<(&str, Vec<u8>)> = vec![
        ("utf8-bom", with(0, &[0xef, 0xbb, 0xbf])),
        ("0xff-inside-a-string", with(first_quote, &[0xff])),
        ("0xc0-0x80-inside-a-string", with(first_quote, &[0xc0, 0x80])),
        ("raw-control-character-inside-a-string", with(first_quote, &[0x01])),
        ("0xff-inside-the-first-string-value", with(first_value, &[0xff])),
        ("latin-1-e-acute-inside-the-first-string-value", with(first_value, &[0xe9])),
        ("truncated-multi-byte-sequence-at-the-end-of-the-last-string", with(last_string_end, &[0xe2, 0x82])),
        ("0xff-at-the-end-of-the-last-string", with(last_string_end, &[0xff])),
        ("trailing-nul", with(compact.len(), &[0])),
        ("utf16-le", String::from_utf8_lossy(&compact).encode_utf16().flat_map(|u| u.to_le_bytes()).collect()),
        ("lone-high-surrogate-escape", with(first_quote, b"\\ud800")),
    ];
    for (vname, bytes) in variants {
        let base: Option<T> = serde_json::from_slice(&bytes).ok();
        let chans: Vec<(&str, Guard<Option<T>>)> = vec![
            ("from_reader", guard(|| serde_json::from_reader(&bytes[..]).ok())),
            ("Json::from_slice", guard(|| Json::from_slice(&bytes).ok())),
            ("Json::from_reader", guard(|| Json::from_reader(&bytes[..]).ok())),
            ("Json::from_reader(3 bytes at a time)", guard(|| Json::from_reader(Trickle(&bytes, 3)).ok())),
            ("JsonPretty::from_slice", guard(|| in_toto::interchange::JsonPretty::from_slice(&bytes).ok())),
            ("JsonPretty::from_reader", guard(|| in_toto::interchange::JsonPretty::from_reader(&bytes[..]).ok())),
        ];
        for (ch, got) in chans {
            acc.evaluations += 1;
            let w = || json!({"type": typ, "document": name, "channel": ch, "byte_variant": vname, "compact": doc.to_string()});
            match got {
                Guard::Panicked(l, m) => acc.violation(&format!("panic:{l}"), &format!("decoding panicked: {m}"), w),
                Guard::Done(g) => {
                    if g != base {
                        acc.violation(&format!("channel-dependent:{typ}:{ch}"), &format!("{typ}: bytes that are not text ({vname}) are judged differently by {ch} and by from_slice"), w);
                    }
                }
            }
        }
    }
}

fn node_mutations(v: &Value) -> Vec<Value> {
    // every node replaced by each of a few values, every member deleted (first two levels)
    let mut out = vec![];
    let repl = [Value::Null, json!(0), json!(""), json!([]), json!({}), json!("x"), json!(1.5)];
    if let Some(o) = v.as_object() {
        for k in o.keys() {
            let mut d = v.clone();
            d.as_object_mut().unwrap().remove(k);
            out.push(d);
            for r in &repl {
                let mut d = v.clone();
                d[k] = r.clone();
                out.push(d);
            }
            if let Some(inner) = o[k].as_object() {
                for k2 in inner.keys() {
                    let mut d = v.clone();
                    d[k].as_object_mut().unwrap().remove(k2);
                    out.push(d);
                    for r in &repl[..4] {
                        let mut d = v.clone();
                        d[k][k2] = r.clone();
                        out.push(d);
                    }
                }
            }
        }
    }
    out
}

pub fn run(tier: Tier) -> i32 {
    let mut c = Check::new("C17", "exploration", tier);
    let thorough = tier.thorough();
    let max_tokens = if thorough { 400 } else { 24 };
    // ---- collect (type tag, name, document)
    let mut jobs: Vec<(&'static str, String, Value)> = vec![];
    let mut jobs_text: Vec<(&'static str, String, String)> = vec![];
    let mut bytes_jobs: Vec<(&'static str, String, Value)> = vec![];
    for (n, t) in c16::documents(false) {
        let Ok(v) = serde_json::from_str::<Value>(&t) else { continue };
        let is_link = n.starts_with("link/");
        jobs.push(("MetadataWrapper", n.clone(), v.clone()));
        jobs.push((if is_link { "LinkMetadata" } else { "LayoutMetadata" }, n, v));
    }
    for (i, r) in c16::all_rules().iter().enumerate() {
        jobs.push(("ArtifactRule", format!("rule#{i}"), serde_json::to_value(r).unwrap()));
    }
    // malformed rules (must be rejected on every channel)
    for (i, r) in [json!(["CREATE"]), json!(["MATCH", "a", "WITH"]), json!(["MATCH", "a", "IN", "s", "WITH", "PRODUCTS"]), json!(["match", "a", "WITH", "PRODUCTS", "FROM", "s"]), json!(["MATCH", "a", "WITH", "OTHER", "FROM", "s"]), json!([]), json!(["CREATE", 1]), json!({"CREATE": "a"})].into_iter().enumerate() {
        jobs.push(("ArtifactRule", format!("bad-rule#{i}"), r));
    }
    let la = &c16::layouts(false);
    for (n, l) in la.iter().step_by(97) {
        for s in &l.steps {
            jobs.push(("Step", n.clone(), serde_json::to_value(s).unwrap()));
        }
        for s in &l.inspect {
            jobs.push(("Inspection", n.clone(), serde_json::to_value(s).unwrap()));
        }
    }
    let signers = [keys::get("ed1"), keys::get("rsa256a")];
    for (n, l) in c16::links(false).into_iter().step_by(if thorough { 9 } else { 41 }) {
        if n.contains("other-field-named") {
            continue;
        }
        jobs.push(("ByProducts", n.clone(), serde_json::to_value(&l.byproducts).unwrap()));
        jobs.push(("Metablock", n, world::block_value(&world::sign_link(l, &signers))));
    }
    for (n, l) in la.iter().step_by(if thorough { 29 } else { 131 }) {
        jobs.push(("Metablock", n.clone(), world::block_value(&world::sign_layout(l.clone(), &signers))));
    }
    for k in keys::all() {
        jobs.push(("PublicKey", k.name.to_string(), serde_json::to_value(k.public()).unwrap()));
        let sig = world::sign_link(world::link("s", Default::default(), Default::default()), &[k]);
        jobs.push(("Signature", k.name.to_string(), serde_json::to_value(&sig.signatures[0]).unwrap()));
    }
    let preds = c19::predicate_docs();
    for (n, d) in preds.iter().step_by(if thorough { 1 } else { 3 }) {
        jobs.push(("PredicateWrapper", n.clone(), d.clone()));
        let typed = if n.starts_with("link02") { "LinkV02" } else if n.starts_with("slsa01") { "SLSAProvenanceV01" } else { "SLSAProvenanceV02" };
        jobs.push((typed, n.clone(), d.clone()));
    }
    for (n, d) in c19::naive_docs().into_iter().step_by(2) {
        jobs.push(("StatementWrapper", n.clone(), d.clone()));
        jobs.push(("StateNaive", n, d));
    }
    for (n, d, _, _) in c19::v01_statement_docs().into_iter().step_by(if thorough { 1 } else { 3 }) {
        jobs.push(("StatementWrapper", n.clone(), d.clone()));
        jobs.push(("StateV01", n, d));
    }
    // rejected documents: node mutations of three fixtures
    let fixtures: Vec<(&'static str, Value)> = vec![
        ("MetadataWrapper", serde_json::to_value(&c16::links(false)[40].1).unwrap()),
        ("MetadataWrapper", serde_json::to_value(&la[10].1).unwrap()),
        ("Metablock", world::block_value(&world::sign_link(world::link("s", world::arts(&[("a", 1)]), world::arts(&[("b", 2)])), &signers))),
        ("PredicateWrapper", preds[150].1.clone()),
    ];
    for (t, f) in &fixtures {
        for (i, m) in node_mutations(f).into_iter().enumerate() {
            jobs.push((t, format!("mutation#{i}"), m));
        }
    }
    // key ids that are not 64 characters long (or are, but not lower-case hex), wherever a key id is read
    {
        let good_sig = serde_json::to_value(&world::sign_link(world::link("s", Default::default(), Default::default()), &[keys::get("ed1")]).signatures[0]).unwrap();
        let good_id = good_sig["keyid"].as_str().unwrap().to_string();
        let block = world::block_value(&world::sign_link(world::link("s", world::arts(&[("a", 1)]), world::arts(&[("b", 2)])), &signers));
        let lay = serde_json::to_value(&la[10].1).unwrap();
        let step = serde_json::to_value(world::step("s", 1, &[keys::get("ed1")])).unwrap();
        for (vn, kid) in [("empty", String::new()), ("8-chars", good_id[..8].to_string()), ("63-chars", good_id[..63].to_string()), ("65-chars", format!("{good_id}0")), ("upper-case", good_id.to_uppercase()), ("64-non-hex", "z".repeat(64)), ("64-bytes-multibyte", "é".repeat(32)), ("128-chars", good_id.repeat(2))] {
            let mut s = good_sig.clone();
            s["keyid"] = json!(kid);
            jobs.push(("Signature", format!("keyid:{vn}"), s));
            let mut b = block.clone();
            b["signatures"][0]["keyid"] = json!(kid);
            jobs.push(("Metablock", format!("signatures[0].keyid:{vn}"), b));
            let mut st = step.clone();
            st["pubkeys"][0] = json!(kid);
            jobs.push(("Step", format!("pubkeys[0]:{vn}"), st.clone()));
            let mut l = lay.clone();
            if l["steps"].as_array().map(|a| !a.is_empty()).unwrap_or(false) {
                l["steps"][0] = st;
            } else {
                l["steps"] = json!([st]);
            }
            jobs.push(("LayoutMetadata", format!("steps[0].pubkeys[0]:{vn}"), l.clone()));
            jobs.push(("MetadataWrapper", format!("steps[0].pubkeys[0]:{vn}"), l));
        }
    }
    // members the models do not know (skipped, whatever their value): every kind of JSON value,
    // in particular the number classes (fractions, exponents, integers beyond 64 bits), at the top
    // level and inside the first nested object / array element
    {
        let unknown_values: Vec<(&str, &str)> = vec![
            ("fraction", "0.5"), ("one-point-zero", "1.0"), ("negative-fraction", "-2.25"), ("exponent", "1e3"), ("negative-exponent", "25E-1"), ("beyond-u64", "18446744073709551616"), ("below-i64", "-9223372036854775809"), ("u64-max", "18446744073709551615"), ("i64-min", "-9223372036854775808"),
            ("huge-exponent", "1e308"), ("minus-zero", "-0"), ("minus-zero-point", "-0.0"), ("null", "null"), ("true", "true"), ("string", "\"s\""), ("empty-array", "[]"), ("empty-object", "{}"), ("array-of-fraction", "[1.5]"), ("nested-fraction", "{\"a\":{\"b\":[2.5e0]}}"),
        ];
        let block = world::block_value(&world::sign_link(world::link("s", world::arts(&[("a", 1)]), world::arts(&[("b", 2)])), &signers));
        let bases: Vec<(&'static str, Value)> = vec![
            ("MetadataWrapper", serde_json::to_value(&c16::links(false)[40].1).unwrap()),
            ("LinkMetadata", serde_json::to_value(&c16::links(false)[40].1).unwrap()),
            ("MetadataWrapper", serde_json::to_value(&la[10].1).unwrap()),
            ("LayoutMetadata", serde_json::to_value(&la[10].1).unwrap()),
            ("Metablock", block.clone()),
            ("Step", serde_json::to_value(world::step("s", 1, &[keys::get("ed1")]).add_expected_product(ArtifactRule::Allow("*".into()))).unwrap()),
            ("Inspection", serde_json::to_value(Inspection::new("i").run(vec!["true".to_string()].into())).unwrap()),
            ("Signature", block["signatures"][0].clone()),
            ("PublicKey", serde_json::to_value(keys::get("ed1").public()).unwrap()),
            ("PublicKey", serde_json::to_value(keys::get("rsa256a").public()).unwrap()),
            ("ByProducts", json!({"return-value": 0, "stdout": "", "stderr": ""})),
            ("PredicateWrapper", preds[150].1.clone()),
            ("PredicateWrapper", preds[0].1.clone()),
        ];
        for (typ, base) in &bases {
            // bytes that are not text, on these documents always (the strided selection below may or
            // may not hit a document whose first string is one the decoder does not need)
            bytes_jobs.push((typ, "representative".to_string(), base.clone()));
            // insertion points: the document itself, and every object one or two levels down
            let mut points: Vec<String> = vec![String::new()];
            if let Some(o) = base.as_object() {
                for (k, v) in o {
                    let k = k.replace('~', "~0").replace('/', "~1");
                    match v {
                        Value::Object(inner) => {
                            points.push(format!("/{k}"));
                            if let Some((k2, Value::Object(_))) = inner.iter().next() {
                                points.push(format!("/{k}/{}", k2.replace('~', "~0").replace('/', "~1")));
                            }
                        }
                        Value::Array(a) if a.first().map(|x| x.is_object()).unwrap_or(false) => points.push(format!("/{k}/0")),
                        _ => {}
                    }
                }
            }
            for pt in &points {
                for (vn, vt) in &unknown_values {
                    let mut d = base.clone();
                    // serde_json::Value cannot hold every spelling (1.0 stays, 1e3 becomes 1000.0):
                    // the member is spliced into the text instead
                    let Some(Value::Object(o)) = d.pointer_mut(pt) else { continue };
                    o.insert("x-unknown-member".into(), json!("@@SPLICE@@"));
                    let text = d.to_string().replace("\"@@SPLICE@@\"", vt);
                    jobs_text.push((typ, format!("unknown member at {pt:?} = {vn}"), text));
                }
            }
        }
    }
    // large documents: a link whose captured output is 70 KB / 1.1 MB
    for size in if thorough { vec![70_000usize, 1_100_000, 4_300_000] } else { vec![70_000usize, 1_100_000] } {
        let mut l = world::link("s", world::arts(&[("a", 1)]), world::arts(&[("b", 2)]));
        let big: String = (0..size).map(|i| ['a', 'b', '\n', 'c'][i % 4]).collect();
        l.byproducts = l.byproducts.clone().set_stdout(big);
        let v = serde_json::to_value(&l).unwrap();
        jobs.push(("LinkMetadata", format!("stdout of {size} characters"), v.clone()));
        jobs.push(("MetadataWrapper", format!("stdout of {size} characters"), v.clone()));
        jobs.push(("Metablock", format!("stdout of {size} characters"), world::block_value(&world::sign_link(l, &signers[..1]))));
    }
    let accs = util::par_fold(&jobs, Acc::new, |acc, i, (typ, name, doc)| {
        acc.nontrivial += 1;
        let max_tokens = if name.starts_with("stdout of") { 3 } else { max_tokens };
        if *typ == "MetadataWrapper" && (i % 7 == 0 || name.starts_with("stdout of") || name.starts_with("steps[0]")) {
            check_wrapper_channels(acc, name, doc);
        }
        if i % 23 == 0 {
            match *typ {
                "MetadataWrapper" => check_bytes::<MetadataWrapper>(acc, typ, name, doc),
                "Metablock" => check_bytes::<Metablock>(acc, typ, name, doc),
                "PublicKey" => check_bytes::<PublicKey>(acc, typ, name, doc),
                "PredicateWrapper" => check_bytes::<PredicateWrapper>(acc, typ, name, doc),
                "ArtifactRule" => check_bytes::<ArtifactRule>(acc, typ, name, doc),
                _ => {}
            }
        }
        match *typ {
            "MetadataWrapper" => check::<MetadataWrapper>(acc, typ, name, doc, max_tokens),
            "LinkMetadata" => check::<LinkMetadata>(acc, typ, name, doc, max_tokens),
            "LayoutMetadata" => check::<LayoutMetadata>(acc, typ, name, doc, max_tokens),
            "ArtifactRule" => check::<ArtifactRule>(acc, typ, name, doc, max_tokens),
            "Step" => check::<Step>(acc, typ, name, doc, max_tokens),
            "Inspection" => check::<Inspection>(acc, typ, name, doc, max_tokens),
            "ByProducts" => check::<ByProducts>(acc, typ, name, doc, max_tokens),
            "Metablock" => check::<Metablock>(acc, typ, name, doc, max_tokens),
            "PublicKey" => check::<PublicKey>(acc, typ, name, doc, max_tokens),
            "Signature" => check::<Signature>(acc, typ, name, doc, max_tokens),
            "PredicateWrapper" => check::<PredicateWrapper>(acc, typ, name, doc, max_tokens),
            "LinkV02" => check::<LinkV02>(acc, typ, name, doc, max_tokens),
            "SLSAProvenanceV01" => check::<SLSAProvenanceV01>(acc, typ, name, doc, max_tokens),
            "SLSAProvenanceV02" => check::<SLSAProvenanceV02>(acc, typ, name, doc, max_tokens),
            "StatementWrapper" => check::<StatementWrapper>(acc, typ, name, doc, max_tokens),
            "StateNaive" => check::<StateNaive>(acc, typ, name, doc, max_tokens),
            "StateV01" => check::<StateV01>(acc, typ, name, doc, max_tokens),
            _ => {}
        }
        if i % 700 == 5 {
            acc.sample(|| json!({"type": typ, "document": name, "compact": doc.to_string(), "channels": CHANNELS}));
        }
    });
    c.acc = Acc::merge_all(accs);
    let accs = util::par_fold(&jobs_text, Acc::new, |acc, _i, (typ, name, text)| {
        acc.nontrivial += 1;
        match *typ {
            "MetadataWrapper" => check_text::<MetadataWrapper>(acc, typ, name, text),
            "LinkMetadata" => check_text::<LinkMetadata>(acc, typ, name, text),
            "LayoutMetadata" => check_text::<LayoutMetadata>(acc, typ, name, text),
            "Step" => check_text::<Step>(acc, typ, name, text),
            "Inspection" => check_text::<Inspection>(acc, typ, name, text),
            "ByProducts" => check_text::<ByProducts>(acc, typ, name, text),
            "Metablock" => check_text::<Metablock>(acc, typ, name, text),
            "PublicKey" => check_text::<PublicKey>(acc, typ, name, text),
            "Signature" => check_text::<Signature>(acc, typ, name, text),
            "PredicateWrapper" => check_text::<PredicateWrapper>(acc, typ, name, text),
            _ => {}
        }
    });
    c.acc.merge(Acc::merge_all(accs));
    {
        let mut acc = Acc::new();
        for (typ, name, doc) in &bytes_jobs {
            match *typ {
                "MetadataWrapper" => check_bytes::<MetadataWrapper>(&mut acc, typ, name, doc),
                "LinkMetadata" => check_bytes::<LinkMetadata>(&mut acc, typ, name, doc),
                "LayoutMetadata" => check_bytes::<LayoutMetadata>(&mut acc, typ, name, doc),
                "Metablock" => check_bytes::<Metablock>(&mut acc, typ, name, doc),
                "Step" => check_bytes::<Step>(&mut acc, typ, name, doc),
                "Inspection" => check_bytes::<Inspection>(&mut acc, typ, name, doc),
                "Signature" => check_bytes::<Signature>(&mut acc, typ, name, doc),
                "PublicKey" => check_bytes::<PublicKey>(&mut acc, typ, name, doc),
                "ByProducts" => check_bytes::<ByProducts>(&mut acc, typ, name, doc),
                "PredicateWrapper" => check_bytes::<PredicateWrapper>(&mut acc, typ, name, doc),
                _ => {}
            }
        }
        c.acc.merge(acc);
    }
    // repeated members (text and byte channels only)
    {
        let mut acc = Acc::new();
        let link = serde_json::to_value(&c16::links(false)[40].1).unwrap();
        let lay = serde_json::to_value(&la[10].1).unwrap();
        let lay2 = serde_json::to_value(world::layout(vec![world::step("s", 1, &[keys::get("ed1")])], vec![Inspection::new("i").run(vec!["true".to_string()].into())], &[keys::get("ed1")], world::far_future())).unwrap();
        let block = world::block_value(&world::sign_link(world::link("s", world::arts(&[("a", 1)]), world::arts(&[("b", 2)])), &signers));
        check_duplicates::<MetadataWrapper>(&mut acc, "MetadataWrapper", &link, true);
        check_duplicates::<LinkMetadata>(&mut acc, "LinkMetadata", &link, false);
        check_duplicates::<MetadataWrapper>(&mut acc, "MetadataWrapper", &lay, true);
        check_duplicates::<MetadataWrapper>(&mut acc, "MetadataWrapper", &lay2, true);
        check_duplicates::<LayoutMetadata>(&mut acc, "LayoutMetadata", &lay2, false);
        check_duplicates::<Metablock>(&mut acc, "Metablock", &block, false);
        check_duplicates::<PublicKey>(&mut acc, "PublicKey", &serde_json::to_value(keys::get("ed1").public()).unwrap(), false);
        c.acc.merge(acc);
    }
    c.acc.note_n("documents", jobs.len() as u64);
    c.acc.note_n("documents_with_unknown_members", jobs_text.len() as u64);
    c.rule = format!("documents: all C16 text documents (as MetadataWrapper and as Link/LayoutMetadata), every rule form standalone plus malformed rules, steps, inspections, byproducts, signed blocks, all fixture keys and signatures, C19 predicates and statements (through the wrappers and the typed structs), and node-level mutations of four fixtures (mostly rejected); each in spellings compact / pretty / whitespace-heavy / object members in reverse order / all strings \\u-escaped / one string token escaped at a time (up to {max_tokens} tokens per document) x 15 channels (incl. readers that return short reads and readers that are interrupted before every chunk), plus for MetadataWrapper the channels try_from_bytes / from_bytes / MetablockBuilder::from_raw_metadata; byte inputs that are not text (BOM, invalid UTF-8 in a member name / in the first string value / at the end of the last string, raw control character, trailing NUL, UTF-16, lone surrogate) through 7 byte channels on every 23rd document and on one representative document of each of 10 types; key ids of 8 wrong shapes wherever a key id is read; texts with one member name twice in an object (top level, nested objects, first array element; the other value first / last) on the 13 text and byte channels and the library's own byte channels; 13 documents x insertion points (top level, nested objects, first array element) x 19 values of a member the models do not know (fractions, exponents, integers beyond 64 bits, -0, null, containers), as text, x 15 channels; links with 70 KB and 1.1 MB (thorough: and 4.3 MB) of captured output; baseline = from_str on the compact spelling. distinct_nontrivial = (type, document) pairs");
    c.bound_completed = "complete within the listed documents".into();
    c.assume("serde_json's own parsing is identical across channels for serde_json::Value (the from_value and Json::deserialize channels go through it)");
    c.finish()
}

pub fn replay(case: &Value) -> Value {
    let mut acc = Acc::new();
    let compact = case["compact"].as_str().or(case["text"].as_str()).unwrap_or("null");
    let Ok(doc) = serde_json::from_str::<Value>(compact) else { return json!({"violation": null}) };
    let typ = case["type"].as_str().unwrap_or("");
    match typ {
        "MetadataWrapper" => check::<MetadataWrapper>(&mut acc, typ, "replay", &doc, 400),
        "LinkMetadata" => check::<LinkMetadata>(&mut acc, typ, "replay", &doc, 400),
        "LayoutMetadata" => check::<LayoutMetadata>(&mut acc, typ, "replay", &doc, 400),
        "ArtifactRule" => check::<ArtifactRule>(&mut acc, typ, "replay", &doc, 400),
        "Metablock" => check::<Metablock>(&mut acc, typ, "replay", &doc, 400),
        "PredicateWrapper" => check::<PredicateWrapper>(&mut acc, typ, "replay", &doc, 400),
        "SLSAProvenanceV01" => check::<SLSAProvenanceV01>(&mut acc, typ, "replay", &doc, 400),
        "SLSAProvenanceV02" => check::<SLSAProvenanceV02>(&mut acc, typ, "replay", &doc, 400),
        "StatementWrapper" => check::<StatementWrapper>(&mut acc, typ, "replay", &doc, 400),
        "StateV01" => check::<StateV01>(&mut acc, typ, "replay", &doc, 400),
        "Step" => check::<Step>(&mut acc, typ, "replay", &doc, 400),
        "Inspection" => check::<Inspection>(&mut acc, typ, "replay", &doc, 400),
        _ => {}
    }
    json!({"violation": acc.violations.keys().next()})
}
