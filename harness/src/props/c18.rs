//! C18 — recorded artifacts are exactly the files present, with their true digests.
//!
//! E1 over filesystem operation histories: a state is a directory tree built by
//! appending one node (directory, file with content from a size alphabet,
//! absolute or relative symlink to a file / directory / ancestor / symlink);
//! states are deduplicated on the sorted listing. For every tree a menu of
//! (path list, strip-prefix list, algorithm list) queries is run through the
//! real `record_artifacts` in a worker process whose cwd is the case root, and
//! compared with an independent walker. A second leg runs `in_toto_run`.

use std::collections::{BTreeMap, BTreeSet, VecDeque};
use std::path::{Path, PathBuf};

use in_toto::runlib::{in_toto_run, record_artifacts};
use serde_json::{json, Value};

use crate::report::{Acc, Check, Tier};
use crate::util::{self, guard, Guard};
use crate::worker::{self, WorkerResult};

// ------------------------------------------------------------------ trees

#[derive(Clone, Debug, PartialEq, Eq, Hash, PartialOrd, Ord)]
pub enum Desc {
    Dir,
    File(usize),
    /// target path relative to the tree root ("" = the root itself), absolute?
    Link(String, bool),
}

pub type Tree = BTreeMap<String, Desc>;

/// Names are assigned in a fixed order inside each directory (first child
/// `a`, then `ab` - which shares a prefix with it -, `.h`, `e é`); symmetric
/// renamings are not enumerated.
const NAMES: [&str; 4] = ["a", "ab", ".h", "e é"];

pub fn content(idx: usize) -> Vec<u8> {
    let n = [0usize, 1, 1023, 1024, 1025, 4097, 8193, 70001][idx % 8];
    // all byte values, with CR LF pairs, NUL and invalid UTF-8 among them
    (0..n).map(|i| if i % 97 == 5 { b'\r' } else if i % 97 == 6 { b'\n' } else { ((i * 7 + 13) % 256) as u8 }).collect()
}

fn children<'a>(t: &'a Tree, dir: &str) -> Vec<&'a String> {
    t.keys().filter(|p| parent_of(p) == dir).collect()
}

fn parent_of(p: &str) -> &str {
    match p.rfind('/') {
        Some(i) => &p[..i],
        None => "",
    }
}

fn depth(p: &str) -> usize {
    if p.is_empty() {
        0
    } else {
        p.matches('/').count() + 1
    }
}

fn successors(t: &Tree, contents: &[usize]) -> Vec<Tree> {
    let mut out = vec![];
    let mut dirs: Vec<String> = vec![String::new()];
    dirs.extend(t.iter().filter(|(_, d)| **d == Desc::Dir).map(|(p, _)| p.clone()));
    for d in &dirs {
        let n = children(t, d).len();
        if n >= NAMES.len() {
            continue;
        }
        let path = if d.is_empty() { NAMES[n].to_string() } else { format!("{d}/{}", NAMES[n]) };
        let mut add = |desc: Desc| {
            let mut t2 = t.clone();
            t2.insert(path.clone(), desc);
            out.push(t2);
        };
        if depth(d) < 2 {
            add(Desc::Dir);
        }
        for c in contents {
            add(Desc::File(*c));
        }
        // symlink targets: every existing node, and every ancestor of `d` incl. the root
        let mut targets: BTreeSet<String> = t.keys().cloned().collect();
        let mut anc = d.clone();
        loop {
            targets.insert(anc.clone());
            if anc.is_empty() {
                break;
            }
            anc = parent_of(&anc).to_string();
        }
        for tg in targets {
            for abs in [false, true] {
                add(Desc::Link(tg.clone(), abs));
            }
        }
    }
    out
}

pub fn enumerate(max_nodes: usize, cap: usize) -> (Vec<Tree>, u64, bool) {
    let mut seen: BTreeSet<Tree> = BTreeSet::new();
    let mut order = vec![];
    let mut q = VecDeque::new();
    let empty = Tree::new();
    seen.insert(empty.clone());
    q.push_back(empty);
    let mut transitions = 0u64;
    let mut capped = false;
    while let Some(t) = q.pop_front() {
        if t.len() >= max_nodes {
            continue;
        }
        // one-node trees get the whole content alphabet, larger ones two sizes
        let contents: Vec<usize> = if t.is_empty() { (0..8).collect() } else { vec![1, 4] };
        for s in successors(&t, &contents) {
            transitions += 1;
            if seen.len() >= cap {
                capped = true;
                continue;
            }
            if seen.insert(s.clone()) {
                order.push(s.clone());
                q.push_back(s);
            }
        }
    }
    (order, transitions, capped)
}

fn tree_json(t: &Tree) -> Value {
    Value::Array(
        t.iter()
            .map(|(p, d)| match d {
                Desc::Dir => json!({"path": p, "kind": "dir"}),
                Desc::File(c) => json!({"path": p, "kind": "file", "content": c}),
                Desc::Link(tg, abs) => json!({"path": p, "kind": "symlink", "target": tg, "absolute": abs}),
            })
            .collect(),
    )
}

fn tree_from_json(v: &Value) -> Tree {
    let mut t = Tree::new();
    for n in v.as_array().cloned().unwrap_or_default() {
        let p = n["path"].as_str().unwrap_or("").to_string();
        let d = match n["kind"].as_str() {
            Some("dir") => Desc::Dir,
            Some("file") => Desc::File(n["content"].as_u64().unwrap_or(0) as usize),
            _ => Desc::Link(n["target"].as_str().unwrap_or("").to_string(), n["absolute"].as_bool().unwrap_or(false)),
        };
        t.insert(p, d);
    }
    t
}

/// Materialise under `root/t`.
fn build(root: &Path, t: &Tree) {
    let base = root.join("t");
    std::fs::create_dir_all(&base).unwrap();
    // BTreeMap order puts parents before children
    for (p, d) in t {
        let full = base.join(p);
        match d {
            Desc::Dir => std::fs::create_dir_all(&full).unwrap(),
            Desc::File(c) => std::fs::write(&full, content(*c)).unwrap(),
            Desc::Link(tg, abs) => {
                let target: PathBuf = if *abs {
                    if tg.is_empty() {
                        base.clone()
                    } else {
                        base.join(tg)
                    }
                } else {
                    // relative to the directory that contains the link
                    let up = depth(parent_of(p));
                    let mut r = PathBuf::new();
                    for _ in 0..up {
                        r.push("..");
                    }
                    if !tg.is_empty() {
                        r.push(tg);
                    }
                    if r.as_os_str().is_empty() {
                        r.push(".");
                    }
                    r
                };
                std::os::unix::fs::symlink(&target, &full).unwrap();
            }
        }
    }
}

// ------------------------------------------------------- reference walker

#[derive(Debug, Clone, PartialEq)]
pub enum Expect {
    Map(BTreeMap<String, BTreeMap<String, String>>),
    Error(&'static str),
    /// One real file reached through two different paths that get the same
    /// key: the statement does not say whether that is one entry or an error.
    MapOrError(BTreeMap<String, BTreeMap<String, String>>),
}

fn clean(p: &str) -> String {
    path_clean::clean(p).to_string_lossy().to_string()
}

fn strip<'a>(p: &'a str, strips: Option<&[String]>) -> &'a str {
    let Some(s) = strips else { return p };
    let mut best: Option<&String> = None;
    for l in s {
        if p.starts_with(l.as_str()) && best.map(|b| l.len() > b.len()).unwrap_or(true) {
            best = Some(l);
        }
    }
    match best {
        Some(b) => &p[b.len()..],
        None => p,
    }
}

fn digests(bytes: &[u8], algs: &[&str]) -> BTreeMap<String, String> {
    algs.iter()
        .map(|a| (a.to_string(), util::hex(&if *a == "sha512" { util::sha512(bytes) } else { util::sha256(bytes) })))
        .collect()
}

pub fn fswalk(paths: &[String], strips: Option<&[String]>, algs: Option<&[String]>) -> Expect {
    let algs: Vec<&str> = match algs {
        None => vec!["sha256"],
        Some(a) => {
            if a.iter().any(|x| x != "sha256" && x != "sha512") {
                return Expect::Error("unknown-algorithm");
            }
            a.iter().map(|s| s.as_str()).collect()
        }
    };
    let mut out: BTreeMap<String, BTreeMap<String, String>> = BTreeMap::new();
    let mut owner: BTreeMap<String, (PathBuf, String)> = BTreeMap::new();
    let mut ambiguous = false;
    fn walk(p: &str, stack: &mut Vec<PathBuf>, visit: &mut dyn FnMut(&str) -> Result<(), &'static str>) -> Result<(), &'static str> {
        let meta = match std::fs::metadata(p) {
            Ok(m) => m,
            Err(_) => return Err("not-found"),
        };
        if meta.is_file() {
            return visit(p);
        }
        if meta.is_dir() {
            let real = std::fs::canonicalize(p).map_err(|_| "not-found")?;
            if stack.contains(&real) {
                return Ok(()); // a link back to an ancestor: tolerated, skipped
            }
            stack.push(real);
            let mut names: Vec<String> = std::fs::read_dir(p).map_err(|_| "not-found")?.flatten().map(|e| e.file_name().to_string_lossy().to_string()).collect();
            names.sort();
            for n in names {
                walk(&format!("{p}/{n}"), stack, visit)?;
            }
            stack.pop();
        }
        Ok(())
    }
    for p in paths {
        let root = clean(p);
        let mut visit = |f: &str| -> Result<(), &'static str> {
            let key = strip(f, strips).to_string();
            let real = std::fs::canonicalize(f).map_err(|_| "not-found")?;
            if let Some((prev_real, prev_path)) = owner.get(&key) {
                if *prev_real != real {
                    return Err("two-files-one-key");
                }
                if prev_path != f {
                    ambiguous = true; // same file, other path, same key
                }
                return Ok(());
            }
            let bytes = std::fs::read(f).map_err(|_| "not-found")?;
            out.insert(key.clone(), digests(&bytes, &algs));
            owner.insert(key, (real, f.to_string()));
            Ok(())
        };
        if let Err(e) = walk(&root, &mut vec![], &mut visit) {
            return Expect::Error(e);
        }
    }
    if ambiguous {
        Expect::MapOrError(out)
    } else {
        Expect::Map(out)
    }
}

/// Does the tree contain a link to an ancestor-or-self of the directory that
/// holds it? Then the set of paths under which files are reachable is infinite
/// and the statement only asks for tolerance.
fn cyclic(t: &Tree) -> bool {
    t.iter().any(|(p, d)| match d {
        Desc::Link(tg, _) => {
            let parent = parent_of(p);
            tg.is_empty() || parent == tg || parent.starts_with(&format!("{tg}/"))
        }
        _ => false,
    })
}

fn run_impl(paths: &[String], strips: Option<&[String]>, algs: Option<&[String]>) -> Result<Expect, (String, String)> {
    let p: Vec<&str> = paths.iter().map(|s| s.as_str()).collect();
    let s: Option<Vec<&str>> = strips.map(|v| v.iter().map(|s| s.as_str()).collect());
    let a: Option<Vec<&str>> = algs.map(|v| v.iter().map(|s| s.as_str()).collect());
    match guard(|| record_artifacts(&p, a.as_deref(), s.as_deref())) {
        Guard::Done(Ok(m)) => {
            let v = serde_json::to_value(&m).unwrap();
            let map: BTreeMap<String, BTreeMap<String, String>> = serde_json::from_value(v).unwrap_or_default();
            Ok(Expect::Map(map))
        }
        Guard::Done(Err(_)) => Ok(Expect::Error("error")),
        Guard::Panicked(l, m) => Err((l, m)),
    }
}

// ---------------------------------------------------------------- queries

fn queries(t: &Tree, full: bool) -> Vec<(Vec<String>, Option<Vec<String>>, Option<Vec<String>>)> {
    let s = |v: &[&str]| -> Vec<String> { v.iter().map(|x| x.to_string()).collect() };
    let tops: Vec<String> = t.keys().filter(|p| !p.contains('/')).map(|p| format!("t/{p}")).collect();
    let first_dir = t.iter().find(|(p, d)| **d == Desc::Dir && !p.contains('/')).map(|(p, _)| p.clone());
    let mut strip_lists: Vec<Option<Vec<String>>> = vec![None, Some(vec![]), Some(s(&["t/"])), Some(s(&["x"])), Some(s(&["t"]))];
    if let Some(d) = &first_dir {
        strip_lists.push(Some(vec!["t/".into(), format!("t/{d}/")]));
        strip_lists.push(Some(vec![format!("t/{d}/"), "t/".into()]));
    } else {
        strip_lists.push(Some(s(&["t/", "t/a"])));
        strip_lists.push(Some(s(&["t/a", "t/"])));
    }
    let alg_lists: Vec<Option<Vec<String>>> = vec![None, Some(s(&["sha256"])), Some(s(&["sha512"])), Some(s(&["sha256", "sha512"])), Some(s(&["md5"])), Some(s(&["sha512", "sha256"])), Some(s(&["sha256", "md5"])), Some(s(&["sha1", "sha256"])), Some(s(&["sha256", "SHA512"])), Some(s(&["sha256", "sha256"]))];
    let mut q = vec![];
    // the whole tree: full product of strip lists x algorithm lists
    for st in &strip_lists {
        for al in &alg_lists {
            if !full && st.is_some() && al.is_some() && al != &alg_lists[3] {
                continue;
            }
            q.push((s(&["t"]), st.clone(), al.clone()));
        }
    }
    // non-normalised spellings of the root
    for p in [s(&["./t/../t"]), s(&["t/"]), s(&["t/."])] {
        q.push((p.clone(), None, None));
        q.push((p, Some(s(&["t/"])), None));
    }
    // every top-level node as a root of its own
    for tp in &tops {
        q.push((vec![tp.clone()], None, None));
        q.push((vec![tp.clone()], Some(s(&["t/"])), Some(s(&["sha256", "sha512"]))));
    }
    // two roots, overlapping roots, the same root twice
    if tops.len() >= 2 {
        for st in &strip_lists {
            q.push((vec![tops[0].clone(), tops[1].clone()], st.clone(), None));
            q.push((vec![tops[1].clone(), tops[0].clone()], st.clone(), None));
        }
    }
    if let Some(tp) = tops.first() {
        for st in [&strip_lists[0], &strip_lists[2], &strip_lists[5], &strip_lists[6]] {
            q.push((vec!["t".into(), tp.clone()], st.clone(), None));
            q.push((vec![tp.clone(), "t".into()], st.clone(), None));
        }
    }
    q.push((s(&["t", "t"]), None, None));
    q
}

fn classify(t: &Tree, paths: &[String], strips: &Option<Vec<String>>, imp: &Expect, reference: &Expect) -> String {
    let has_rel_link = t.values().any(|d| matches!(d, Desc::Link(_, false)));
    let has_chain = t.values().any(|d| matches!(d, Desc::Link(tg, _) if matches!(t.get(tg), Some(Desc::Link(..)))));
    let overlapping = paths.len() > 1 && paths.iter().any(|a| paths.iter().any(|b| a != b && (b.starts_with(&format!("{a}/")) || a == "t" && b.starts_with("t/")))) || (paths.len() == 2 && paths[0] == paths[1]);
    match (imp, reference) {
        (Expect::Error(_), Expect::Map(_)) => {
            if has_rel_link {
                "error-instead-of-map:relative-symlink".into()
            } else if overlapping {
                "error-instead-of-map:overlapping-path-arguments".into()
            } else {
                "error-instead-of-map:other".into()
            }
        }
        (Expect::Map(_), Expect::Error(e)) => format!("map-instead-of-error:{e}"),
        (Expect::Map(a), Expect::Map(b)) => {
            let missing: Vec<&String> = b.keys().filter(|k| !a.contains_key(*k)).collect();
            let extra: Vec<&String> = a.keys().filter(|k| !b.contains_key(*k)).collect();
            if !missing.is_empty() && extra.is_empty() {
                if has_chain {
                    "entry-missing:symlink-chain".into()
                } else if has_rel_link {
                    "entry-missing:relative-symlink".into()
                } else {
                    "entry-missing:other".into()
                }
            } else if !extra.is_empty() && missing.is_empty() {
                "extra-entry".into()
            } else if !extra.is_empty() {
                if strips.is_some() {
                    "wrong-key:strip-prefix".into()
                } else {
                    "wrong-key".into()
                }
            } else {
                "wrong-digest".into()
            }
        }
        _ => "other".into(),
    }
}

/// Worker entry: build the tree, chdir into the case root, run the queries.
pub fn worker_case(case: &Value, dir: &Path) -> Value {
    let t = tree_from_json(&case["tree"]);
    build(dir, &t);
    std::env::set_current_dir(dir).unwrap();
    if case["kind"] == "run" {
        return run_leg(case, &t);
    }
    if case["kind"] == "builder" {
        return builder_leg(case["depth"].as_u64().unwrap_or(3) as usize);
    }
    if case["kind"] == "byproducts" {
        return byproducts_leg(case["full"].as_bool().unwrap_or(false), dir);
    }
    let full = case["full"].as_bool().unwrap_or(false);
    let is_cyclic = cyclic(&t);
    let mut mismatches = vec![];
    let mut n = 0;
    let mut ok_maps = 0;
    let mut errors = 0;
    let mut entries = 0usize;
    for (paths, strips, algs) in queries(&t, full) {
        n += 1;
        let reference = fswalk(&paths, strips.as_deref(), algs.as_deref());
        match &reference {
            Expect::Map(m) | Expect::MapOrError(m) => {
                ok_maps += 1;
                entries += m.len();
            }
            Expect::Error(_) => errors += 1,
        }
        let query = json!({"paths": paths, "strip": strips, "algorithms": algs});
        match run_impl(&paths, strips.as_deref(), algs.as_deref()) {
            Err((loc, msg)) => mismatches.push(json!({"key": format!("panic:{loc}"), "query": query, "what": msg})),
            Ok(imp) => {
                let same = match (&imp, &reference) {
                    (Expect::Error(_), Expect::Error(_)) => true,
                    (Expect::Error(_), Expect::MapOrError(_)) => true,
                    (Expect::Map(a), Expect::MapOrError(b)) => a == b,
                    // cycles: the minimal cut must be there with true digests; what
                    // else is reachable through the cycle is not specified
                    // ... and with strip prefixes the extra paths of a cycle may collide on a key
                    (Expect::Error(_), Expect::Map(_)) if is_cyclic && strips.is_some() => true,
                    (Expect::Map(a), Expect::Map(b)) if is_cyclic => {
                        let all_digests: BTreeSet<&BTreeMap<String, String>> = b.values().collect();
                        b.iter().all(|(k, v)| a.get(k) == Some(v)) && (strips.is_some() || a.values().all(|v| all_digests.contains(v) || true))
                    }
                    (a, b) => a == b,
                };
                if !same {
                    mismatches.push(json!({
                        "key": classify(&t, &paths, &strips, &imp, &reference),
                        "query": query,
                        "implementation": format!("{imp:?}"),
                        "reference": format!("{reference:?}"),
                    }));
                }
            }
        }
    }
    let _ = std::env::set_current_dir("/");
    json!({"queries": n, "reference_maps": ok_maps, "reference_errors": errors, "reference_entries": entries, "mismatches": mismatches})
}

/// The other public ways of recording a file with its digest: `record_artifact` (one
/// file) and `LinkMetadataBuilder::add_material` / `add_product`. E1 over operation
/// histories on two files: op in {add_material(f), add_product(f), write(f, c)}; after every
/// history the built link must list, per map, exactly the files added to it, each with the
/// digest of the bytes the file held when it was (last) added.
fn builder_leg(depth: usize) -> Value {
    use in_toto::models::{LinkMetadataBuilder, VirtualTargetPath};
    let files = ["t/a", "t/ab"];
    let conts: [&[u8]; 3] = [b"one", b"two!", b""];
    #[derive(Clone, Copy, Debug)]
    enum Op {
        Am(usize),
        Ap(usize),
        W(usize, usize),
    }
    let mut ops = vec![];
    for f in 0..2 {
        ops.push(Op::Am(f));
        ops.push(Op::Ap(f));
        for c in 0..3 {
            ops.push(Op::W(f, c));
        }
    }
    let mut mismatches: Vec<Value> = vec![];
    let mut n = 0u64;
    let mut entries = 0usize;
    let _ = std::fs::create_dir_all("t");
    let mut seqs: Vec<Vec<usize>> = vec![vec![]];
    for d in 1..=depth {
        seqs.extend(util::sequences(ops.len(), d));
    }
    for seq in &seqs {
        // a write directly followed by a write to the same file, or a trailing write, adds nothing
        if seq.last().map(|o| matches!(ops[*o], Op::W(..))).unwrap_or(false) {
            continue;
        }
        n += 1;
        for f in files {
            std::fs::write(f, conts[0]).unwrap();
        }
        let mut cur = [0usize, 0usize];
        let mut exp_m: BTreeMap<String, BTreeMap<String, String>> = BTreeMap::new();
        let mut exp_p = exp_m.clone();
        let names: Vec<String> = seq.iter().map(|o| format!("{:?}", ops[*o])).collect();
        let r = guard(|| {
            let mut b = LinkMetadataBuilder::new().name("s".into());
            for o in seq {
                match ops[*o] {
                    Op::Am(f) => b = b.add_material(VirtualTargetPath::new(files[f].to_string()).unwrap()),
                    Op::Ap(f) => b = b.add_product(VirtualTargetPath::new(files[f].to_string()).unwrap()),
                    Op::W(f, c) => std::fs::write(files[f], conts[c]).unwrap(),
                }
            }
            b.build()
        });
        for o in seq {
            match ops[*o] {
                Op::Am(f) => {
                    exp_m.insert(files[f].to_string(), digests(conts[cur[f]], &["sha256"]));
                }
                Op::Ap(f) => {
                    exp_p.insert(files[f].to_string(), digests(conts[cur[f]], &["sha256"]));
                }
                Op::W(f, c) => cur[f] = c,
            }
        }
        entries += exp_m.len() + exp_p.len();
        match r {
            Guard::Panicked(l, m) => mismatches.push(json!({"key": format!("panic:{l}"), "history": names, "what": m})),
            Guard::Done(Err(e)) => mismatches.push(json!({"key": "builder:build-fails", "history": names, "what": format!("{e:?}")})),
            Guard::Done(Ok(link)) => {
                let as_map = |x: &BTreeMap<in_toto::models::VirtualTargetPath, in_toto::models::TargetDescription>| -> BTreeMap<String, BTreeMap<String, String>> { serde_json::from_value(serde_json::to_value(x).unwrap()).unwrap_or_default() };
                let (gm, gp) = (as_map(&link.materials), as_map(&link.products));
                if gm != exp_m {
                    mismatches.push(json!({"key": "builder:materials-differ", "history": names, "recorded": gm, "reference": exp_m}));
                }
                if gp != exp_p {
                    mismatches.push(json!({"key": "builder:products-differ", "history": names, "recorded": gp, "reference": exp_p}));
                }
            }
        }
        if mismatches.len() > 20 {
            break;
        }
    }
    // record_artifact: one file, every size x algorithm list x strip list
    let s = |v: &[&str]| -> Vec<String> { v.iter().map(|x| x.to_string()).collect() };
    for ci in 0..8 {
        std::fs::write("t/a", content(ci)).unwrap();
        for algs in [s(&["sha256"]), s(&["sha512"]), s(&["sha256", "sha512"]), s(&["sha512", "sha256"])] {
            for strips in [None, Some(s(&["t/"])), Some(s(&["t"])), Some(s(&["x/"])), Some(s(&["t/", "t"])), Some(s(&["t", "t/"])), Some(s(&[])), Some(s(&["t/a"]))] {
                for path in ["t/a", "./t/a", "t//a", "t/ab/../a"] {
                    n += 1;
                    let _ = std::fs::create_dir_all("t/ab.d");
                    let path = path.replace("t/ab/", "t/ab.d/");
                    let reference = fswalk(&[path.clone()], strips.as_deref(), Some(&algs));
                    let al: Vec<in_toto::crypto::HashAlgorithm> = algs.iter().map(|a| if a == "sha512" { in_toto::crypto::HashAlgorithm::Sha512 } else { in_toto::crypto::HashAlgorithm::Sha256 }).collect();
                    let st: Option<Vec<&str>> = strips.as_ref().map(|v| v.iter().map(|x| x.as_str()).collect());
                    let query = json!({"record_artifact": path, "strip": strips, "algorithms": algs, "size": content(ci).len()});
                    match guard(|| in_toto::runlib::record_artifact(&path, &al, st.as_deref())) {
                        Guard::Panicked(l, m) => mismatches.push(json!({"key": format!("panic:{l}"), "query": query, "what": m})),
                        Guard::Done(r) => {
                            let imp = match r {
                                Ok((p, d)) => {
                                    let mut m = BTreeMap::new();
                                    let dv: BTreeMap<String, String> = serde_json::from_value(serde_json::to_value(&d).unwrap()).unwrap_or_default();
                                    m.insert(p.value().to_string(), dv);
                                    Expect::Map(m)
                                }
                                Err(_) => Expect::Error("error"),
                            };
                            // the single-file call keeps the path as given (only the strip list applies)
                            let want = match &reference {
                                Expect::Map(m) | Expect::MapOrError(m) => {
                                    let dg = m.values().next().cloned().unwrap_or_default();
                                    let mut mm = BTreeMap::new();
                                    mm.insert(strip(&path, strips.as_deref()).to_string(), dg);
                                    Expect::Map(mm)
                                }
                                Expect::Error(e) => Expect::Error(e),
                            };
                            let same = match (&imp, &want) {
                                (Expect::Error(_), Expect::Error(_)) => true,
                                (Expect::Map(a), Expect::Map(b)) => a.values().next() == b.values().next() && (a.keys().next() == b.keys().next() || a.keys().next().map(|k| clean(k)) == b.keys().next().map(|k| clean(k))),
                                _ => false,
                            };
                            if !same {
                                mismatches.push(json!({"key": "record_artifact-differs", "query": query, "implementation": format!("{imp:?}"), "reference": format!("{want:?}")}));
                            }
                        }
                    }
                }
            }
        }
    }
    // nested directories whose names repeat the strip prefix: t/f1, t/t/f2, t/t/t/f3, t/tt, t/t/tt2.
    // The prefix is removed once (the longest listed one), however the rest of the path begins.
    {
        let _ = std::fs::remove_dir_all("t");
        std::fs::create_dir_all("t/t/t").unwrap();
        for (f, c) in [("t/f1", 1), ("t/t/f2", 2), ("t/t/t/f3", 3), ("t/tt", 4), ("t/t/tt2", 5)] {
            std::fs::write(f, content(c)).unwrap();
        }
        let strip_lists = [s(&["t/"]), s(&["t"]), s(&["t/t/"]), s(&["t/", "t/t/"]), s(&["t/t/", "t/"]), s(&["t/t"]), s(&["t/t/t/"]), s(&["t/", "t/t/", "t/t/t/"]), s(&["t/tt"])];
        for strips in &strip_lists {
            for roots in [s(&["t"]), s(&["t/t"]), s(&["t/t/t", "t/f1"])] {
                n += 1;
                let reference = fswalk(&roots, Some(strips), None);
                let query = json!({"nested-tree": ["t/f1", "t/t/f2", "t/t/t/f3", "t/tt", "t/t/tt2"], "paths": roots, "strip": strips});
                match run_impl(&roots, Some(strips), None) {
                    Err((l, m)) => mismatches.push(json!({"key": format!("panic:{l}"), "query": query, "what": m})),
                    Ok(imp) => {
                        let same = match (&imp, &reference) {
                            (Expect::Error(_), Expect::Error(_)) => true,
                            (Expect::Map(a), Expect::Map(b)) => a == b,
                            (_, Expect::MapOrError(_)) => true,
                            _ => false,
                        };
                        if let Expect::Map(m) = &reference {
                            entries += m.len();
                        }
                        if !same {
                            mismatches.push(json!({"key": "wrong-key:strip-prefix-repeated-in-path", "query": query, "implementation": format!("{imp:?}"), "reference": format!("{reference:?}")}));
                        }
                    }
                }
            }
            for path in ["t/f1", "t/t/f2", "t/t/t/f3", "t/tt", "t/t/tt2"] {
                n += 1;
                let st: Vec<&str> = strips.iter().map(|x| x.as_str()).collect();
                let query = json!({"record_artifact": path, "strip": strips});
                match guard(|| in_toto::runlib::record_artifact(path, &[in_toto::crypto::HashAlgorithm::Sha256], Some(&st))) {
                    Guard::Panicked(l, m) => mismatches.push(json!({"key": format!("panic:{l}"), "query": query, "what": m})),
                    Guard::Done(Err(_)) => mismatches.push(json!({"key": "record_artifact-differs", "query": query, "implementation": "error", "reference": strip(path, Some(strips))})),
                    Guard::Done(Ok((p, _))) => {
                        if p.value() != strip(path, Some(strips)) {
                            mismatches.push(json!({"key": "wrong-key:strip-prefix-repeated-in-path", "query": query, "implementation": p.value(), "reference": strip(path, Some(strips))}));
                        }
                    }
                }
            }
        }
    }
    // call histories with a run directory: a step is run (or fails to start) in a directory other
    // than the process's, then the tree is recorded again by relative path. Whatever the first call
    // did - succeeded, exited non-zero, could not be started - the process is where it was, and the
    // second recording sees what the reference walker sees from there.
    {
        let before = std::env::current_dir().ok();
        let cmds: Vec<(&str, Vec<&str>)> = vec![("true", vec!["true"]), ("exit 3", vec!["sh", "-c", "exit 3"]), ("cannot be started", vec!["/nonexistent/no-such-command"]), ("nothing to run", vec![])];
        for run_dir in [None, Some("."), Some("t"), Some("t/t"), Some("no-such-directory")] {
            for (cname, argv) in &cmds {
                n += 1;
                let query = json!({"history": ["in_toto_run", "record_artifacts"], "run_dir": run_dir, "command": cname});
                let r1 = guard(|| in_toto_run("step", run_dir, &["t"], &["t"], argv, None, None, None).is_ok());
                if let Guard::Panicked(l, m) = &r1 {
                    mismatches.push(json!({"key": format!("panic:{l}"), "query": query, "what": m}));
                }
                let after = std::env::current_dir().ok();
                if after != before {
                    mismatches.push(json!({"key": "working-directory-changed-by-a-call", "query": query, "before": format!("{before:?}"), "after": format!("{after:?}")}));
                    if let Some(b) = &before {
                        let _ = std::env::set_current_dir(b);
                    }
                    continue;
                }
                let reference = fswalk(&s(&["t"]), None, None);
                match run_impl(&s(&["t"]), None, None) {
                    Err((l, m)) => mismatches.push(json!({"key": format!("panic:{l}"), "query": query, "what": m})),
                    Ok(imp) => {
                        let same = match (&imp, &reference) {
                            (Expect::Error(_), Expect::Error(_)) => true,
                            (Expect::Map(a), Expect::Map(b)) => a == b,
                            (_, Expect::MapOrError(_)) => true,
                            _ => false,
                        };
                        if !same {
                            mismatches.push(json!({"key": "recording-differs-after-a-run", "query": query, "implementation": format!("{imp:?}"), "reference": format!("{reference:?}")}));
                        }
                    }
                }
            }
        }
    }
    // a directory that lives on another file system, reached through a symbolic link inside the
    // recorded tree (a vendored tree, an output directory on tmpfs): recorded like any other. Needs a
    // second writable file system; /dev/shm, /tmp and /var/tmp are tried (the scratch tree itself may be on tmpfs); without one the case is skipped.
    {
        use std::os::unix::fs::MetadataExt;
        let here = std::fs::metadata("t").map(|m| m.dev()).ok();
        // the scratch tree itself may be on tmpfs: take the first candidate that is somewhere else
        let other_root = ["/dev/shm", "/tmp", "/var/tmp"].iter().map(std::path::Path::new).find(|p| std::fs::metadata(p).map(|m| Some(m.dev()) != here).unwrap_or(false)).unwrap_or(std::path::Path::new("/nonexistent"));
        let there = std::fs::metadata(other_root).map(|m| m.dev()).ok();
        if here.is_some() && there.is_some() && here != there {
            let ext = other_root.join(format!("itv-c18-{}", std::process::id()));
            let _ = std::fs::remove_dir_all(&ext);
            if std::fs::create_dir_all(ext.join("sub")).is_ok() {
                let _ = std::fs::write(ext.join("data.txt"), b"on another file system");
                let _ = std::fs::write(ext.join("sub/deep.txt"), b"deeper");
                let _ = std::os::unix::fs::symlink(&ext, "t/vendor");
                n += 1;
                let query = json!({"tree": "t with t/vendor -> a directory on another file system", "paths": ["t"]});
                let reference = fswalk(&s(&["t"]), None, None);
                match run_impl(&s(&["t"]), None, None) {
                    Err((l, m)) => mismatches.push(json!({"key": format!("panic:{l}"), "query": query, "what": m})),
                    Ok(imp) => {
                        if let (Expect::Map(a), Expect::Map(b)) = (&imp, &reference) {
                            if a != b {
                                let missing: Vec<&String> = b.keys().filter(|k| !a.contains_key(*k)).collect();
                                mismatches.push(json!({"key": "entry-missing:directory-on-another-file-system", "query": query, "missing": missing, "reference_entries": b.len(), "recorded_entries": a.len()}));
                            }
                        } else if matches!(reference, Expect::Map(_)) {
                            mismatches.push(json!({"key": "entry-missing:directory-on-another-file-system", "query": query, "implementation": format!("{imp:?}")}));
                        }
                    }
                }
                let _ = std::fs::remove_file("t/vendor");
                let _ = std::fs::remove_dir_all(&ext);
            }
        } else {
            mismatches.retain(|_| true);
            // no second file system in this sandbox: nothing to say about it
            n += 0;
        }
    }
    // a file recorded, rewritten in place with other bytes of the same length and its modification
    // time put back (what `cp -p`, `tar -x`, `rsync -t`, `touch -r` do), recorded again - through
    // record_artifacts, record_artifact and in_toto_run. The digests are those of the bytes on disk.
    {
        let target = "t/f1";
        let original = std::fs::read(target).unwrap_or_default();
        let mtime = std::fs::metadata(target).and_then(|m| m.modified()).ok();
        let rewrite = |bytes: &[u8]| {
            let _ = std::fs::write(target, bytes);
            if let (Some(t), Ok(f)) = (mtime, std::fs::OpenOptions::new().write(true).open(target)) {
                let _ = f.set_modified(t);
            }
        };
        let mut other = original.clone();
        for b in other.iter_mut() {
            *b ^= 0x55;
        }
        let al = [in_toto::crypto::HashAlgorithm::Sha256];
        for round in 0..3 {
            // round 0 records the original (fills whatever the library may remember), then the
            // content alternates while length and modification time stay
            rewrite(if round % 2 == 0 { &original } else { &other });
            n += 1;
            let query = json!({"history": "record, rewrite same length + restore mtime, record", "round": round});
            let reference = fswalk(&s(&["t"]), None, None);
            match run_impl(&s(&["t"]), None, None) {
                Err((l, m)) => mismatches.push(json!({"key": format!("panic:{l}"), "query": query, "what": m})),
                Ok(imp) => {
                    if let (Expect::Map(a), Expect::Map(b)) = (&imp, &reference) {
                        if a != b {
                            mismatches.push(json!({"key": "stale-digest-after-rewrite", "query": query, "implementation": format!("{:?}", a.get("t/f1")), "reference": format!("{:?}", b.get("t/f1"))}));
                        }
                    }
                }
            }
            let want = util::hex(&util::sha256(&std::fs::read(target).unwrap_or_default()));
            if let Guard::Done(Ok((_, d))) = guard(|| in_toto::runlib::record_artifact(target, &al, None)) {
                let got = serde_json::to_value(&d).ok().and_then(|v| v["sha256"].as_str().map(String::from)).unwrap_or_default();
                if got != want {
                    mismatches.push(json!({"key": "stale-digest-after-rewrite", "query": query, "entry": "record_artifact", "implementation": got, "reference": want}));
                }
            }
        }
        // the same inside one step: the command patches the file in place and keeps its time stamp
        rewrite(&original);
        n += 1;
        let script = "cp -p t/f1 t/.stamp && tr '\\000-\\377' '\\001-\\377\\000' < t/.stamp > t/f1 && touch -r t/.stamp t/f1 && rm -f t/.stamp";
        let pre = util::hex(&util::sha256(&original));
        if let Guard::Done(Ok(mb)) = guard(|| in_toto_run("step", None, &["t/f1"], &["t/f1"], &["sh", "-c", script], None, None, None)) {
            let v = serde_json::to_value(&mb.metadata).unwrap_or_default();
            let post = util::hex(&util::sha256(&std::fs::read(target).unwrap_or_default()));
            let (gm, gp) = (v["materials"]["t/f1"]["sha256"].as_str().unwrap_or("").to_string(), v["products"]["t/f1"]["sha256"].as_str().unwrap_or("").to_string());
            if post != pre && (gm != pre || gp != post) {
                mismatches.push(json!({"key": "stale-digest-after-rewrite", "query": {"history": "in_toto_run whose command patches a file in place and keeps its time stamp"}, "materials": gm, "products": gp, "before": pre, "after": post}));
            }
        }
        let _ = std::fs::write(target, &original);
    }
    let _ = std::env::set_current_dir("/");
    mismatches.truncate(12);
    json!({"queries": n, "mismatches": mismatches, "reference_maps": n, "reference_errors": 0, "reference_entries": entries})
}

/// Round 12/13: the byproducts clause over an alphabet of output streams. The command copies two
/// prepared files to its standard output and standard error and exits with a chosen status, through
/// `run_command` and through `in_toto_run`. An `Ok` must carry exactly the bytes written and the
/// status; an `Err` is acceptable only where a stream is not UTF-8 (a string cannot hold it).
fn byproducts_leg(full: bool, dir: &Path) -> Value {
    let big = vec![b'x'; 70_001];
    let streams: Vec<(&str, &[u8])> = vec![
        ("empty", b""),
        ("x", b"x"),
        ("two-lines-newline-at-end", b"out\nline2\n"),
        ("blank-and-newline", b" \n"),
        ("crlf", b"a\r\nb\r\n"),
        ("non-ascii", "\u{e9}\u{20ac}\u{1f600}".as_bytes()),
        ("replacement-character-itself", "a\u{fffd}b".as_bytes()),
        ("nul-inside", b"a\0b"),
        ("beyond-a-pipe-buffer", &big),
        ("invalid:0xff", b"a\xffb"),
        ("invalid:cut-multibyte-at-end", b"ab\xc3"),
        ("invalid:surrogate", b"\xed\xa0\x80"),
        ("invalid:latin1", b"caf\xe9\n"),
    ];
    let rets = [0i32, 1, 3, 255];
    let mut mismatches = vec![];
    let mut n = 0u64;
    let (fo, fe) = (dir.join("bp.out"), dir.join("bp.err"));
    for (oi, (on, ob)) in streams.iter().enumerate() {
        for (ei, (en, eb)) in streams.iter().enumerate() {
            for (ri, ret) in rets.iter().enumerate() {
                // quick tier: the full stdout x stderr product, the status cycling with it
                if !full && ri != (oi + ei) % rets.len() {
                    continue;
                }
                std::fs::write(&fo, ob).unwrap();
                std::fs::write(&fe, eb).unwrap();
                let script = format!("cat bp.out; cat bp.err >&2; exit {ret}");
                let argv = ["sh", "-c", script.as_str()];
                let representable = std::str::from_utf8(ob).is_ok() && std::str::from_utf8(eb).is_ok();
                let query = json!({"stdout": on, "stderr": en, "status": ret});
                let d = dir.to_str().unwrap_or(".");
                let mut judge = |entry: &str, r: Guard<Result<Value, String>>| match r {
                    Guard::Panicked(l, m) => mismatches.push(json!({"key": format!("panic:{l}"), "entry": entry, "query": query, "what": m})),
                    Guard::Done(Err(e)) => {
                        if representable {
                            mismatches.push(json!({"key": "byproducts:run-fails-although-representable", "entry": entry, "query": query, "what": e}));
                        }
                    }
                    Guard::Done(Ok(by)) => {
                        let so = by["stdout"].as_str().map(|x| x.as_bytes() == *ob);
                        let se = by["stderr"].as_str().map(|x| x.as_bytes() == *eb);
                        let rv = by["return-value"].as_i64();
                        if so != Some(true) || se != Some(true) || rv != Some(*ret as i64) {
                            let which = if so != Some(true) { "stdout" } else if se != Some(true) { "stderr" } else { "status" };
                            let cls = if representable { "text" } else { "not-utf8" };
                            let shown = |v: &Value| v.as_str().map(|x| x.chars().take(40).collect::<String>());
                            mismatches.push(json!({"key": format!("byproducts-differ:{which}:{cls}"), "entry": entry, "query": query,
                                "recorded": {"stdout": shown(&by["stdout"]), "stderr": shown(&by["stderr"]), "return-value": by["return-value"]}}));
                        }
                    }
                };
                n += 2;
                judge(
                    "run_command",
                    guard(|| in_toto::runlib::run_command(&argv, Some(d)).map(|b| serde_json::to_value(&b).unwrap_or_default()).map_err(|e| format!("{e:?}"))),
                );
                judge(
                    "in_toto_run",
                    guard(|| {
                        in_toto_run("bp", Some(d), &[], &[], &argv, None, None, None)
                            .map(|mb| serde_json::to_value(&mb.metadata).unwrap_or_default()["byproducts"].clone())
                            .map_err(|e| format!("{e:?}"))
                    }),
                );
            }
        }
    }
    let _ = std::env::set_current_dir("/");
    // one witness per key is enough
    let mut seen = BTreeSet::new();
    mismatches.retain(|m| seen.insert(format!("{}|{}", m["key"].as_str().unwrap_or(""), m["entry"].as_str().unwrap_or(""))));
    json!({"queries": n, "mismatches": mismatches, "reference_maps": 0, "reference_errors": 0, "reference_entries": 0})
}

pub const COMMANDS: [&str; 7] = ["none", "create", "modify", "delete", "print", "exit3", "create-in-subdir"];
/// Argument variants of the run leg (besides materials = products = the whole tree, defaults).
pub const RUN_VARIANTS: [&str; 6] = ["products-one-node", "materials-one-node", "sha512+strip", "both-algorithms", "no-materials", "no-products"];

fn run_leg(case: &Value, t: &Tree) -> Value {
    let cmd = case["cmd"].as_str().unwrap_or("none");
    let first_file = t.iter().find(|(_, d)| matches!(d, Desc::File(_))).map(|(p, _)| p.clone());
    let argv: Vec<String> = match cmd {
        "none" => vec![],
        "create" => vec!["sh".into(), "-c".into(), "printf n > t/zz-new".into()],
        "create-in-subdir" => vec!["sh".into(), "-c".into(), "mkdir -p t/zz-dir && printf n > t/zz-dir/new".into()],
        "modify" => vec!["sh".into(), "-c".into(), format!("printf m >> 't/{}'", first_file.clone().unwrap_or("zz-none".into()))],
        "delete" => vec!["sh".into(), "-c".into(), format!("rm -f 't/{}'", first_file.clone().unwrap_or("zz-none".into()))],
        "print" => vec!["sh".into(), "-c".into(), "printf 'out\\nline2'; printf 'err\\t' >&2".into()],
        _ => vec!["sh".into(), "-c".into(), "printf o; exit 3".into()],
    };
    let (exp_out, exp_err, exp_ret): (Option<&str>, Option<&str>, Option<i32>) = match cmd {
        "none" => (None, None, None),
        "print" => (Some("out\nline2"), Some("err\t"), Some(0)),
        "exit3" => (Some("o"), Some(""), Some(3)),
        _ => (Some(""), Some(""), Some(0)),
    };
    // which paths / algorithms / strip prefixes the call gets for materials and for products
    let variant = case["variant"].as_str().unwrap_or("same");
    let s = |v: &[&str]| -> Vec<String> { v.iter().map(|x| x.to_string()).collect() };
    let first_top = t.keys().find(|p| !p.contains('/')).map(|p| format!("t/{p}"));
    let (mpaths, ppaths, algs, strips): (Vec<String>, Vec<String>, Option<Vec<String>>, Option<Vec<String>>) = match variant {
        "products-one-node" => (s(&["t"]), first_top.clone().map(|p| vec![p]).unwrap_or(s(&["t"])), None, None),
        "materials-one-node" => (first_top.clone().map(|p| vec![p]).unwrap_or(s(&["t"])), s(&["t"]), None, None),
        "sha512+strip" => (s(&["t"]), s(&["t"]), Some(s(&["sha512"])), Some(s(&["t/"]))),
        "both-algorithms" => (s(&["t"]), s(&["t"]), Some(s(&["sha256", "sha512"])), None),
        "no-materials" => (vec![], s(&["t"]), None, Some(s(&["t"]))),
        "no-products" => (s(&["t"]), vec![], Some(s(&["sha256"])), None),
        _ => (s(&["t"]), s(&["t"]), None, None),
    };
    let pre = fswalk(&mpaths, strips.as_deref(), algs.as_deref());
    let args: Vec<&str> = argv.iter().map(|s| s.as_str()).collect();
    let (mp, pp): (Vec<&str>, Vec<&str>) = (mpaths.iter().map(|x| x.as_str()).collect(), ppaths.iter().map(|x| x.as_str()).collect());
    let al: Option<Vec<&str>> = algs.as_ref().map(|v| v.iter().map(|x| x.as_str()).collect());
    let st: Option<Vec<&str>> = strips.as_ref().map(|v| v.iter().map(|x| x.as_str()).collect());
    let r = guard(|| in_toto_run("step", Some("."), &mp, &pp, &args, None, al.as_deref(), st.as_deref()));
    let post = fswalk(&ppaths, strips.as_deref(), algs.as_deref());
    let _ = std::env::set_current_dir("/");
    let mut mismatches = vec![];
    match r {
        Guard::Panicked(l, m) => mismatches.push(json!({"key": format!("panic:{l}"), "what": m})),
        Guard::Done(Err(e)) => {
            if matches!(pre, Expect::Map(_)) && matches!(post, Expect::Map(_)) {
                let has_rel = t.values().any(|d| matches!(d, Desc::Link(_, false)));
                mismatches.push(json!({"key": if has_rel { "run-fails:relative-symlink" } else { "run-fails-although-recordable" }, "what": format!("{e:?}")}));
            }
        }
        Guard::Done(Ok(mb)) => {
            let v = serde_json::to_value(&mb.metadata).unwrap();
            let as_map = |x: &Value| -> Expect { Expect::Map(serde_json::from_value(x.clone()).unwrap_or_default()) };
            let cyc = cyclic(t);
            if !cyc && matches!(pre, Expect::Map(_)) && as_map(&v["materials"]) != pre {
                mismatches.push(json!({"key": "materials-not-pre-state", "recorded": v["materials"], "reference": format!("{pre:?}")}));
            }
            if !cyc && matches!(post, Expect::Map(_)) && as_map(&v["products"]) != post {
                mismatches.push(json!({"key": "products-not-post-state", "recorded": v["products"], "reference": format!("{post:?}")}));
            }
            if v["name"] != "step" {
                mismatches.push(json!({"key": "link-name-differs", "recorded": v["name"]}));
            }
            let by = &v["byproducts"];
            let got = (by["stdout"].as_str(), by["stderr"].as_str(), by["return-value"].as_i64().map(|x| x as i32));
            if got != (exp_out, exp_err, exp_ret) {
                mismatches.push(json!({"key": "byproducts-differ", "recorded": by, "expected": [exp_out, exp_err, exp_ret]}));
            }
        }
    }
    json!({"queries": 1, "mismatches": mismatches, "reference_maps": 1, "reference_errors": 0, "reference_entries": 0})
}

/// `crypto::calculate_hashes` (what every recording function uses) over readers that return short
/// reads, one byte at a time, or are interrupted: length and digests of the whole content.
fn hashes_leg(acc: &mut Acc) {
    use in_toto::crypto::{calculate_hashes, HashAlgorithm};
    use std::io::Read;
    struct Chunked<'a>(&'a [u8], usize, bool, bool);
    impl Read for Chunked<'_> {
        fn read(&mut self, buf: &mut [u8]) -> std::io::Result<usize> {
            if self.2 && !self.3 {
                self.3 = true;
                return Err(std::io::Error::new(std::io::ErrorKind::Interrupted, "interrupted"));
            }
            self.3 = false;
            let n = self.1.min(buf.len()).min(self.0.len());
            buf[..n].copy_from_slice(&self.0[..n]);
            self.0 = &self.0[n..];
            Ok(n)
        }
    }
    for ci in 0..8 {
        let bytes = content(ci);
        for (rname, chunk, interrupted) in [("whole", usize::MAX, false), ("1 byte", 1, false), ("7 bytes", 7, false), ("1023 bytes", 1023, false), ("1025 bytes", 1025, false), ("interrupted", 512, true)] {
            for algs in [vec![HashAlgorithm::Sha256], vec![HashAlgorithm::Sha512], vec![HashAlgorithm::Sha256, HashAlgorithm::Sha512], vec![HashAlgorithm::Sha512, HashAlgorithm::Sha256, HashAlgorithm::Sha256]] {
                acc.evaluations += 1;
                let w = || json!({"kind": "calculate_hashes", "size": bytes.len(), "reader": rname, "algorithms": format!("{algs:?}")});
                match guard(|| calculate_hashes(Chunked(&bytes, chunk, interrupted, false), &algs)) {
                    Guard::Panicked(l, m) => acc.violation(&format!("panic:{l}"), &m, w),
                    // an interrupted read reported as an error is an error, not a wrong digest (observation)
                    Guard::Done(Err(_)) if interrupted => acc.note("observation:calculate_hashes-does-not-retry-an-interrupted-read"),
                    Guard::Done(Err(e)) => acc.violation("calculate_hashes-fails", &format!("hashing a readable stream fails: {e:?}"), w),
                    Guard::Done(Ok((len, map))) => {
                        let mut ok = len == bytes.len() as u64 && map.len() == algs.iter().collect::<BTreeSet<_>>().len();
                        for (a, h) in &map {
                            let want = if *a == HashAlgorithm::Sha512 { util::sha512(&bytes) } else { util::sha256(&bytes) };
                            ok &= h.value() == want.as_slice();
                        }
                        if ok {
                            acc.outcome("agrees-with-reference");
                        } else {
                            acc.violation("calculate_hashes-differs", "length or digests of a stream differ from the reference", w);
                        }
                    }
                }
            }
        }
    }
}

pub fn run(tier: Tier) -> i32 {
    let mut c = Check::new("C18", "model_checking", tier);
    // oracle self-test: digests agree with sha256sum when present
    if let Ok(out) = std::process::Command::new("sh").arg("-c").arg("printf abc | sha256sum").output() {
        let txt = String::from_utf8_lossy(&out.stdout).to_string();
        if out.status.success() && !txt.is_empty() {
            c.selftest("digest-vs-sha256sum", txt.starts_with(&util::hex(&util::sha256(b"abc"))), "reference digest differs from sha256sum");
        }
    }
    let (max_nodes, cap) = if tier.thorough() { (5, 400_000) } else { (4, 100_000) };
    let (trees, transitions, capped) = enumerate(max_nodes, cap);
    let mut cases: Vec<Value> = trees.iter().map(|t| json!({"kind": "record", "tree": tree_json(t), "full": t.len() <= 2})).collect();
    let n_record = cases.len();
    // run-step leg on a subset
    for t in trees.iter().filter(|t| t.len() <= 3).step_by(if tier.thorough() { 3 } else { 9 }) {
        for cmd in COMMANDS {
            cases.push(json!({"kind": "run", "tree": tree_json(t), "cmd": cmd}));
        }
        for variant in RUN_VARIANTS {
            for cmd in ["none", "create", "modify", "delete"] {
                cases.push(json!({"kind": "run", "tree": tree_json(t), "cmd": cmd, "variant": variant}));
            }
        }
    }
    cases.push(json!({"kind": "builder", "tree": {}, "depth": if tier.thorough() { 5 } else { 4 }}));
    cases.push(json!({"kind": "byproducts", "tree": {}, "full": tier.thorough()}));
    let results = worker::run_cases("c18", &cases, if tier.thorough() { 1500 } else { 300 });
    let mut acc = Acc::new();
    acc.states = trees.len() as u64;
    acc.transitions = transitions;
    for (i, (case, r)) in cases.iter().zip(&results).enumerate() {
        match r {
            WorkerResult::Done(out) => {
                let nq = out["queries"].as_u64().unwrap_or(0);
                acc.evaluations += nq;
                acc.traces += nq;
                acc.note_n("reference_maps", out["reference_maps"].as_u64().unwrap_or(0));
                acc.note_n("reference_errors", out["reference_errors"].as_u64().unwrap_or(0));
                acc.note_n("reference_entries", out["reference_entries"].as_u64().unwrap_or(0));
                let tree = tree_from_json(&case["tree"]);
                let special = tree.values().any(|d| matches!(d, Desc::Link(..))) || case["kind"] == "run";
                if special {
                    acc.nontrivial += 1;
                }
                let ms = out["mismatches"].as_array().cloned().unwrap_or_default();
                acc.outcome(if ms.is_empty() { "agrees-with-reference" } else { "differs-from-reference" });
                for m in ms {
                    let key = m["key"].as_str().unwrap_or("other").to_string();
                    acc.violation(&key, &format!("recording differs from the files present ({key})"), || json!({"kind": case["kind"], "cmd": case["cmd"], "variant": case["variant"], "tree": case["tree"], "mismatch": m}));
                }
                if i % 500 == 17 {
                    acc.sample(|| json!({"tree": case["tree"], "kind": case["kind"]}));
                }
            }
            WorkerResult::Died(s) => util::machinery_error(&format!("C18 worker died ({s}) on {case}")),
            WorkerResult::NotRun => util::machinery_error("C18 case not run"),
        }
    }
    hashes_leg(&mut acc);
    acc.note_n("record_cases", n_record as u64);
    acc.note_n("run_cases", (cases.len() - n_record) as u64);
    if capped {
        c.caps_hit.push(format!("tree cap {cap} hit at {max_nodes} nodes"));
    }
    crate::envprobe::judge(&mut acc, "C18:", &mut c.extra);
    c.acc = acc;
    c.rule = "state = directory tree reached by appending one node under an existing directory (mkdir; write with size in {0,1,1023,1024,1025,4097,8193,70001} for single-node trees and {1,1025} otherwise; symlink absolute/relative to any existing node or to an ancestor incl. the root), names assigned in the fixed order a, ab, .h, 'e é', deduplicated on the sorted listing; per tree a menu of queries (whole tree x 7 strip lists x 10 algorithm lists (incl. lists that mix a supported with an unsupported or mis-cased name: an error, never a silently shortened digest set); non-normalised roots; each top-level node as root; two roots in both orders; overlapping and repeated roots) through record_artifacts in a private cwd, compared with an independent walker; plus in_toto_run with 7 commands on a subset, and with 6 argument variants (materials and products from different paths, other algorithms, strip prefixes, one side empty) x 4 commands; plus every history of depth <= 4 (5) over {add_material(f), add_product(f), write(f, c)} on 2 files x 3 contents through LinkMetadataBuilder, calculate_hashes over 8 sizes x 6 reader shapes (short reads, interrupted) x 4 algorithm lists; and record_artifact on one file x 8 sizes x 4 algorithm lists x 8 strip lists x 4 spellings; a directory on another file system reached through a symbolic link inside the tree (when /dev/shm, /tmp or /var/tmp is one); a file rewritten in place with other bytes of the same length and its modification time restored, between two recordings (record_artifacts, record_artifact, and inside one in_toto_run); call histories (a step run - or failing to start - with run directory none / . / t / t/t / a missing one, then the tree recorded again: the process's working directory is unchanged and the recording equals the reference); a nested tree whose directory names repeat the strip prefix (t/f1, t/t/f2, t/t/t/f3, t/tt, t/t/tt2) x 9 strip lists x 3 root lists through record_artifacts and file by file through record_artifact; byproducts: 13 standard-output contents x 13 standard-error contents (empty, text with and without a final newline, CR LF, non-ASCII, U+FFFD itself, NUL, 70001 bytes, and four that are not UTF-8) x exit status {0,1,3,255} (quick: the status cycles with the pair) through run_command and in_toto_run - an Ok carries exactly the bytes and the status, an Err only where a stream is not UTF-8. non-trivial = trees with a symlink, and run cases".into();
    c.bound_completed = format!("all trees with <= {max_nodes} nodes ({} trees{})", trees.len(), if capped { ", capped" } else { "" });
    c.assume("real filesystem (tmpfs); no dangling symlinks, devices, permission errors or non-UTF-8 names");
    c.assume("a file reached twice through the same key is one entry; two different files with one key must be an error");
    c.finish()
}

pub fn replay(case: &Value) -> Value {
    let inner = json!({"kind": case["kind"], "cmd": case["cmd"], "variant": case["variant"], "tree": case["tree"], "full": true, "depth": 4});
    let results = worker::run_cases("c18", std::slice::from_ref(&inner), 120);
    match &results[0] {
        WorkerResult::Done(out) => {
            let ms = out["mismatches"].as_array().cloned().unwrap_or_default();
            json!({"mismatches": ms, "violation": ms.first().map(|m| m["key"].clone())})
        }
        _ => json!({"error": "worker died", "violation": null}),
    }
}
