//! C14 — untrusted bytes can make verification fail but never crash it.
//!
//! Fault enumeration: every sweep is a deterministic, complete enumeration of a
//! fault menu (short byte strings, byte-level corruptions of every fixture,
//! node-level JSON mutations, well-typed adversarial documents) pushed into
//! every entry point that consumes attacker-controlled data. The sweeps run in
//! supervised shard processes: a panic is caught and attributed to its source
//! location; an abort / stack overflow / signal kills the shard and is
//! attributed to the case in flight; a case that makes no progress for the
//! stall limit is killed and reported as non-termination.

use std::collections::HashMap;
use std::io::Write;
use std::path::{Path, PathBuf};
use std::process::{Command, Stdio};
use std::str::FromStr;
use std::time::{Duration, Instant};

use in_toto::crypto::{KeyId, PrivateKey, PublicKey, Signature, SignatureScheme, SignatureValue};
use in_toto::interchange::{DataInterchange, Json};
use in_toto::models::byproducts::ByProducts;
use in_toto::models::inspection::Inspection;
use in_toto::models::rule::{Artifact, ArtifactRule};
use in_toto::models::step::Step;
use in_toto::models::supply_chain_item::SupplyChainItem;
use in_toto::models::{
    DSSEVersion, EnvelopeFile, LayoutMetadata, LinkMetadata, Metablock, MetablockBuilder, MetadataType, MetadataWrapper, PredicateWrapper, StatementWrapper,
};
use serde_json::{json, Value};

use crate::keys;
use crate::props::{c16, c19};
use crate::report::{Acc, Check, Tier};
use crate::util::{self, guard, Guard};
use crate::world;

pub const SWEEPS: [&str; 8] = ["short-bytes", "fixture-corruption", "json-node-mutation", "adversarial-rules", "adversarial-verify", "adversarial-entries", "unwritable-stdio", "inspection-commands"];

// --------------------------------------------------------------- decoders

type Entry = (&'static str, fn(&[u8]));

fn serde_entry<T: serde::de::DeserializeOwned>(b: &[u8]) -> Option<T> {
    serde_json::from_slice::<T>(b).ok()
}

fn post_block(mb: &Metablock) {
    let k = keys::get("ed1");
    let _ = mb.verify(1, [k.public()]);
    let _ = mb.verify(u32::MAX, [k.public(), keys::get("rsa256a").public()]);
    let _ = mb.verify(0, std::iter::empty());
    // more, exactly as many, and fewer good signers than the threshold; a key listed twice
    let r = keys::get("rsa256a");
    for t in [0u32, 1, 2, 3] {
        let _ = mb.verify(t, [k.public(), r.public()]);
        let _ = mb.verify(t, [r.public(), k.public(), k.public()]);
    }
    let _ = mb.metadata.to_bytes();
    let _ = mb.metadata.to_signable_bytes();
    for s in &mb.signatures {
        let _ = s.key_id().prefix();
    }
    let _ = serde_json::to_string(mb);
}

fn post_pubkey(pk: &PublicKey) {
    let _ = pk.key_id().prefix();
    let _ = pk.as_spki();
    let _ = serde_json::to_string(pk);
    let sig: Signature = serde_json::from_value(json!({"keyid": "0".repeat(64), "sig": "00ff"})).unwrap();
    let _ = pk.verify(b"msg", &sig);
}

fn post_meta(m: &MetadataWrapper) {
    let _ = m.to_bytes();
    let _ = m.to_signable_bytes();
    let _ = serde_json::to_string(m);
    let _ = Metablock::new(m.clone(), &[&keys::get("ed1").private]);
}

pub fn decoders() -> Vec<Entry> {
    vec![
        ("serde:Metablock", |b| {
            if let Some(mb) = serde_entry::<Metablock>(b) {
                post_block(&mb);
            }
        }),
        ("serde:MetadataWrapper", |b| {
            if let Some(m) = serde_entry::<MetadataWrapper>(b) {
                post_meta(&m);
            }
        }),
        ("serde:LayoutMetadata", |b| {
            if let Some(m) = serde_entry::<LayoutMetadata>(b) {
                post_meta(&MetadataWrapper::Layout(m));
            }
        }),
        ("serde:LinkMetadata", |b| {
            if let Some(m) = serde_entry::<LinkMetadata>(b) {
                post_meta(&MetadataWrapper::Link(m));
            }
        }),
        ("MetadataWrapper::from_bytes(layout)", |b| {
            let _ = MetadataWrapper::from_bytes(b, MetadataType::Layout);
        }),
        ("MetadataWrapper::from_bytes(link)", |b| {
            let _ = MetadataWrapper::from_bytes(b, MetadataType::Link);
        }),
        ("MetadataWrapper::try_from_bytes", |b| {
            let _ = MetadataWrapper::try_from_bytes(b);
        }),
        ("MetablockBuilder::from_raw_metadata", |b| {
            if let Ok(bl) = MetablockBuilder::from_raw_metadata(b) {
                let _ = bl.sign(&[&keys::get("ed1").private]).map(|x| x.build());
            }
        }),
        ("serde:PublicKey", |b| {
            if let Some(pk) = serde_entry::<PublicKey>(b) {
                post_pubkey(&pk);
            }
        }),
        ("serde:Signature", |b| {
            if let Some(s) = serde_entry::<Signature>(b) {
                let _ = s.key_id().prefix();
                let _ = keys::get("ed1").public().verify(b"m", &s);
                let _ = keys::get("rsa256a").public().verify(b"m", &s);
                let _ = keys::get("ec1").public().verify(b"m", &s);
            }
        }),
        ("serde:KeyId+prefix", |b| {
            if let Some(k) = serde_entry::<KeyId>(b) {
                let _ = k.prefix();
            }
        }),
        ("serde:ArtifactRule", |b| {
            let _ = serde_entry::<ArtifactRule>(b);
        }),
        ("serde:Step", |b| {
            let _ = serde_entry::<Step>(b);
        }),
        ("serde:Inspection", |b| {
            let _ = serde_entry::<Inspection>(b);
        }),
        ("serde:ByProducts", |b| {
            let _ = serde_entry::<ByProducts>(b);
        }),
        ("serde:StatementWrapper", |b| {
            if let Some(s) = serde_entry::<StatementWrapper>(b) {
                let _ = s.into_trait().to_bytes();
            }
        }),
        ("serde:PredicateWrapper", |b| {
            if let Some(s) = serde_entry::<PredicateWrapper>(b) {
                let _ = s.into_trait().to_bytes();
            }
        }),
        ("EnvelopeFile::from_bytes", |b| {
            if let Ok(e) = EnvelopeFile::from_bytes(b) {
                let _ = e.to_bytes();
                let _ = DSSEVersion::V1.pack(e.payload().as_bytes(), e.payload_type().clone());
            }
        }),
        ("Json::canonicalize(parsed value)", |b| {
            if let Ok(v) = Json::from_slice::<Value>(b) {
                let _ = Json::canonicalize(&v);
                let _ = Json::canonicalize_for_signing(&v);
            }
        }),
        ("PublicKey::from_spki", |b| {
            for s in [SignatureScheme::Ed25519, SignatureScheme::RsaSsaPssSha256, SignatureScheme::EcdsaP256Sha256] {
                if let Ok(pk) = PublicKey::from_spki(b, s) {
                    post_pubkey(&pk);
                }
            }
        }),
        ("PublicKey::from_pem_spki", |b| {
            let s = String::from_utf8_lossy(b).to_string();
            if let Ok(pk) = PublicKey::from_pem_spki(&s, SignatureScheme::RsaSsaPssSha256) {
                post_pubkey(&pk);
            }
        }),
        ("PublicKey::from_ed25519", |b| {
            if let Ok(pk) = PublicKey::from_ed25519(b.to_vec()) {
                post_pubkey(&pk);
            }
        }),
        ("PublicKey::from_ecdsa", |b| {
            if let Ok(pk) = PublicKey::from_ecdsa(b.to_vec()) {
                post_pubkey(&pk);
            }
        }),
        ("PrivateKey::from_pkcs8", |b| {
            for s in [SignatureScheme::Ed25519, SignatureScheme::RsaSsaPssSha256, SignatureScheme::RsaSsaPssSha512, SignatureScheme::EcdsaP256Sha256] {
                if let Ok(k) = PrivateKey::from_pkcs8(b, s) {
                    let _ = k.sign(b"m");
                }
            }
        }),
        ("PrivateKey::from_ed25519", |b| {
            if let Ok(k) = PrivateKey::from_ed25519(b) {
                let _ = k.sign(b"m");
            }
        }),
        ("SignatureValue::from_hex", |b| {
            let _ = SignatureValue::from_hex(&String::from_utf8_lossy(b));
        }),
        ("KeyId::from_str+prefix", |b| {
            if let Ok(k) = KeyId::from_str(&String::from_utf8_lossy(b)) {
                let _ = k.prefix();
            }
        }),
        ("DSSEVersion::unpack", |b| {
            let _ = DSSEVersion::V1.unpack(b);
            let _ = DSSEVersion::try_unpack(b);
        }),
    ]
}

// ---------------------------------------------------------------- fixtures

fn fixtures() -> Vec<(&'static str, Vec<u8>, Vec<&'static str>)> {
    // (name, bytes, decoder name prefixes it is fed to)
    let json_all = vec!["serde:", "MetadataWrapper::", "MetablockBuilder::", "Json::", "EnvelopeFile::", "DSSEVersion::"];
    let der_all = vec!["PublicKey::from_spki", "PrivateKey::from_pkcs8", "PublicKey::from_ed25519", "PublicKey::from_ecdsa", "PrivateKey::from_ed25519"];
    let link = world::sign_link(world::link("s", world::arts(&[("a", 1), ("./b/../b", 2)]), world::arts(&[("a", 3)])), &[keys::get("ed1"), keys::get("rsa256a")]);
    let layout = world::sign_layout(c16::layouts(false)[3].1.clone(), &[keys::get("ed6")]);
    let envelope = json!({"payload": "aGVsbG8=", "payload_type": "application/vnd.in-toto+json", "signatures": [{"keyid": "a".repeat(64), "sig": "00"}]});
    vec![
        ("root.layout(python)", include_bytes!("../../../fixtures/pyref/root.layout").to_vec(), json_all.clone()),
        ("clone.link(python)", include_bytes!("../../../fixtures/pyref/links/clone.776a00e2.link").to_vec(), json_all.clone()),
        ("signed-link", world::block_text(&link).into_bytes(), json_all.clone()),
        ("signed-layout", world::block_text(&layout).into_bytes(), json_all.clone()),
        ("link-metadata", serde_json::to_vec(&link.metadata).unwrap(), json_all.clone()),
        ("public-key-rsa.json", serde_json::to_vec(keys::get("rsa256a").public()).unwrap(), vec!["serde:PublicKey", "serde:Signature", "Json::"]),
        ("public-key-ed.json", serde_json::to_vec(keys::get("ed1").public()).unwrap(), vec!["serde:PublicKey", "serde:KeyId"]),
        ("statement-v01", c19::v01_statement_docs()[40].1.to_string().into_bytes(), vec!["serde:StatementWrapper", "serde:PredicateWrapper", "Json::"]),
        ("predicate-slsa01", c19::slsa_v01_docs()[60].1.to_string().into_bytes(), vec!["serde:StatementWrapper", "serde:PredicateWrapper"]),
        ("predicate-slsa02", c19::slsa_v02_docs()[20].1.to_string().into_bytes(), vec!["serde:PredicateWrapper"]),
        ("envelope", envelope.to_string().into_bytes(), vec!["EnvelopeFile::", "serde:Metablock"]),
        ("pae", b"DSSEv1 28 application/vnd.in-toto+json 5 hello".to_vec(), vec!["DSSEVersion::"]),
        ("ed25519.spki.der", keys::ED_SPKI_RFC8410[0].to_vec(), der_all.clone()),
        ("ed25519.null.spki.der", keys::ED1_SPKI_NULL.to_vec(), der_all.clone()),
        ("ec.spki.der", keys::EC_SPKI[0].to_vec(), der_all.clone()),
        ("rsa-2048.spki.der", keys::RSA_SPKI[0].to_vec(), der_all.clone()),
        ("ed25519.pk8.der", keys::ED_PK8[0].to_vec(), der_all.clone()),
        ("ec.pk8.der", keys::EC_PK8[0].to_vec(), der_all.clone()),
        ("rsa-2048.pk8.der", keys::RSA_PK8[0].to_vec(), der_all.clone()),
        ("ed25519.keypair", keys::ED1_KEYPAIR.to_vec(), der_all.clone()),
        ("alice.pub.pem", keys::ALICE_PUB_PEM.as_bytes().to_vec(), vec!["PublicKey::from_pem_spki"]),
        ("keyid.hex", "a".repeat(64).into_bytes(), vec!["KeyId::from_str", "SignatureValue::from_hex"]),
    ]
}

fn corruptions(bytes: &[u8], stride: usize) -> Vec<Vec<u8>> {
    let mut out = vec![];
    for i in (0..=bytes.len()).step_by(stride.max(1)) {
        out.push(bytes[..i].to_vec()); // truncation
        if i < bytes.len() {
            let mut d = bytes.to_vec();
            d.remove(i);
            out.push(d);
            for v in [0x00u8, 0x80, 0xff] {
                let mut d = bytes.to_vec();
                d[i] = v;
                out.push(d);
            }
            let mut d = bytes.to_vec();
            d[i] ^= 1;
            out.push(d);
        }
        let mut d = bytes.to_vec();
        d.insert(i, 0x30);
        out.push(d);
    }
    out
}

// ------------------------------------------------------- node mutations

fn replacements() -> Vec<Value> {
    let deep = {
        let mut v = json!(0);
        for _ in 0..200 {
            v = json!([v]);
        }
        v
    };
    vec![Value::Null, json!(true), json!(0), json!(-1), json!(4294967296u64), json!(18446744073709551615u64), json!(1.5), json!(""), json!("é".repeat(64)), json!("é".repeat(7) + "aé"), json!([]), json!({}), deep, json!("a".repeat(64)), json!(["MATCH"]), json!({"sha256": "zz"})]
}

fn paths_of(v: &Value, prefix: Vec<String>, out: &mut Vec<Vec<String>>) {
    out.push(prefix.clone());
    match v {
        Value::Object(o) => {
            for (k, c) in o {
                let mut p = prefix.clone();
                p.push(k.clone());
                paths_of(c, p, out);
            }
        }
        Value::Array(a) => {
            for (i, c) in a.iter().enumerate() {
                let mut p = prefix.clone();
                p.push(i.to_string());
                paths_of(c, p, out);
            }
        }
        _ => {}
    }
}

fn at<'a>(v: &'a mut Value, path: &[String]) -> Option<&'a mut Value> {
    let mut cur = v;
    for p in path {
        cur = match cur {
            Value::Object(o) => o.get_mut(p)?,
            Value::Array(a) => a.get_mut(p.parse::<usize>().ok()?)?,
            _ => return None,
        };
    }
    Some(cur)
}

/// (mutated document as text) for every node x replacement, deletion, duplication.
fn node_mutations(doc: &Value) -> Vec<String> {
    let mut paths = vec![];
    paths_of(doc, vec![], &mut paths);
    let reps = replacements();
    let mut out = vec![];
    for p in &paths {
        for r in &reps {
            let mut d = doc.clone();
            if let Some(n) = at(&mut d, p) {
                *n = r.clone();
                out.push(d.to_string());
            }
        }
        if let Some((last, parent)) = p.split_last() {
            // deletion
            let mut d = doc.clone();
            if let Some(Value::Object(o)) = at(&mut d, parent) {
                o.remove(last);
                out.push(d.to_string());
            }
            // duplication of an object member (text level: the member appears twice)
            let mut d = doc.clone();
            if let Some(Value::Object(o)) = at(&mut d, parent) {
                if let Some(val) = o.get(last).cloned() {
                    o.insert(format!("{last}\u{0}dup"), val);
                    out.push(d.to_string().replace("\\u0000dup", ""));
                }
            }
        }
    }
    out
}

// ---------------------------------------------------------------- sweeps

struct Ctx<'a> {
    thorough: bool,
    shard: u64,
    n: u64,
    start: u64,
    idx: u64,
    progress: &'a mut dyn FnMut(u64, &str),
    acc: &'a mut Acc,
}

impl Ctx<'_> {
    /// Run one case if it belongs to this shard. `describe` is only evaluated on failure.
    /// Like `case`, for calls that catch panics themselves and report them.
    fn case_reporting(&mut self, entry: &str, f: impl FnOnce() -> Vec<(String, String)>, describe: impl Fn() -> Value) {
        let i = self.idx;
        self.idx += 1;
        if i % self.n != self.shard || i < self.start {
            return;
        }
        (self.progress)(i, entry);
        self.acc.evaluations += 1;
        let thorough = self.thorough;
        let mut record = |acc: &mut Acc, loc: &str, msg: &str| {
            acc.outcome("panicked");
            acc.violation(&format!("panic:{loc}"), &format!("{entry} panicked at {loc}: {msg}"), || {
                let mut d = describe();
                d["entry"] = json!(entry);
                d["case_index"] = json!(i);
                d["thorough"] = json!(thorough);
                d
            });
        };
        match guard(f) {
            Guard::Done(panics) => {
                if panics.is_empty() {
                    self.acc.outcome("returned");
                }
                for (l, m) in panics {
                    record(self.acc, &l, &m);
                }
            }
            Guard::Panicked(loc, msg) => record(self.acc, &loc, &msg),
        }
    }

    fn case(&mut self, entry: &str, f: impl FnOnce(), describe: impl FnOnce() -> Value) {
        let i = self.idx;
        self.idx += 1;
        if i % self.n != self.shard || i < self.start {
            return;
        }
        (self.progress)(i, entry);
        self.acc.evaluations += 1;
        match guard(f) {
            Guard::Done(()) => self.acc.outcome("returned"),
            Guard::Panicked(loc, msg) => {
                self.acc.outcome("panicked");
                self.acc.violation(&format!("panic:{loc}"), &format!("{entry} panicked at {loc}: {msg}"), || {
                    let mut d = describe();
                    d["entry"] = json!(entry);
                    d["case_index"] = json!(i);
                    d["thorough"] = json!(self.thorough);
                    d
                });
            }
        }
    }
}

fn sweep_short_bytes(cx: &mut Ctx, len: usize) {
    let alpha: [u8; 12] = [b'{', b'}', b'[', b']', b'"', b':', b',', b'0', b'-', b'a', b'\\', 0xff];
    let decs = decoders();
    for l in 0..=len {
        for seq in util::sequences(alpha.len(), l) {
            let input: Vec<u8> = seq.iter().map(|i| alpha[*i]).collect();
            for (name, f) in &decs {
                cx.case(name, || f(&input), || json!({"sweep": "short-bytes", "input_hex": util::hex(&input)}));
            }
        }
    }
}

/// Text fixtures: every run of decimal digits (a length, a threshold, a return value) replaced by
/// numbers at and beyond the machine-word boundaries.
fn number_blowups(bytes: &[u8]) -> Vec<Vec<u8>> {
    let Ok(text) = std::str::from_utf8(bytes) else { return vec![] };
    let b = text.as_bytes();
    let mut runs = vec![];
    let mut i = 0;
    while i < b.len() {
        if b[i].is_ascii_digit() && (i == 0 || !b[i - 1].is_ascii_hexdigit()) {
            let s = i;
            while i < b.len() && b[i].is_ascii_digit() {
                i += 1;
            }
            if i == b.len() || !b[i].is_ascii_hexdigit() {
                runs.push((s, i));
            }
        } else {
            i += 1;
        }
    }
    let mut out = vec![];
    for (s, e) in runs.into_iter().take(24) {
        for r in ["18446744073709551615", "18446744073709551616", "18446744073709551620", "99999999999999999999999999999999999999999", "9223372036854775808", "4294967296", "-1", "00000000000000000000000001", "1e400", "+4", ""] {
            let mut d = b[..s].to_vec();
            d.extend_from_slice(r.as_bytes());
            d.extend_from_slice(&b[e..]);
            out.push(d);
        }
    }
    out
}

fn sweep_fixture_corruption(cx: &mut Ctx, thorough: bool) {
    let decs = decoders();
    for (fname, bytes, targets) in fixtures() {
        let my: Vec<&Entry> = decs.iter().filter(|(n, _)| targets.iter().any(|t| n.starts_with(t))).collect();
        for c in number_blowups(&bytes) {
            for (name, f) in &my {
                cx.case(name, || f(&c), || json!({"sweep": "fixture-corruption", "fixture": fname, "input_hex": util::hex(&c), "kind": "number replaced"}));
            }
        }
    }
    for (fname, bytes, targets) in fixtures() {
        let stride = if thorough { 1 } else { (bytes.len() / 160).max(1) };
        let my_decs: Vec<&Entry> = decs.iter().filter(|(n, _)| targets.iter().any(|t| n.starts_with(t))).collect();
        for c in corruptions(&bytes, stride) {
            for (name, f) in &my_decs {
                cx.case(name, || f(&c), || json!({"sweep": "fixture-corruption", "fixture": fname, "input_hex": util::hex(&c)}));
            }
        }
    }
}

fn json_fixture_docs() -> Vec<(&'static str, Value)> {
    let mut v = vec![];
    for (n, b, _) in fixtures() {
        if let Ok(j) = serde_json::from_slice::<Value>(&b) {
            if j.is_object() {
                v.push((n, j));
            }
        }
    }
    v
}

fn sweep_json_node_mutation(cx: &mut Ctx, thorough: bool) {
    let decs = decoders();
    let json_decs: Vec<&Entry> = decs.iter().filter(|(n, _)| n.starts_with("serde:") || n.starts_with("MetadataWrapper::") || n.starts_with("MetablockBuilder") || n.starts_with("Json::") || n.starts_with("EnvelopeFile")).collect();
    for (fname, doc) in json_fixture_docs() {
        let muts = node_mutations(&doc);
        let stride = if thorough { 1 } else { (muts.len() / 1500).max(1) };
        for m in muts.iter().step_by(stride) {
            for (name, f) in &json_decs {
                // only decoders for which the fixture makes sense, plus the generic ones
                cx.case(name, || f(m.as_bytes()), || json!({"sweep": "json-node-mutation", "fixture": fname, "text": m}));
            }
        }
    }
}

fn hostile_paths() -> Vec<&'static str> {
    vec!["", ".", "..", "./a", "a/../b", "/abs", "a//b", "é", "a/", "../x", "a\u{0}b", "./", "a/./b", "*", "[", "b"]
}

fn hostile_patterns() -> Vec<String> {
    vec!["[".into(), "**a".into(), "a**".into(), "*".repeat(64), "]".into(), "[!".into(), "[a-".into(), "\\".into(), "".into(), "é".repeat(30), "?".repeat(200), "{a,b}".into(), "[[]".into(), "a/**/b".into(), "**/".into(), "*a*a*a*a*a*a*a*a*a*a*a*a*a*a*a*a*a*a*a*a*b".into(), "*".repeat(10_000)]
}

fn sweep_adversarial_rules(cx: &mut Ctx) {
    // artifact paths x rule patterns x rule kinds through the rule engine
    let paths = hostile_paths();
    let pats = hostile_patterns();
    let long_a = "a".repeat(40);
    for (i, p1) in paths.iter().enumerate() {
        for p2 in paths.iter().skip(i) {
            let mut links = HashMap::new();
            let m: Vec<(&str, u8)> = vec![(p1, 1), (p2, 2), (&long_a, 3)];
            let p: Vec<(&str, u8)> = vec![(p1, 1), (p2, 9)];
            links.insert("item".to_string(), world::link("item", world::arts(&m), world::arts(&p)));
            links.insert("other".to_string(), world::link("other", world::arts(&p), world::arts(&m)));
            for pat in pats.iter().map(|s| s.as_str()).chain(paths.iter().copied()) {
                let mk: Vec<ArtifactRule> = vec![
                    ArtifactRule::Create(world::vpath(pat)),
                    ArtifactRule::Delete(world::vpath(pat)),
                    ArtifactRule::Modify(world::vpath(pat)),
                    ArtifactRule::Allow(world::vpath(pat)),
                    ArtifactRule::Require(world::vpath(pat)),
                    ArtifactRule::Disallow(world::vpath(pat)),
                    ArtifactRule::Match { pattern: world::vpath(pat), in_src: Some(p1.to_string()), with: Artifact::Products, in_dst: Some(p2.to_string()), from: "other".into() },
                    ArtifactRule::Match { pattern: world::vpath(pat), in_src: None, with: Artifact::Materials, in_dst: None, from: "missing".into() },
                ];
                for r in mk {
                    let rj = serde_json::to_value(&r).unwrap();
                    let item: Box<dyn SupplyChainItem> = Box::new(Step::new("item").add_expected_material(r.clone()).add_expected_product(r));
                    cx.case(
                        "rule application",
                        || {
                            let _ = in_toto::verif_hooks::apply_rules(&item, &links);
                        },
                        || json!({"sweep": "adversarial-rules", "artifact_paths": [p1, p2], "rule": rj}),
                    );
                }
            }
        }
    }
    // an item without a link, empty everything
    let item: Box<dyn SupplyChainItem> = Box::new(Inspection::new(""));
    cx.case("rule application", || drop(in_toto::verif_hooks::apply_rules(&item, &HashMap::new())), || json!({"sweep": "adversarial-rules", "what": "no link for item"}));
}

fn hostile_link_files() -> Vec<(String, String)> {
    // (description, file content) placed as `s.<8 chars>.link` files
    let a = keys::get("ed1");
    let good = world::sign_link(world::link("s", world::arts(&[("m", 1)]), world::arts(&[("p", 2)])), &[a]);
    let gv = world::block_value(&good);
    let mut v: Vec<(String, String)> = vec![
        ("empty file".into(), "".into()),
        ("not json".into(), "{".into()),
        ("json null".into(), "null".into()),
        ("empty object".into(), "{}".into()),
        ("no signatures".into(), json!({"signatures": [], "signed": gv["signed"]}).to_string()),
    ];
    // key ids: 64 bytes long with a multi-byte character across byte 8, and friends
    for kid in ["é".repeat(32), format!("{}é{}", "a".repeat(7), "a".repeat(55)), format!("{}\u{10000}{}", "a".repeat(6), "a".repeat(54)), "\u{0}".repeat(64), " ".repeat(64), "A".repeat(64), format!("{}é{}", "a".repeat(8), "a".repeat(54))] {
        let mut d = gv.clone();
        d["signatures"][0]["keyid"] = json!(kid);
        v.push((format!("keyid {kid:?}"), d.to_string()));
    }
    // a link labelled with a key id that a step may list although no key is defined for it
    {
        let mut d = gv.clone();
        d["signatures"][0]["keyid"] = json!("a".repeat(64));
        v.push(("keyid aaaa... (no such key), signature kept".into(), d.to_string()));
        d["signatures"][0]["sig"] = json!("00");
        v.push(("keyid aaaa... (no such key), signature 00".into(), d.to_string()));
        let other = world::sign_link(world::link("s", world::arts(&[("m", 1)]), world::arts(&[("p", 2)])), &[keys::get("ed3")]);
        v.push(("validly signed by a key outside the key table".into(), world::block_text(&other)));
    }
    // artifact paths
    for p in hostile_paths() {
        let mut d = gv.clone();
        d["signed"]["materials"] = json!({p: {"sha256": "00"}, "./a": {"sha256": "11"}});
        d["signed"]["products"] = json!({p: {"sha256": "22"}, "./a": {"sha256": "33"}, "a": {"sha256": "44"}});
        // (a library that refuses such a path when parsing or signing is within its rights: then
        // only the unsigned text remains)
        if let Ok(meta) = serde_json::from_str::<in_toto::models::MetadataWrapper>(&d["signed"].to_string()) {
            if let Guard::Done(mb) = guard(|| world::sign(meta, &[a])) {
                v.push((format!("paths {p:?} signed"), world::block_text(&mb)));
            }
        }
        v.push((format!("paths {p:?} unsigned"), d.to_string()));
    }
    // extreme values
    let mut d = gv.clone();
    d["signed"]["byproducts"]["return-value"] = json!(i64::MAX);
    v.push(("return-value i64::MAX".into(), d.to_string()));
    let mut d = gv.clone();
    d["signed"]["materials"] = json!({"a": {}});
    v.push(("empty digest map".into(), d.to_string()));
    let mut d = gv.clone();
    d["signed"]["materials"] = json!({"a": {"sha256": ""}});
    v.push(("empty digest".into(), d.to_string()));
    // a layout where a link is expected (delegation) with hostile content
    let mut sub = |name: &str, mk: &dyn Fn() -> LayoutMetadata| {
        // built under guard: a library that refuses such a layout at construction leaves the case out
        if let Guard::Done(text) = guard(|| world::block_text(&world::sign_layout(mk(), &[a]))) {
            v.push((name.to_string(), text));
        }
    };
    sub("sublayout hostile step name", &|| world::layout(vec![world::step("in/../x", u32::MAX, &[])], vec![], &[], world::far_future()));
    sub("sublayout glob step names", &|| world::layout(vec![world::step("[", 0, &[a]), world::step("*", 0, &[a]), world::step("", 1, &[a])], vec![], &[a], world::far_future()));
    sub("sublayout expired", &|| world::layout(vec![], vec![], &[], world::now() - chrono::Duration::days(1)));
    v
}

fn hostile_layouts() -> Vec<(String, LayoutMetadata)> {
    let a = keys::get("ed1");
    let mut v = vec![];
    for name in ["s", "", "[", "*", "s*", "a/b", "../s", "s.", ".", "s\u{0}", "é", "?", "[ab]", "[a-z]*", "s.x", "ééééééééé", "?????????????"] {
        for thr in [0u32, 1, u32::MAX] {
            let st = world::step(name, thr, &[a])
                .add_expected_material(ArtifactRule::Match { pattern: "*".into(), in_src: Some("./".into()), with: Artifact::Products, in_dst: None, from: name.into() })
                .add_expected_product(ArtifactRule::Modify("./a".into()))
                .add_expected_product(ArtifactRule::Disallow("[".into()));
            if let Guard::Done(l) = guard(|| world::layout(vec![st.clone()], vec![], &[a], world::far_future())) {
                v.push((format!("step {name:?} threshold {thr}"), l));
            }
        }
    }
    // a step that lists key ids the key table does not define (a dangling id, and the id
    // of a key that is simply not in the table); the hostile link files are labelled with them
    {
        let mut st = world::step("s", 1, &[keys::get("ed3")]);
        st.pub_keys.push(KeyId::from_str(&"a".repeat(64)).unwrap());
        v.push(("step with key ids missing from the key table".into(), world::layout(vec![st], vec![], &[a], world::far_future())));
    }
    // duplicate step names, step and inspection with the same name, inspection with empty command
    v.push(("duplicate step names".into(), world::layout(vec![world::step("s", 1, &[a]), world::step("s", 1, &[a])], vec![], &[a], world::far_future())));
    v.push(("inspection without command".into(), world::layout(vec![world::step("s", 1, &[a])], vec![Inspection::new("s"), Inspection::new("")], &[a], world::far_future())));
    v.push(("no steps".into(), world::layout(vec![], vec![], &[], world::far_future())));
    v
}

fn sweep_adversarial_verify(cx: &mut Ctx, dir: &Path) {
    let owner = keys::get("ed6");
    let a = keys::get("ed1");
    let files = hostile_link_files();
    let layouts = hostile_layouts();
    let cwd = dir.join("cwd");
    std::fs::create_dir_all(&cwd).unwrap();
    std::env::set_current_dir(&cwd).unwrap();
    let linkdir = dir.join("links");
    for (ldesc, lay) in &layouts {
        let Guard::Done(block) = guard(|| world::sign_layout(lay.clone(), &[owner])) else { continue };
        let step_name = lay.steps.first().map(|s| s.name.clone()).unwrap_or("s".into());
        for (fdesc, content) in &files {
            let (ld, fd, bl, sn, ct) = (ldesc.clone(), fdesc.clone(), &block, step_name.clone(), content);
            let linkdir = linkdir.clone();
            cx.case_reporting(
                "in_toto_verify(hostile link directory)",
                move || {
                    let mut panics = vec![];
                    let mut see = |v: world::Verdict| {
                        if let world::Verdict::Panic(l, m) = v {
                            panics.push((l, m));
                        }
                    };
                    let _ = std::fs::remove_dir_all(&linkdir);
                    std::fs::create_dir_all(&linkdir).unwrap();
                    // the hostile file under the authorised key's prefix and under arbitrary prefixes
                    // eight *characters* after the step name match the glob `????????`; several of
                    // these names have a multi-byte character across byte 8 of that part
                    for prefix in [a.prefix(), keys::get("ed3").prefix(), "aaaaaaaa".to_string(), "éééé".to_string(), "aaaaaaaé".to_string(), "éééééééé".to_string(), "€€€€€€€€".to_string(), "aaaaaa\u{10000}a".to_string(), "aaa".to_string(), "aaaaaaaaa".to_string()] {
                        let safe = sn.replace('/', "_").replace('\0', "_");
                        let _ = std::fs::write(linkdir.join(format!("{safe}.{prefix}.link")), ct);
                        let _ = std::fs::write(linkdir.join(format!("s.{prefix}.link")), ct);
                    }
                    let _ = std::fs::create_dir_all(linkdir.join(format!("s.{}", a.prefix())));
                    // names that are shorter than the step name, or only the step name
                    let _ = std::fs::write(linkdir.join("s.link"), ct);
                    let _ = std::fs::write(linkdir.join(".link"), ct);
                    let _ = std::fs::write(linkdir.join("a.link"), ct);
                    let _ = std::fs::write(linkdir.join("b"), ct);
                    see(world::verify(bl, world::owner_map(&[owner]), &linkdir));
                    // wrong kind of block as layout, and no keys at all
                    if let Ok(mb) = serde_json::from_str::<Metablock>(ct) {
                        see(world::verify(&mb, world::owner_map(&[a]), &linkdir));
                        see(world::verify(&mb, world::owner_map(&[]), &linkdir));
                    }
                    panics
                },
                move || json!({"sweep": "adversarial-verify", "layout": ld, "link_file": fd}),
            );
        }
    }
    let _ = std::env::set_current_dir("/");
}

/// Link-directory entries that are not regular UTF-8 files, and delegation trees that are deep,
/// self-similar or hostile below the first level. The layouts are plain and validly signed; every
/// signature that is needed for the recursion to proceed is genuine (the same signed documents are
/// simply placed again), so this is what anyone with write access to the directory can arrange.
fn sweep_adversarial_entries(cx: &mut Ctx, dir: &Path) {
    let owner = keys::get("ed6");
    let a = keys::get("ed1");
    let cwd = dir.join("cwd");
    std::fs::create_dir_all(&cwd).unwrap();
    std::env::set_current_dir(&cwd).unwrap();
    let linkdir = dir.join("links2");
    let outer = world::sign_layout(world::layout(vec![world::step("s", 1, &[a])], vec![], &[a], world::far_future()), &[owner]);
    let good = world::block_text(&world::sign_link(world::link("s", world::arts(&[("m", 1)]), world::arts(&[("p", 2)])), &[a]));
    // a sub-layout signed by A that delegates step `s` to A again
    let self_similar = world::block_text(&world::sign_layout(world::layout(vec![world::step("s", 1, &[a])], vec![], &[a], world::far_future()), &[a]));
    let fname = world::link_file("s", a);
    let subname = format!("s.{}", a.prefix());
    type Setup = Box<dyn Fn(&Path)>;
    let w = |p: std::path::PathBuf, bytes: Vec<u8>| {
        let _ = std::fs::write(p, bytes);
    };
    let mut setups: Vec<(String, Setup)> = vec![];
    // (1) contents that are not UTF-8 text
    for (n, bytes) in [
        ("one 0xff byte", vec![0xffu8]),
        ("valid link with a 0xff byte appended", [good.as_bytes(), &[0xff]].concat()),
        ("valid link with a 0xff byte inside a string", good.replacen("\"s\"", "\"s\u{0}\"", 1).replace('\u{0}', "\u{fffd}").into_bytes().iter().map(|b| if *b == 0xef { 0xff } else { *b }).collect()),
        ("UTF-8 BOM + valid link", [&[0xef, 0xbb, 0xbf][..], good.as_bytes()].concat()),
        ("valid link + NUL", [good.as_bytes(), &[0]].concat()),
        ("UTF-16 LE text", good.encode_utf16().flat_map(|u| u.to_le_bytes()).collect()),
        ("lone surrogate escape in a string", good.replacen("\"s\"", "\"\\ud800\"", 1).into_bytes()),
        ("1 MiB of '['", vec![b'['; 1 << 20]),
        ("100 000 nested arrays", [vec![b'['; 100_000], vec![b']'; 100_000]].concat()),
        ("1 MiB of zeros", vec![0u8; 1 << 20]),
    ] {
        let (f, b) = (fname.clone(), bytes.clone());
        setups.push((format!("file content: {n}"), Box::new(move |d| w(d.join(&f), b.clone()))));
    }
    // (2) entries that are not regular files
    {
        let f = fname.clone();
        setups.push(("a directory named like a link file".into(), Box::new(move |d| {
            let _ = std::fs::create_dir_all(d.join(&f));
        })));
        let f = fname.clone();
        setups.push(("a dangling symlink named like a link file".into(), Box::new(move |d| {
            let _ = std::os::unix::fs::symlink("no-such-target", d.join(&f));
        })));
        let f = fname.clone();
        setups.push(("a symlink to itself named like a link file".into(), Box::new(move |d| {
            let _ = std::os::unix::fs::symlink(&f, d.join(&f));
        })));
        let f = fname.clone();
        setups.push(("a symlink to the link directory named like a link file".into(), Box::new(move |d| {
            let _ = std::os::unix::fs::symlink(".", d.join(&f));
        })));
        let (f, g) = (fname.clone(), good.clone());
        setups.push(("a symlink to a valid link elsewhere".into(), Box::new(move |d| {
            let _ = std::fs::write(d.join("elsewhere"), &g);
            let _ = std::os::unix::fs::symlink("elsewhere", d.join(&f));
        })));
        let (f, g) = (fname.clone(), good.clone());
        setups.push(("an unreadable (mode 000) link file".into(), Box::new(move |d| {
            use std::os::unix::fs::PermissionsExt;
            let _ = std::fs::write(d.join(&f), &g);
            let _ = std::fs::set_permissions(d.join(&f), std::fs::Permissions::from_mode(0o000));
        })));
    }
    // (3) delegation trees
    {
        let (f, s, sub) = (fname.clone(), self_similar.clone(), subname.clone());
        setups.push(("self-similar sub-layout, sub-directory is a symlink to its parent".into(), Box::new(move |d| {
            let _ = std::fs::write(d.join(&f), &s);
            let _ = std::os::unix::fs::symlink(".", d.join(&sub));
        })));
        for depth in [8usize, 64, 300] {
            let (f, s, sub, g) = (fname.clone(), self_similar.clone(), subname.clone(), good.clone());
            setups.push((format!("self-similar sub-layout nested {depth} real directories deep, a plain link at the bottom"), Box::new(move |d| {
                let mut cur = d.to_path_buf();
                for _ in 0..depth {
                    if std::fs::write(cur.join(&f), &s).is_err() {
                        return;
                    }
                    cur = cur.join(&sub);
                    if std::fs::create_dir_all(&cur).is_err() {
                        return;
                    }
                }
                let _ = std::fs::write(cur.join(&f), &g);
            })));
        }
        // hostile content below the first level: every hostile link file inside the sub-directory
        for (fdesc, content) in hostile_link_files().into_iter().step_by(3) {
            let (f, s, sub) = (fname.clone(), self_similar.clone(), subname.clone());
            setups.push((format!("hostile file inside the sub-layout's directory: {fdesc}"), Box::new(move |d| {
                let _ = std::fs::write(d.join(&f), &s);
                let _ = std::fs::create_dir_all(d.join(&sub));
                let _ = std::fs::write(d.join(&sub).join(&f), &content);
                let _ = std::fs::write(d.join(&sub).join("s.aaaaaaaa.link"), &content);
            })));
        }
        let (f, s, sub) = (fname.clone(), self_similar.clone(), subname.clone());
        setups.push(("the sub-layout's directory is a regular file".into(), Box::new(move |d| {
            let _ = std::fs::write(d.join(&f), &s);
            let _ = std::fs::write(d.join(&sub), "not a directory");
        })));
    }
    for (desc, setup) in setups {
        let (ld, bl, d2) = (linkdir.clone(), &outer, desc.clone());
        cx.case_reporting(
            "in_toto_verify(hostile directory entries)",
            move || {
                // mode-000 files and deep trees of the previous case
                let _ = std::process::Command::new("chmod").args(["-R", "u+rwx"]).arg(&ld).output();
                let _ = std::fs::remove_dir_all(&ld);
                std::fs::create_dir_all(&ld).unwrap();
                setup(&ld);
                let mut panics = vec![];
                if let world::Verdict::Panic(l, m) = world::verify(bl, world::owner_map(&[owner]), &ld) {
                    panics.push((l, m));
                }
                panics
            },
            move || json!({"sweep": "adversarial-entries", "directory": d2}),
        );
    }
    // (4) recording entry points on paths that do not name a readable regular file
    for p in ["no-such-file", "", ".", "/", "/dev/null", "\u{0}", "a\u{0}b", "no/such/dir/file"] {
        let pp = p.to_string();
        cx.case(
            "record_artifact / record_artifacts",
            move || {
                let _ = in_toto::runlib::record_artifact(&pp, &[in_toto::crypto::HashAlgorithm::Sha256], None);
                let _ = in_toto::runlib::record_artifacts(&[&pp], None, None);
            },
            || json!({"sweep": "adversarial-entries", "path": p}),
        );
    }
    let _ = std::env::set_current_dir("/");
}

/// Every decoder on its own valid fixtures (and a few broken ones) while standard output and
/// standard error cannot be written (both point at /dev/full): a library that prints on a parse
/// path panics there ("failed printing to stdout").
fn sweep_unwritable_stdio(cx: &mut Ctx) {
    let decs = decoders();
    let fx = fixtures();
    let (saved_out, saved_err, full) = unsafe {
        let full = libc::open(b"/dev/full\0".as_ptr() as *const libc::c_char, libc::O_WRONLY);
        (libc::dup(1), libc::dup(2), full)
    };
    if saved_out < 0 || saved_err < 0 || full < 0 {
        cx.acc.note("unwritable-stdio sweep skipped: /dev/full not available");
        return;
    }
    for (fname, bytes, targets) in &fx {
        let my: Vec<&Entry> = decs.iter().filter(|(n, _)| targets.iter().any(|t| n.starts_with(t))).collect();
        let mut inputs = vec![bytes.clone(), bytes[..bytes.len() / 2].to_vec(), b"{}".to_vec()];
        inputs.dedup();
        for input in &inputs {
            for (name, f) in &my {
                cx.case(
                    name,
                    || {
                        unsafe {
                            libc::dup2(full, 1);
                            libc::dup2(full, 2);
                        }
                        let r = std::panic::catch_unwind(std::panic::AssertUnwindSafe(|| f(input)));
                        unsafe {
                            libc::dup2(saved_out, 1);
                            libc::dup2(saved_err, 2);
                        }
                        if let Err(e) = r {
                            std::panic::resume_unwind(e);
                        }
                    },
                    || json!({"sweep": "unwritable-stdio", "fixture": fname, "input_hex": util::hex(&input[..input.len().min(400)]), "stdout_and_stderr": "/dev/full"}),
                );
            }
        }
    }
    unsafe {
        libc::close(full);
        libc::close(saved_out);
        libc::close(saved_err);
    }
}

/// Verification that gets as far as the inspections: the step is satisfied by a genuine link,
/// and the layout's inspection has an unusual but representable command - nothing to run, an
/// executable that does not exist or is a directory, a command that fails, is killed, prints bytes
/// that are not UTF-8 or a lot of them, or leaves oddly named entries in the working directory
/// (what unpacking an attacker-made product archive does). The verdict is free; a crash is not.
fn sweep_inspection_commands(cx: &mut Ctx, dir: &Path) {
    let owner = keys::get("ed6");
    let a = keys::get("ed1");
    let linkdir = dir.join("insp-links");
    std::fs::create_dir_all(&linkdir).unwrap();
    world::write(&linkdir, &world::link_file("s", a), &world::block_text(&world::sign_link(world::link("s", world::arts(&[]), world::arts(&[("p", 2)])), &[a])));
    let sh = |script: &str| vec!["sh".to_string(), "-c".to_string(), script.to_string()];
    let runs: Vec<(&str, Vec<String>)> = vec![
        ("nothing to run", vec![]),
        ("empty executable name", vec![String::new()]),
        ("executable does not exist", vec!["/nonexistent/cmd".to_string()]),
        ("executable is a directory", vec!["/".to_string()]),
        ("argument with a NUL", vec!["true".to_string(), "a\0b".to_string()]),
        ("exit 3", sh("exit 3")),
        ("exit 255", sh("exit 255")),
        ("killed by a signal", sh("kill -9 $$")),
        ("stdout not UTF-8", sh("printf '\\377\\376'")),
        ("stderr not UTF-8", sh("printf '\\377' >&2")),
        ("300 kB of output", sh("head -c 300000 /dev/zero | tr '\\0' x")),
        ("leaves a file whose name is not UTF-8", sh("touch \"$(printf 'caf\\351')\"")),
        ("leaves files named like patterns", sh("touch '*' '[' '?' ' ' 'a\nb'")),
        ("leaves a dangling symlink", sh("ln -s /nonexistent dangling")),
        ("leaves a symlink to the working directory", sh("ln -s . loop")),
        ("leaves a directory whose name is not UTF-8", sh("mkdir \"$(printf 'd\\377')\" && touch \"$(printf 'd\\377')/f\"")),
        ("leaves a symlink to /dev/zero", sh("ln -s /dev/zero zero")),
        ("leaves a symlink to /dev/urandom", sh("ln -s /dev/urandom rnd")),
        ("leaves a symlink to /dev/null", sh("ln -s /dev/null nul")),
        ("leaves a fifo and a symlink to it", sh("mkfifo fifo && ln -s fifo tofifo")),
        ("leaves a symlink to a directory of devices", sh("ln -s /dev/pts pts")),
        ("removes the working directory", sh("rm -rf \"$PWD\"")),
    ];
    let rule_sets: Vec<(&str, Vec<ArtifactRule>)> = vec![("no rules", vec![]), ("ALLOW *.link, DISALLOW *", vec![ArtifactRule::Allow("*.link".into()), ArtifactRule::Disallow("*".into())]), ("MATCH * WITH PRODUCTS FROM s", vec![ArtifactRule::Match { pattern: "*".into(), in_src: None, with: Artifact::Products, in_dst: None, from: "s".into() }])];
    for (rname, run) in &runs {
        for (rsname, rules) in &rule_sets {
            for second in [false, true] {
                let mut insp = Inspection::new("i").run(run.clone().into());
                for r in rules {
                    insp = insp.add_expected_product(r.clone()).add_expected_material(r.clone());
                }
                let mut inspections = vec![insp];
                if second {
                    inspections.push(Inspection::new("after").run(vec!["true".to_string()].into()));
                }
                let Guard::Done(block) = guard(|| world::sign_layout(world::layout(vec![world::step("s", 1, &[a])], inspections.clone(), &[a], world::far_future()), &[owner])) else { continue };
                let cwd = dir.join("insp-cwd");
                let linkdir = linkdir.clone();
                let (rn, rsn) = (rname.to_string(), rsname.to_string());
                cx.case_reporting(
                    "in_toto_verify(unusual inspection command)",
                    move || {
                        let _ = std::fs::remove_dir_all(&cwd);
                        std::fs::create_dir_all(&cwd).unwrap();
                        std::env::set_current_dir(&cwd).unwrap();
                        let mut panics = vec![];
                        if let world::Verdict::Panic(l, m) = world::verify(&block, world::owner_map(&[owner]), &linkdir) {
                            panics.push((l, m));
                        }
                        let _ = std::env::set_current_dir("/");
                        panics
                    },
                    move || json!({"sweep": "inspection-commands", "run": rn, "rules": rsn, "second_inspection": second}),
                );
            }
        }
    }
}

// ---------------------------------------------------- shard entry (child)

pub fn shard_main(args: &[String]) -> ! {
    // args: sweep shard n start outdir thorough
    let sweep = args[0].clone();
    let shard: u64 = args[1].parse().unwrap();
    let n: u64 = args[2].parse().unwrap();
    let start: u64 = args[3].parse().unwrap();
    let outdir = PathBuf::from(&args[4]);
    let thorough = args[5] == "1";
    util::capture_stdout(Some(&outdir.join(format!("log-{sweep}-{shard}"))));
    let inflight_path = outdir.join(format!("inflight-{sweep}-{shard}"));
    let mut inflight = std::fs::OpenOptions::new().create(true).write(true).truncate(true).open(&inflight_path).unwrap();
    let mut progress = |i: u64, entry: &str| {
        use std::io::Seek;
        let _ = inflight.seek(std::io::SeekFrom::Start(0));
        let _ = inflight.write_all(format!("{i:>20} {entry:<60}\n").as_bytes());
    };
    let mut acc = Acc::new();
    let dir = util::fresh_dir("c14");
    {
        let mut cx = Ctx { thorough, shard, n, start, idx: 0, progress: &mut progress, acc: &mut acc };
        match sweep.as_str() {
            "short-bytes" => sweep_short_bytes(&mut cx, if thorough { 4 } else { 3 }),
            "fixture-corruption" => sweep_fixture_corruption(&mut cx, thorough),
            "json-node-mutation" => sweep_json_node_mutation(&mut cx, thorough),
            "adversarial-rules" => sweep_adversarial_rules(&mut cx),
            "adversarial-verify" => sweep_adversarial_verify(&mut cx, &dir),
            "adversarial-entries" => sweep_adversarial_entries(&mut cx, &dir),
            "unwritable-stdio" => sweep_unwritable_stdio(&mut cx),
            "inspection-commands" => sweep_inspection_commands(&mut cx, &dir),
            _ => {}
        }
        let total = cx.idx;
        acc.note_n(&format!("cases_total:{sweep}"), if shard == 0 { total } else { 0 });
    }
    let res = json!({
        "evaluations": acc.evaluations,
        "outcomes": acc.outcomes,
        "notes": acc.notes,
        "violations": acc.violations.values().map(|v| json!({"key": v.key, "what": v.what, "witness": v.witness, "count": v.count})).collect::<Vec<_>>(),
    });
    std::fs::write(outdir.join(format!("result-{sweep}-{shard}.json")), res.to_string()).unwrap();
    util::cleanup_scratch();
    std::process::exit(0);
}

// ------------------------------------------------------ supervisor (parent)

struct Shard {
    sweep: &'static str,
    shard: u64,
    start: u64,
    child: std::process::Child,
    last_progress: String,
    last_change: Instant,
    deaths: u32,
}

fn spawn(sweep: &'static str, shard: u64, n: u64, start: u64, outdir: &Path, thorough: bool) -> std::process::Child {
    Command::new(std::env::current_exe().unwrap())
        .args(["worker", "c14shard", sweep, &shard.to_string(), &n.to_string(), &start.to_string(), outdir.to_str().unwrap(), if thorough { "1" } else { "0" }])
        .stdin(Stdio::null())
        .stdout(Stdio::null())
        .stderr(Stdio::null())
        .spawn()
        .unwrap_or_else(|e| util::machinery_error(&format!("cannot spawn shard: {e}")))
}

pub fn run(tier: Tier) -> i32 {
    let mut c = Check::new("C14", "fault_enumeration", tier);
    let thorough = tier.thorough();
    let outdir = util::fresh_dir("c14-out");
    let stall = Duration::from_secs(if thorough { 60 } else { 20 });
    let mut acc = Acc::new();
    let n_threads = util::n_threads() as u64;
    let mut caps: Vec<String> = vec![];
    for sweep in SWEEPS {
        let n = if sweep == "adversarial-verify" || sweep == "adversarial-entries" || sweep == "inspection-commands" { n_threads.min(8) } else { n_threads };
        let mut shards: Vec<Shard> = (0..n)
            .map(|s| Shard { sweep, shard: s, start: 0, child: spawn(sweep, s, n, 0, &outdir, thorough), last_progress: String::new(), last_change: Instant::now(), deaths: 0 })
            .collect();
        let mut done = vec![false; n as usize];
        while done.iter().any(|d| !d) {
            std::thread::sleep(Duration::from_millis(20));
            for sh in shards.iter_mut() {
                if done[sh.shard as usize] {
                    continue;
                }
                let inflight = std::fs::read_to_string(outdir.join(format!("inflight-{}-{}", sh.sweep, sh.shard))).unwrap_or_default();
                if inflight != sh.last_progress {
                    sh.last_progress = inflight.clone();
                    sh.last_change = Instant::now();
                }
                let status = sh.child.try_wait().ok().flatten();
                let result_file = outdir.join(format!("result-{}-{}.json", sh.sweep, sh.shard));
                let mut failed: Option<String> = None;
                if let Some(st) = status {
                    if st.success() && result_file.exists() {
                        let r: Value = serde_json::from_str(&std::fs::read_to_string(&result_file).unwrap()).unwrap_or(Value::Null);
                        acc.evaluations += r["evaluations"].as_u64().unwrap_or(0);
                        for (k, v) in r["outcomes"].as_object().cloned().unwrap_or_default() {
                            *acc.outcomes.entry(k).or_insert(0) += v.as_u64().unwrap_or(0);
                        }
                        for (k, v) in r["notes"].as_object().cloned().unwrap_or_default() {
                            acc.note_n(&k, v.as_u64().unwrap_or(0));
                        }
                        for v in r["violations"].as_array().cloned().unwrap_or_default() {
                            let key = v["key"].as_str().unwrap_or("?").to_string();
                            for _ in 0..v["count"].as_u64().unwrap_or(1).min(1) {
                                acc.violation(&key, v["what"].as_str().unwrap_or(""), || v["witness"].clone());
                            }
                        }
                        let _ = std::fs::remove_file(&result_file);
                        done[sh.shard as usize] = true;
                        continue;
                    }
                    failed = Some(format!("died ({st})"));
                } else if sh.last_change.elapsed() > stall && !sh.last_progress.is_empty() {
                    let _ = sh.child.kill();
                    let _ = sh.child.wait();
                    failed = Some(format!("made no progress for {} s", stall.as_secs()));
                }
                if let Some(why) = failed {
                    // attribute to the case in flight and resume after it
                    let mut it = inflight.split_whitespace();
                    let idx: u64 = it.next().and_then(|s| s.parse().ok()).unwrap_or(sh.start);
                    let entry: String = inflight.trim().splitn(2, ' ').nth(1).unwrap_or("?").trim().to_string();
                    let kind = if why.starts_with("made no progress") { "timeout" } else { "crash" };
                    acc.outcome(kind);
                    acc.violation(
                        &format!("{kind}:{entry}"),
                        &format!("{entry}: the shard process {why} while this case was in flight (abort / stack overflow / signal / non-termination)"),
                        || json!({"sweep": sh.sweep, "case_index": idx, "shard": sh.shard, "of": n, "entry": entry, "thorough": thorough}),
                    );
                    sh.deaths += 1;
                    if sh.deaths > 25 {
                        if entry == "?" {
                            // the worker never got as far as naming a case: not a verdict about the library
                            util::machinery_error(&format!("C14: shard {} of sweep {} died more than 25 times without a case in flight", sh.shard, sh.sweep));
                        }
                        // round 12: a change that makes a whole family of cases die (every hostile link file
                        // under a layout with threshold u32::MAX, say) is a violation to report, not a reason to
                        // give up: the 26 deaths are reported, the rest of this shard is left unexplored and
                        // the cap is recorded in the evidence
                        caps.push(format!("shard {} of sweep {}: more than 25 cases killed the worker; cases after index {idx} of this shard not run", sh.shard, sh.sweep));
                        done[sh.shard as usize] = true;
                        continue;
                    }
                    sh.start = idx + 1;
                    sh.child = spawn(sh.sweep, sh.shard, n, sh.start, &outdir, thorough);
                    sh.last_progress = String::new();
                    sh.last_change = Instant::now();
                }
            }
        }
    }
    acc.nontrivial = acc.evaluations; // every enumerated case is a distinct corrupted / adversarial input
    acc.sample(|| json!({"sweep": "fixture-corruption", "fixture": "rsa-2048.pk8.der", "edit": "byte 17 := 0x80", "entry": "PrivateKey::from_pkcs8"}));
    acc.sample(|| json!({"sweep": "adversarial-verify", "layout": "step \"[\" threshold 4294967295", "link_file": "keyid with a multi-byte character across byte 8"}));
    c.acc = acc;
    c.caps_hit.extend(caps);
    c.rule = format!(
        "sweeps: (1) every byte string of length <= {} over {{ }} [ ] \" : , 0 - a \\ 0xff into each of {} entry points; (2) every truncation and, at every {}offset, delete / 0x00 / 0x80 / 0xff / low-bit flip / insert 0x30, and every decimal number replaced by 11 boundary spellings, of {} fixtures into the matching entry points; (3) every node of every JSON fixture replaced by each of {} values, deleted, duplicated; (4) hostile artifact paths x hostile patterns x all rule kinds through the rule engine; (5) hostile layouts x hostile link files through in_toto_verify in a private cwd; (7) every decoder on its fixtures while standard output and standard error point at /dev/full; (6) link-directory entries that are not regular UTF-8 files (0xff bytes, BOM, UTF-16, 1 MiB of brackets, a directory / dangling / self-referential symlink / unreadable file named like a link file), delegation trees that are self-similar (sub-directory symlinked to its parent; 8 / 64 / 300 real levels) or hostile below the first level, and record_artifact / record_artifacts on paths that name no readable file (the builder methods add_material / add_product take an operator-chosen path, return no Result and are outside this property). (8) a satisfied step followed by an inspection whose command is unusual (nothing to run, no such executable, a directory, NUL in an argument, exit 3 / 255, killed by a signal, output that is not UTF-8 or is large, entries left in the working directory whose names are not UTF-8 / look like patterns / are dangling or circular symlinks or lead to never-ending special files (/dev/zero, /dev/urandom, a fifo), the working directory removed) x 3 rule sets x with / without a second inspection. Each case also exercises the follow-up calls (verify, prefix, to_bytes, sign). distinct_nontrivial = cases run (each is a distinct input)",
        if thorough { 4 } else { 3 },
        decoders().len(),
        if thorough { "" } else { "(strided) " },
        fixtures().len(),
        replacements().len()
    );
    c.bound_completed = if thorough { "every offset of every fixture; short strings <= 4".into() } else { "strided offsets (about 160 per fixture), strided node mutations (about 1500 per fixture); short strings <= 3".into() };
    c.exhaustive = thorough;
    c.assume("a worker death is attributed to the case whose index was written before the call; release build with overflow checks");
    c.assume(&format!("non-termination = no progress for {} s", stall.as_secs()));
    c.finish()
}

pub fn replay(case: &Value) -> Value {
    // re-run exactly one case index of a sweep in a fresh shard process
    let sweep = SWEEPS.iter().copied().find(|s| Some(*s) == case["sweep"].as_str()).unwrap_or("short-bytes");
    if let Some(hexs) = case["input_hex"].as_str() {
        // direct replay of a byte input into the named entry
        let input = data_encoding::HEXLOWER.decode(hexs.as_bytes()).unwrap_or_default();
        let entry = case["entry"].as_str().unwrap_or("");
        for (name, f) in decoders() {
            if name == entry {
                return match guard(|| f(&input)) {
                    Guard::Done(()) => json!({"returned": true, "violation": null}),
                    Guard::Panicked(l, m) => json!({"panic": l, "message": m, "violation": format!("panic:{l}")}),
                };
            }
        }
    }
    if let Some(t) = case["text"].as_str() {
        let entry = case["entry"].as_str().unwrap_or("");
        for (name, f) in decoders() {
            if name == entry {
                return match guard(|| f(t.as_bytes())) {
                    Guard::Done(()) => json!({"returned": true, "violation": null}),
                    Guard::Panicked(l, m) => json!({"panic": l, "message": m, "violation": format!("panic:{l}")}),
                };
            }
        }
    }
    let Some(idx) = case["case_index"].as_u64() else { return json!({"error": "no case index", "violation": null}) };
    let outdir = util::fresh_dir("c14-replay");
    // shard 0 of 1, starting at idx; the sweep enumerates deterministically, we stop it after the first case by a stall-free wait
    let mut child = spawn(sweep, idx, u64::MAX, idx, &outdir, case["thorough"].as_bool().unwrap_or(false));
    let started = Instant::now();
    loop {
        if let Ok(Some(st)) = child.try_wait() {
            let res = std::fs::read_to_string(outdir.join(format!("result-{sweep}-{idx}.json"))).ok().and_then(|t| serde_json::from_str::<Value>(&t).ok());
            return match (st.success(), res) {
                (true, Some(r)) => json!({"result": r["violations"], "violation": r["violations"].as_array().and_then(|a| a.first()).map(|v| v["key"].clone())}),
                _ => json!({"died": format!("{st}"), "violation": "crash"}),
            };
        }
        if started.elapsed() > Duration::from_secs(120) {
            let _ = child.kill();
            return json!({"timeout": true, "violation": "timeout"});
        }
        std::thread::sleep(Duration::from_millis(20));
    }
}
