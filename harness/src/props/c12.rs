//! C12 — key identity is intrinsic, stable, interoperable and cannot be aliased.
//!
//! E3 over keys x construction paths x hash-algorithm lists (key id must equal
//! the reference preimage hash on every path; standard SPKI encodings must
//! import and re-export unchanged), and E1 over key-table construction
//! histories (append one (label, key) entry): a parsed table never maps an
//! identifier to a key with a different intrinsic identifier, end to end.

use std::str::FromStr;

use in_toto::crypto::{KeyId, PrivateKey, PublicKey, SignatureScheme};
use in_toto::models::{LayoutMetadata, MetadataWrapper};
use serde_json::{json, Value};

use crate::keys;
use crate::olpc;
use crate::report::{Acc, Check, Tier};
use crate::util::{self, guard, Guard};
use crate::world;

const DEFAULT_ALGS: [&str; 2] = ["sha256", "sha512"];

fn id_of(pk: &PublicKey) -> String {
    serde_json::to_value(pk.key_id()).unwrap().as_str().unwrap().to_string()
}

struct Material {
    name: String,
    keytype: &'static str,
    scheme: &'static str,
    scheme_enum: SignatureScheme,
    /// `keyval.public` as the reference writes it (hex or PEM)
    public_text: String,
    raw: Vec<u8>,
    /// standards-conformant SPKI (RFC 8410 / 5480 / 8017)
    spki_std: Vec<u8>,
    /// PKCS#8 private key, where the library can load one (ring signs with <= 4096 bits)
    pk8: Option<&'static [u8]>,
}

fn spki_ed25519_rfc8410(raw: &[u8]) -> Vec<u8> {
    let mut v = vec![0x30, 0x2a, 0x30, 0x05, 0x06, 0x03, 0x2b, 0x65, 0x70, 0x03, 0x21, 0x00];
    v.extend_from_slice(raw);
    v
}

fn spki_p256_rfc5480(raw: &[u8]) -> Vec<u8> {
    let mut v = vec![0x30, 0x59, 0x30, 0x13, 0x06, 0x07, 0x2a, 0x86, 0x48, 0xce, 0x3d, 0x02, 0x01, 0x06, 0x08, 0x2a, 0x86, 0x48, 0xce, 0x3d, 0x03, 0x01, 0x07, 0x03, 0x42, 0x00];
    v.extend_from_slice(raw);
    v
}

fn materials() -> Vec<Material> {
    let mut v = vec![];
    for i in 0..6 {
        let k = keys::ed(i);
        let raw = k.public().as_bytes().to_vec();
        v.push(Material { name: format!("ed{}", i + 1), keytype: "ed25519", scheme: "ed25519", scheme_enum: SignatureScheme::Ed25519, public_text: util::hex(&raw), spki_std: spki_ed25519_rfc8410(&raw), raw, pk8: Some(keys::ED_PK8[i]) });
    }
    for i in 0..3 {
        let k = keys::get(["ec1", "ec2", "ec3"][i]);
        let raw = k.public().as_bytes().to_vec();
        v.push(Material { name: format!("ec{}", i + 1), keytype: "ecdsa", scheme: "ecdsa-sha2-nistp256", scheme_enum: SignatureScheme::EcdsaP256Sha256, public_text: util::hex(&raw), spki_std: spki_p256_rfc5480(&raw), raw, pk8: Some(keys::EC_PK8[i]) });
    }
    for (i, (n, scheme, se)) in [
        ("rsa2048a", "rsassa-pss-sha256", SignatureScheme::RsaSsaPssSha256),
        ("rsa2048b", "rsassa-pss-sha256", SignatureScheme::RsaSsaPssSha256),
        ("rsa4096", "rsassa-pss-sha512", SignatureScheme::RsaSsaPssSha512),
        ("rsa2048-e800001", "rsassa-pss-sha256", SignatureScheme::RsaSsaPssSha256),
        ("rsa2048-e80000001", "rsassa-pss-sha512", SignatureScheme::RsaSsaPssSha512),
    ]
    .into_iter()
    .enumerate()
    {
        let spki = keys::RSA_SPKI[i].to_vec();
        let raw = olpc::rsa_pkcs1_from_spki(&spki).unwrap();
        v.push(Material { name: n.to_string(), keytype: "rsa", scheme, scheme_enum: se, public_text: olpc::pem_public(&spki), raw, spki_std: spki, pk8: Some(keys::RSA_PK8[i]) });
    }
    // more sizes: 3072 bits, and 8192 bits (the largest the verification algorithms take)
    for (n, spki) in keys::RSA_MORE_SPKI {
        let spki = spki.to_vec();
        let raw = olpc::rsa_pkcs1_from_spki(&spki).unwrap();
        let pk8 = if n == "rsa3072" { Some(keys::RSA_3072_PK8) } else { None };
        v.push(Material { name: n.to_string(), keytype: "rsa", scheme: "rsassa-pss-sha256", scheme_enum: SignatureScheme::RsaSsaPssSha256, public_text: olpc::pem_public(&spki), raw, spki_std: spki, pk8 });
    }
    v
}

fn pem_of(der: &[u8]) -> String {
    olpc::pem_public(der)
}

fn check_paths(acc: &mut Acc, m: &Material) {
    let default = Some(&DEFAULT_ALGS[..]);
    // (path name, result, hash-alg list the path uses)
    let mut paths: Vec<(String, Result<PublicKey, String>, Option<Vec<&str>>)> = vec![];
    // the same material under the other RSA-PSS digest: (path, result, scheme name)
    let mut other_scheme: Vec<(String, Result<PublicKey, String>, &'static str)> = vec![];
    let g = |f: &dyn Fn() -> in_toto::Result<PublicKey>| -> Result<PublicKey, String> {
        match guard(f) {
            Guard::Done(Ok(p)) => Ok(p),
            Guard::Done(Err(e)) => Err(format!("{e:?}")),
            Guard::Panicked(l, msg) => Err(format!("PANIC {l}: {msg}")),
        }
    };
    if let Some(pk8) = m.pk8 {
        paths.push(("from_pkcs8".into(), g(&|| PrivateKey::from_pkcs8(pk8, m.scheme_enum.clone()).map(|k| k.public().clone())), default.map(|d| d.to_vec())));
    }
    paths.push(("from_spki(standard DER)".into(), g(&|| PublicKey::from_spki(&m.spki_std, m.scheme_enum.clone())), default.map(|d| d.to_vec())));
    paths.push(("from_pem_spki(standard PEM)".into(), g(&|| PublicKey::from_pem_spki(&pem_of(&m.spki_std), m.scheme_enum.clone())), default.map(|d| d.to_vec())));
    match m.keytype {
        "ed25519" => {
            paths.push(("from_ed25519(raw)".into(), g(&|| PublicKey::from_ed25519(m.raw.clone())), None));
            for (vn, algs) in alg_variants() {
                let a = algs.clone();
                paths.push((format!("from_ed25519_with_keyid_hash_algorithms[{vn}]"), g(&|| PublicKey::from_ed25519_with_keyid_hash_algorithms(m.raw.clone(), a.clone().map(|v| v.iter().map(|s| s.to_string()).collect()))), algs));
            }
            if m.name == "ed1" {
                paths.push(("PrivateKey::from_ed25519(keypair)".into(), g(&|| PrivateKey::from_ed25519(keys::ED1_KEYPAIR).map(|k| k.public().clone())), None));
                paths.push(("from_spki(NULL-parameter DER, as exported by older versions)".into(), g(&|| PublicKey::from_spki(keys::ED1_SPKI_NULL, SignatureScheme::Ed25519)), default.map(|d| d.to_vec())));
            }
        }
        "ecdsa" => {
            paths.push(("from_ecdsa(raw)".into(), g(&|| PublicKey::from_ecdsa(m.raw.clone())), None));
            for (vn, algs) in alg_variants() {
                let a = algs.clone();
                paths.push((format!("from_ecdsa_with_keyid_hash_algorithm[{vn}]"), g(&|| PublicKey::from_ecdsa_with_keyid_hash_algorithm(m.raw.clone(), SignatureScheme::EcdsaP256Sha256, a.clone().map(|v| v.iter().map(|s| s.to_string()).collect()))), algs));
            }
            for (vn, algs) in alg_variants() {
                let a = algs.clone();
                paths.push((format!("from_ecdsa_with_keyid_hash_algorithms[{vn}]"), g(&|| PublicKey::from_ecdsa_with_keyid_hash_algorithms(m.raw.clone(), a.clone().map(|v| v.iter().map(|s| s.to_string()).collect()))), algs));
            }
        }
        _ => {
            let (on, oe) = if m.scheme == "rsassa-pss-sha256" { ("rsassa-pss-sha512", SignatureScheme::RsaSsaPssSha512) } else { ("rsassa-pss-sha256", SignatureScheme::RsaSsaPssSha256) };
            if let Some(pk8) = m.pk8 {
                other_scheme.push(("from_pkcs8[other PSS digest]".into(), g(&|| PrivateKey::from_pkcs8(pk8, oe.clone()).map(|k| k.public().clone())), on));
            }
            other_scheme.push(("from_spki[other PSS digest]".into(), g(&|| PublicKey::from_spki(&m.spki_std, oe.clone())), on));
            let j = json!({"keytype": "rsa", "scheme": on, "keyid_hash_algorithms": DEFAULT_ALGS, "keyval": {"public": m.public_text}}).to_string();
            other_scheme.push(("json[other PSS digest]".into(), match guard(|| serde_json::from_str::<PublicKey>(&j)) {
                Guard::Done(Ok(p)) => Ok(p),
                Guard::Done(Err(e)) => Err(e.to_string()),
                Guard::Panicked(l, msg) => Err(format!("PANIC {l}: {msg}")),
            }, on));
        }
    }
    // one material, two declared schemes, in one process: each key id is the hash of its own description
    for (pname, res, scheme_name) in other_scheme {
        acc.evaluations += 1;
        acc.nontrivial += 1;
        let witness = || json!({"kind": "path", "key": m.name, "path": pname});
        match res {
            Err(e) => acc.violation(&format!("construction-fails:{}:other-scheme", m.keytype), &format!("{pname} fails for {}: {e}", m.name), witness),
            Ok(pk) => {
                let expect = olpc::keyid(m.keytype, scheme_name, default.as_deref(), &m.public_text);
                let got = id_of(&pk);
                if got != expect {
                    acc.violation(&format!("keyid-differs:{}:other-scheme", m.keytype), &format!("{pname}: key id {got} is not the hash of the key's canonical description under {scheme_name} ({expect})"), witness);
                } else {
                    acc.outcome("keyid-intrinsic");
                }
                let rt = serde_json::to_string(&pk).ok().and_then(|t| serde_json::from_str::<PublicKey>(&t).ok());
                if !matches!(rt, Some(ref back) if back == &pk && id_of(back) == got) {
                    acc.violation(&format!("json-roundtrip-changes-key:{}", m.keytype), &format!("{pname}: key does not survive a JSON round trip"), witness);
                }
            }
        }
    }
    // JSON forms
    for (vn, algs) in alg_variants() {
        for (with_keyid, with_private) in [(false, false), (true, false), (false, true), (true, true)] {
            let mut j = json!({"keytype": m.keytype, "scheme": m.scheme, "keyval": {"public": m.public_text}});
            if let Some(a) = &algs {
                j["keyid_hash_algorithms"] = json!(a);
            }
            if with_keyid {
                j["keyid"] = json!("f".repeat(64)); // a lie: must be ignored
            }
            if with_private {
                j["keyval"]["private"] = json!("");
            }
            let txt = j.to_string();
            let r = match guard(|| serde_json::from_str::<PublicKey>(&txt)) {
                Guard::Done(Ok(p)) => Ok(p),
                Guard::Done(Err(e)) => Err(e.to_string()),
                Guard::Panicked(l, msg) => Err(format!("PANIC {l}: {msg}")),
            };
            paths.push((format!("json[{vn},keyid={with_keyid},private={with_private}]"), r, algs.clone()));
        }
    }
    let mut by_algs: std::collections::BTreeMap<String, PublicKey> = Default::default();
    for (pname, res, algs) in paths {
        acc.evaluations += 1;
        acc.nontrivial += 1;
        let expect = olpc::keyid(m.keytype, m.scheme, algs.as_deref(), &m.public_text);
        let witness = || json!({"kind": "path", "key": m.name, "path": pname});
        let class = pname.split(['(', '[']).next().unwrap_or("").to_string();
        match res {
            Err(e) => {
                let std_import = pname.contains("standard");
                if e.starts_with("PANIC") {
                    acc.violation(&format!("construction-panics:{}:{class}", m.keytype), &format!("{pname} panics for {}: {e}", m.name), witness);
                } else if pname.contains("NULL-parameter") {
                    // not a standards-conformant encoding (RFC 8410 forbids the parameter): importing it is a courtesy
                    acc.note("observation:legacy-NULL-parameter-ed25519-spki-not-imported");
                } else if std_import {
                    acc.outcome("standard-spki-rejected");
                    acc.violation(&format!("standard-spki-rejected:{}", m.keytype), &format!("the standards-conformant SubjectPublicKeyInfo of an {} key cannot be imported ({pname}): {e}", m.keytype), witness);
                } else {
                    acc.violation(&format!("construction-fails:{}:{class}", m.keytype), &format!("{pname} fails for {}: {e}", m.name), witness);
                }
            }
            Ok(pk) => {
                let got = id_of(&pk);
                if got != expect {
                    acc.outcome("keyid-differs");
                    acc.violation(&format!("keyid-differs:{}:{class}", m.keytype), &format!("{pname}: key id {got} is not the hash of the key's canonical description ({expect})"), witness);
                } else {
                    acc.outcome("keyid-intrinsic");
                }
                // equal descriptions obtained on different paths are equal keys
                let slot = format!("{algs:?}");
                match by_algs.get(&slot) {
                    None => {
                        by_algs.insert(slot, pk.clone());
                    }
                    Some(first) => {
                        if first != &pk || id_of(first) != got {
                            acc.violation(&format!("paths-disagree:{}", m.keytype), &format!("{pname} yields a key different from the one another path yields for the same description"), witness);
                        }
                    }
                }
                // JSON round trip
                let rt = serde_json::to_string(&pk).ok().and_then(|t| serde_json::from_str::<PublicKey>(&t).ok());
                match rt {
                    Some(back) if back == pk && id_of(&back) == got => {}
                    _ => acc.violation(&format!("json-roundtrip-changes-key:{}", m.keytype), &format!("{pname}: key does not survive a JSON round trip"), witness),
                }
                // SPKI export / re-import
                if pname.contains("standard DER") {
                    match guard(|| pk.as_spki()) {
                        Guard::Done(Ok(der)) if der == m.spki_std => acc.outcome("spki-reexport-identical"),
                        Guard::Done(Ok(der)) => {
                            acc.outcome("spki-reexport-differs");
                            acc.violation(&format!("spki-export-differs:{}", m.keytype), &format!("as_spki() of an imported standard {} SubjectPublicKeyInfo returns different bytes ({} vs {})", m.keytype, util::hex(&der), util::hex(&m.spki_std)), witness);
                        }
                        _ => acc.violation(&format!("spki-export-fails:{}", m.keytype), "as_spki() fails", witness),
                    }
                }
                match guard(|| pk.as_spki().and_then(|d| PublicKey::from_spki(&d, m.scheme_enum.clone()))) {
                    Guard::Done(Ok(back)) => {
                        if back.as_bytes() != pk.as_bytes() {
                            acc.violation(&format!("spki-export-reimport-differs:{}", m.keytype), "export followed by import yields other key material", witness);
                        }
                    }
                    Guard::Done(Err(e)) => acc.violation(&format!("spki-export-not-reimportable:{}", m.keytype), &format!("the library cannot import its own as_spki() output: {e:?}"), witness),
                    Guard::Panicked(l, msg) => acc.violation(&format!("panic:{l}"), &msg, witness),
                }
            }
        }
    }
}

/// Externally made signatures: each RSA size, imported on each path, verifies the OpenSSL-made
/// RSASSA-PSS signature of its own digest over the reference message - and no other one.
fn check_reference_signatures(acc: &mut Acc) {
    use in_toto::crypto::Signature;
    let schemes = [("rsassa-pss-sha256", SignatureScheme::RsaSsaPssSha256), ("rsassa-pss-sha512", SignatureScheme::RsaSsaPssSha512)];
    for (ki, (name, spki, sig256, sig512)) in keys::RSA_REFSIGS.iter().enumerate() {
        for (si, (sname, scheme)) in schemes.iter().enumerate() {
            let imports: Vec<(&str, Result<PublicKey, String>)> = vec![
                ("from_spki", guard_key(|| PublicKey::from_spki(spki, scheme.clone()))),
                ("from_pem_spki", guard_key(|| PublicKey::from_pem_spki(&pem_of(spki), scheme.clone()))),
                ("json", {
                    let j = json!({"keytype": "rsa", "scheme": sname, "keyid_hash_algorithms": DEFAULT_ALGS, "keyval": {"public": pem_of(spki)}}).to_string();
                    match guard(|| serde_json::from_str::<PublicKey>(&j)) {
                        Guard::Done(Ok(p)) => Ok(p),
                        Guard::Done(Err(e)) => Err(e.to_string()),
                        Guard::Panicked(l, msg) => Err(format!("PANIC {l}: {msg}")),
                    }
                }),
            ];
            for (iname, res) in imports {
                acc.evaluations += 1;
                acc.nontrivial += 1;
                let witness = || json!({"kind": "refsig", "key": name, "scheme": sname, "import": iname});
                let pk = match res {
                    Ok(pk) => pk,
                    Err(e) => {
                        acc.violation("standard-spki-rejected:rsa", &format!("the standards-conformant SubjectPublicKeyInfo of RSA key {name} cannot be imported ({iname}, {sname}): {e}"), witness);
                        continue;
                    }
                };
                // candidates: own digest (must verify), other digest, another key's signature, one bit flipped
                let own: &[u8] = if si == 0 { sig256 } else { sig512 };
                let other: &[u8] = if si == 0 { sig512 } else { sig256 };
                let foreign: &[u8] = keys::RSA_REFSIGS[(ki + 1) % keys::RSA_REFSIGS.len()].2;
                let mut flipped = own.to_vec();
                flipped[7] ^= 0x10;
                for (cname, sig, expect) in [("own", own.to_vec(), true), ("other-digest", other.to_vec(), false), ("another-key", foreign.to_vec(), false), ("one-bit-flipped", flipped, false)] {
                    let sj = json!({"keyid": id_of(&pk), "sig": util::hex(&sig)});
                    let sig: Signature = match serde_json::from_value(sj) {
                        Ok(s) => s,
                        Err(e) => {
                            acc.violation("reference-signature:unreadable", &format!("signature object unreadable: {e}"), witness);
                            continue;
                        }
                    };
                    let got = match guard(|| pk.verify(keys::REFMSG, &sig)) {
                        Guard::Done(r) => r.is_ok(),
                        Guard::Panicked(l, m) => {
                            acc.violation(&format!("panic:{l}"), &m, witness);
                            continue;
                        }
                    };
                    acc.outcome(if got { "reference-signature-accepted" } else { "reference-signature-rejected" });
                    if got != expect {
                        let key = if expect { "reference-signature:own-rejected" } else { "reference-signature:foreign-accepted" };
                        acc.violation(key, &format!("{name} imported via {iname} as {sname}: the {cname} signature over the reference message is {}", if got { "accepted" } else { "rejected" }), witness);
                    }
                }
            }
        }
    }
}

fn guard_key(f: impl Fn() -> in_toto::Result<PublicKey>) -> Result<PublicKey, String> {
    match guard(f) {
        Guard::Done(Ok(p)) => Ok(p),
        Guard::Done(Err(e)) => Err(format!("{e:?}")),
        Guard::Panicked(l, msg) => Err(format!("PANIC {l}: {msg}")),
    }
}

fn alg_variants() -> Vec<(&'static str, Option<Vec<&'static str>>)> {
    vec![("absent", None), ("default", Some(vec!["sha256", "sha512"])), ("one", Some(vec!["sha256"])), ("reordered", Some(vec!["sha512", "sha256"])), ("empty", Some(vec![]))]
}

// ------------------------------------------------------------- key tables

fn table_layout_json(entries: &[(String, TKey)], step_pubkeys: &[String]) -> Value {
    // duplicate labels: later entries override (one JSON member per label, last wins)
    let mut keys_obj = String::from("{");
    for (i, (label, k)) in entries.iter().enumerate() {
        if i > 0 {
            keys_obj.push(',');
        }
        keys_obj.push_str(&format!("{}:{}", json!(label), serde_json::to_string(&k.1).unwrap()));
    }
    keys_obj.push('}');
    let txt = format!(
        r#"{{"_type":"layout","expires":"2031-06-01T00:00:00Z","readme":"","inspect":[],"keys":{keys_obj},"steps":[{{"_type":"step","name":"s","threshold":1,"expected_materials":[],"expected_products":[],"expected_command":[],"pubkeys":{}}}]}}"#,
        json!(step_pubkeys)
    );
    Value::String(txt)
}

/// A table key: (name, public key). `A2` is A's material rebuilt without a hash-algorithm list
/// (another intrinsic id, same signatures verify under it).
type TKey = (&'static str, PublicKey);

fn check_tables(acc: &mut Acc, max_len: usize) {
    let (a, b) = (keys::get("ed1"), keys::get("ed2"));
    let owner = keys::get("ed6");
    let a2 = PublicKey::from_ed25519(a.public().as_bytes().to_vec()).expect("guise of A");
    let b2 = PublicKey::from_ed25519(b.public().as_bytes().to_vec()).expect("guise of B");
    let ida = a.id();
    let mut last_changed = ida.clone();
    let lc = if ida.ends_with('0') { '1' } else { '0' };
    last_changed.pop();
    last_changed.push(lc);
    // labels: the two ids, zeros, and near misses of id(A): upper case, same 8-character prefix, last digit changed
    let labels = [ida.clone(), b.id(), "0".repeat(64), ida.to_uppercase(), format!("{}{}", &ida[..8], "0".repeat(56)), last_changed, id_of(&a2), id_of(&b2)];
    let label_names = ["id(A)", "id(B)", "zeros", "ID(A) upper case", "prefix8(A)+zeros", "id(A) last digit changed", "id(A2)", "id(B2)"];
    let tkeys: Vec<TKey> = vec![("A", a.public().clone()), ("B", b.public().clone()), ("A2 (A without hash-algorithm list)", a2), ("B2 (B without hash-algorithm list)", b2)];
    // near-miss labels and guises with every key, the plain labels with A and B as before
    let mut entry_alpha: Vec<(String, TKey)> = vec![];
    for (li, l) in labels.iter().enumerate() {
        for (ki, k) in tkeys.iter().enumerate() {
            if li < 3 || ki != 3 {
                entry_alpha.push((l.clone(), k.clone()));
            }
        }
    }
    let mut tables: Vec<Vec<usize>> = vec![vec![]];
    for len in 1..=max_len {
        tables.extend(util::sequences(entry_alpha.len(), len));
    }
    let dir = util::fresh_dir("c12");
    for t in &tables {
        acc.states += 1;
        acc.transitions += if t.is_empty() { 0 } else { 1 };
        let entries: Vec<(String, TKey)> = t.iter().map(|i| entry_alpha[*i].clone()).collect();
        let misfiled = entries.iter().any(|(l, k)| *l != id_of(&k.1));
        if misfiled {
            acc.nontrivial += 1;
        }
        let Value::String(txt) = table_layout_json(&entries, &[a.id()]) else { unreachable!() };
        acc.evaluations += 1;
        let witness = || json!({"kind": "table", "entries": entries.iter().map(|(l, k)| json!({"label": labels.iter().position(|x| x == l).map(|i| label_names[i]).unwrap_or("?"), "key": k.0})).collect::<Vec<_>>()});
        let parsed: LayoutMetadata = match guard(|| serde_json::from_str::<LayoutMetadata>(&txt)) {
            Guard::Done(Ok(l)) => l,
            Guard::Done(Err(_)) => {
                acc.outcome("table-rejected-at-parse");
                continue;
            }
            Guard::Panicked(l, m) => {
                acc.violation(&format!("panic:{l}"), &m, witness);
                continue;
            }
        };
        let mut aliased = false;
        for (id, key) in &parsed.keys {
            if id != key.key_id() {
                aliased = true;
            }
        }
        if aliased {
            acc.outcome("table-aliased");
            acc.violation("key-table-aliases-identifier", "a parsed layout's key table maps an identifier to a key with a different intrinsic identifier", witness);
        } else {
            acc.outcome("table-consistent");
        }
        // end to end: the step is authorised for id(A). A link signed by B must never count.
        let a_properly_listed = parsed.keys.get(&KeyId::from_str(&a.id()).unwrap()).map(|k| k == a.public()).unwrap_or(false);
        let _ = a_properly_listed;
        let lay = world::sign_layout(parsed.clone(), &[owner]);
        for relabel in [false, true] {
            for e in std::fs::read_dir(&dir).unwrap().flatten() {
                let _ = std::fs::remove_file(e.path());
            }
            let l = world::link("s", world::arts(&[]), world::arts(&[("p", 1)]));
            let mut v = world::block_value(&world::sign_link(l, &[b]));
            let fname = if relabel {
                v["signatures"][0]["keyid"] = json!(a.id());
                world::link_file("s", a)
            } else {
                world::link_file("s", b)
            };
            world::write(&dir, &fname, &v.to_string());
            // also file it under A's prefix when not relabelled (prefix mismatch case)
            if !relabel {
                world::write(&dir, &world::link_file("s", a), &v.to_string());
            }
            // and once more relabelled with every near-miss label that shares A's prefix (same file name)
            if relabel {
                let mut v2 = v.clone();
                for near in [&labels[3], &labels[4], &labels[5]] {
                    let e = json!({"keyid": near, "sig": v["signatures"][0]["sig"]});
                    v2["signatures"].as_array_mut().unwrap().push(e);
                }
                world::write(&dir, &world::link_file("s", a), &v2.to_string());
            }
            acc.evaluations += 1;
            let verdict = world::verify(&lay, world::owner_map(&[owner]), &dir);
            if verdict.is_ok() {
                acc.violation(
                    "signature-counted-for-foreign-identifier",
                    "a link signed only by key B satisfied a step authorised for identifier id(A)",
                    || {
                        let mut w = witness();
                        w["relabelled"] = json!(relabel);
                        w
                    },
                );
            } else {
                acc.outcome("foreign-signature-not-counted");
            }
        }
    }
    let _ = MetadataWrapper::Layout;
}

/// An identifier is a string. A's genuine signature whose entry spells A's id differently (upper
/// case, one letter in upper case, a blank appended - the latter no key id at all) is attributed to
/// an identifier no key has: it is never checked against A's key, let alone counted. Also: an
/// identifier read from JSON is written back as it was read.
fn check_respelled_ids(acc: &mut Acc) {
    let (a, owner) = (keys::get("ed1"), keys::get("ed6"));
    let ida = a.id();
    let mut one_upper: Vec<char> = ida.chars().collect();
    if let Some(c) = one_upper.iter_mut().find(|c| c.is_ascii_alphabetic()) {
        *c = c.to_ascii_uppercase();
    }
    let one_upper: String = one_upper.into_iter().collect();
    let mut late_upper: Vec<char> = ida.chars().collect();
    if let Some(c) = late_upper.iter_mut().skip(8).find(|c| c.is_ascii_alphabetic()) {
        *c = c.to_ascii_uppercase();
    }
    let late_upper: String = late_upper.into_iter().collect();
    // ... and the identifier the same key material has when it is described without (with another)
    // hash-algorithm list: another identifier, of a key the layout does not list
    let a_no_list = PublicKey::from_ed25519(a.public().as_bytes().to_vec()).map(|k| id_of(&k)).unwrap_or_default();
    let a_one_alg = PublicKey::from_ed25519_with_keyid_hash_algorithms(a.public().as_bytes().to_vec(), Some(vec!["sha256".to_string()])).map(|k| id_of(&k)).unwrap_or_default();
    let spellings: Vec<(&str, String)> = vec![("upper case", ida.to_uppercase()), ("first letter in upper case", one_upper), ("a letter after the prefix in upper case", late_upper), ("the id of the same key material described without a hash-algorithm list", a_no_list), ("the id of the same key material described with the list [sha256]", a_one_alg)];
    let dir = util::fresh_dir("c12r");
    let lay = world::sign_layout(world::layout(vec![world::step("s", 1, &[a])], vec![], &[a], world::far_future()), &[owner]);
    let link = world::block_value(&world::sign_link(world::link("s", world::arts(&[]), world::arts(&[("p", 1)])), &[a]));
    for (sn, sp) in &spellings {
        if *sp == ida {
            continue;
        }
        if sp.len() != 64 {
            continue;
        }
        // (1) the identifier survives reading and writing as a string
        acc.evaluations += 1;
        acc.nontrivial += 1;
        match guard(|| serde_json::from_value::<KeyId>(json!(sp)).ok().and_then(|k| serde_json::to_value(&k).ok())) {
            Guard::Done(Some(back)) if back == json!(sp) => acc.outcome("identifier-kept-as-read"),
            Guard::Done(Some(back)) => acc.violation("identifier-rewritten-on-reading", &format!("the key id {sp} ({sn}) is read and written back as {back}"), || json!({"kind": "respelled-id", "spelling": sn, "leg": "roundtrip"})),
            Guard::Done(None) => acc.outcome("identifier-rejected"),
            Guard::Panicked(l, m) => acc.violation(&format!("panic:{l}"), &m, || json!({"kind": "respelled-id", "spelling": sn})),
        }
        // (2) end to end: the link's signature entry carries the re-spelled id; the file under the proper
        // name, under the re-spelled prefix, and under both
        for files in [vec![ida[..8].to_string()], vec![sp[..8].to_string()], vec![ida[..8].to_string(), sp[..8].to_string()]] {
            for e in std::fs::read_dir(&dir).unwrap().flatten() {
                let _ = std::fs::remove_file(e.path());
            }
            let mut v = link.clone();
            v["signatures"][0]["keyid"] = json!(sp);
            for f in &files {
                world::write(&dir, &format!("s.{f}.link"), &v.to_string());
            }
            acc.evaluations += 1;
            acc.nontrivial += 1;
            let verdict = world::verify(&lay, world::owner_map(&[owner]), &dir);
            let w = || json!({"kind": "respelled-id", "spelling": sn, "leg": "end-to-end", "files": files});
            match &verdict {
                world::Verdict::Ok(_) => acc.violation("signature-counted-for-respelled-identifier", &format!("a signature attributed to A's id in another spelling ({sn}) was checked against A's key and counted"), w),
                world::Verdict::Panic(l, m) => acc.violation(&format!("panic:{l}"), m, w),
                _ => acc.outcome("respelled-identifier-not-counted"),
            }
        }
        // (3) block level: Metablock::verify with A authorised
        acc.evaluations += 1;
        let mut v = link.clone();
        v["signatures"][0]["keyid"] = json!(sp);
        if let Ok(mb) = world::block_from_value(&v) {
            if let Guard::Done(Ok(_)) = guard(|| mb.verify(1, [a.public()])) {
                acc.violation("signature-counted-for-respelled-identifier", &format!("Metablock::verify counted a signature whose entry spells A's id differently ({sn})"), || json!({"kind": "respelled-id", "spelling": sn, "leg": "block"}));
            }
        }
    }
}

pub fn run(tier: Tier) -> i32 {
    let mut c = Check::new("C12", "exploration", tier);
    // self-test: the standard SPKI templates equal OpenSSL's output (committed fixtures)
    let ms = materials();
    let ed_ok = (0..3).all(|i| ms[i].spki_std == keys::ED_SPKI_RFC8410[i]);
    let ec_ok = (0..3).all(|i| ms[6 + i].spki_std == keys::EC_SPKI[i]);
    c.selftest("standard-spki-templates-equal-openssl-output", ed_ok && ec_ok, "RFC 8410 / RFC 5480 templates differ from the OpenSSL-generated fixtures");
    let mut acc = Acc::new();
    for m in &ms {
        check_paths(&mut acc, m);
    }
    acc.sample(|| json!({"kind": "path", "key": "ed1", "paths": ["from_pkcs8", "from_spki(standard DER)", "from_pem_spki(standard PEM)", "from_ed25519(raw)", "json[...]"]}));
    check_reference_signatures(&mut acc);
    check_respelled_ids(&mut acc);
    check_tables(&mut acc, if tier.thorough() { 3 } else { 2 });
    crate::envprobe::judge(&mut acc, "C12:", &mut c.extra);
    c.acc = acc;
    c.rule = "keys: 6 Ed25519, 3 ECDSA P-256, RSA 2048 x2 / 3072 / 4096 / 8192 (the largest supported; public key only) / 2048 with public exponents 0x800001 and 0x80000001; construction paths: PKCS#8 private key, standard DER and PEM SubjectPublicKeyInfo, raw bytes, 64-byte keypair, JSON with/without a (lying) keyid member and a private member, each with hash-algorithm list absent / default / one / reordered / present but empty where the path takes one; every RSA material also under the other PSS digest (PKCS#8, SPKI, JSON) in the same process; for each: key id == reference preimage hash, equality across paths, JSON round trip, SPKI re-export identity and re-import. Reference signatures: RSA 2048/3072/4096/8192 x both PSS digests x import path (DER, PEM, JSON): the OpenSSL-made signature of the same digest verifies, those of the other digest, of another key and with one bit flipped do not. Re-spelled identifiers: A's genuine signature under A's id in upper case / with one letter in upper case (inside and after the 8-character prefix), (and under the ids the same key material has with no / another hash-algorithm list), filed under the proper name, the re-spelled prefix and both, end to end and through Metablock::verify; an identifier is written back as read. Key tables: every sequence of <= N appended (label, key) entries over labels {id(A), id(B), zeros, id(A) in upper case, A's 8-character prefix + zeros, id(A) with the last digit changed} x keys {A, B, A and B rebuilt without a hash-algorithm list}, parsed, then used end to end with links signed by B".into();
    c.bound_completed = format!("all keys x all paths; tables of <= {} entries", if tier.thorough() { 3 } else { 2 });
    c.assume("reference key-id preimage = securesystemslib (self-tested against Python-made key ids in C11)");
    c.assume("standard SPKI encodings built by template and byte-compared with OpenSSL-generated fixtures");
    c.finish()
}

pub fn replay(case: &Value) -> Value {
    let mut acc = Acc::new();
    if case["kind"] == "path" {
        if let Some(m) = materials().into_iter().find(|m| Some(m.name.as_str()) == case["key"].as_str()) {
            check_paths(&mut acc, &m);
        }
        let want = case["path"].as_str().unwrap_or("");
        let hit = acc.violations.values().find(|v| v.witness["path"] == want).map(|v| v.key.clone());
        return json!({"violation": hit.or_else(|| acc.violations.keys().next().cloned())});
    }
    if case["kind"] == "respelled-id" {
        check_respelled_ids(&mut acc);
        return json!({"violation": acc.violations.keys().next()});
    }
    if case["kind"] == "refsig" {
        check_reference_signatures(&mut acc);
        return json!({"violation": acc.violations.keys().next()});
    }
    check_tables(&mut acc, 2);
    json!({"violation": acc.violations.keys().next()})
}
