//! C07 — multi-party steps require identical recorded artifacts from all signers.
//!
//! E1: a state is the vector of per-link variations of a base
//! (materials, products) pair for k authorised, validly signed links of one
//! step with threshold t; a transition changes one link's variation (BFS from
//! the all-equal vector reaches every vector). Every state is run on the real
//! `in_toto_verify` under every permutation of the reference-link choice
//! (hook site C).

use std::collections::{HashSet, VecDeque};
use std::path::Path;

use in_toto::crypto::{HashAlgorithm, HashValue};
use in_toto::models::Metablock;
use in_toto::verif_hooks::Driver;
use serde_json::{json, Value};

use crate::keys::{self, Key};
use crate::report::{Acc, Check, Tier};
use crate::util;
use crate::world::{self, Artifacts, Verdict};

pub const VARIATIONS: [&str; 43] = [
    "none",
    "materials:path",
    "materials:digest-byte",
    "materials:algorithm",
    "materials:extra-entry",
    "materials:missing-entry",
    "materials:second-algorithm-added",
    "materials:extra-entry-first",
    "materials:missing-first-entry",
    "materials:empty",
    "materials:digest-first-byte",
    "products:path",
    "products:digest-byte",
    "products:algorithm",
    "products:extra-entry",
    "products:missing-entry",
    "products:second-algorithm-added",
    "products:extra-entry-first",
    "products:missing-first-entry",
    "products:empty",
    "products:digest-first-byte",
    // digests of another length: a prefix of the true digest, the true digest plus a byte, no bytes
    "materials:digest-truncated",
    "materials:digest-extended",
    "materials:digest-empty",
    "products:digest-truncated",
    "products:digest-extended",
    "products:digest-empty",
    // like second-algorithm-added, with another value for the added algorithm
    "materials:second-algorithm-other-value",
    "products:second-algorithm-other-value",
    // the path of entry `a` in another spelling (a different file name): the link is read from
    // text before it is signed, as a functionary's tool would read what it recorded
    "materials:path+trailing-space",
    "materials:path+trailing-newline",
    "materials:path+leading-space",
    "materials:path+trailing-nul",
    "materials:path+upper",
    "materials:path+leading-dot-slash",
    "materials:path+trailing-slash",
    "products:path+trailing-space",
    "products:path+trailing-newline",
    "products:path+leading-space",
    "products:path+trailing-nul",
    "products:path+upper",
    "products:path+leading-dot-slash",
    "products:path+trailing-slash",
];

fn base_arts() -> Artifacts {
    world::arts(&[("a", 1), ("d/b", 2)])
}

fn vary(arts: &mut Artifacts, what: &str) {
    if let Some(kind) = what.strip_prefix("path+") {
        let d = arts.remove(&world::vpath("a")).unwrap();
        let new = if kind == "trailing-newline" { "a\n".to_string() } else { crate::tamper::respell("a", kind).unwrap_or_else(|| "a?".to_string()) };
        arts.insert(world::vpath(&new), d);
        return;
    }
    match what {
        "path" => {
            let d = arts.remove(&world::vpath("a")).unwrap();
            arts.insert(world::vpath("a2"), d);
        }
        "digest-byte" => {
            let mut bytes = world::h(1);
            bytes[31] ^= 1;
            let mut d = world::desc(1);
            d.insert(HashAlgorithm::Sha256, HashValue::new(bytes));
            arts.insert(world::vpath("a"), d);
        }
        "algorithm" => {
            let mut d = in_toto::models::TargetDescription::new();
            d.insert(HashAlgorithm::Sha512, HashValue::new(world::h(1)));
            arts.insert(world::vpath("a"), d);
        }
        "second-algorithm-added" | "second-algorithm-other-value" => {
            // keep the sha256 digest the entry has; add sha512 (of byte 1, or of byte 2)
            let mut d = arts.get(&world::vpath("a")).cloned().unwrap_or_else(|| world::desc(1));
            d.insert(HashAlgorithm::Sha512, HashValue::new(util::sha512(&[if what == "second-algorithm-added" { 1 } else { 2 }])));
            arts.insert(world::vpath("a"), d);
        }
        "extra-entry" => {
            arts.insert(world::vpath("zz"), world::desc(9));
        }
        "extra-entry-first" => {
            arts.insert(world::vpath("!first"), world::desc(9));
        }
        "missing-first-entry" => {
            arts.remove(&world::vpath("a"));
        }
        "empty" => arts.clear(),
        "digest-first-byte" => {
            let mut bytes = world::h(1);
            bytes[0] ^= 0x80;
            let mut d = world::desc(1);
            d.insert(HashAlgorithm::Sha256, HashValue::new(bytes));
            arts.insert(world::vpath("a"), d);
        }
        "missing-entry" => {
            arts.remove(&world::vpath("d/b"));
        }
        "digest-truncated" | "digest-extended" | "digest-empty" => {
            // the entry "a" of either base map; its digest number differs (1 in materials, 3 in products)
            let cur: Vec<u8> = arts.get(&world::vpath("a")).and_then(|d| d.get(&HashAlgorithm::Sha256)).map(|h| h.value().to_vec()).unwrap_or_default();
            let bytes = match what {
                "digest-truncated" => cur[..cur.len() - 1].to_vec(),
                "digest-extended" => {
                    let mut b = cur.clone();
                    b.push(0);
                    b
                }
                _ => vec![],
            };
            let mut d = in_toto::models::TargetDescription::new();
            d.insert(HashAlgorithm::Sha256, HashValue::new(bytes));
            arts.insert(world::vpath("a"), d);
        }
        _ => {}
    }
}

fn link_for(variation: usize) -> in_toto::models::LinkMetadata {
    let (mut m, mut p) = (base_arts(), world::arts(&[("a", 3), ("out", 4)]));
    let v = VARIATIONS[variation];
    if let Some(w) = v.strip_prefix("materials:") {
        vary(&mut m, w);
    } else if let Some(w) = v.strip_prefix("products:") {
        // products base has "a" and "out"; missing-entry removes d/b which is not there -> remove "out"
        if w == "missing-entry" {
            p.remove(&world::vpath("out"));
        } else {
            vary(&mut p, w);
        }
    }
    let l = world::link("s", m, p);
    if v.contains(":path+") {
        // through text, like a link that a tool wrote and read again before signing it
        if let Ok(back) = serde_json::to_string(&l).map_err(|e| e.to_string()).and_then(|t| serde_json::from_str::<in_toto::models::LinkMetadata>(&t).map_err(|e| e.to_string())) {
            return back;
        }
    }
    l
}

fn fns() -> [&'static Key; 4] {
    [keys::get("ed1"), keys::get("ed2"), keys::get("ed3"), keys::get("ed4")]
}

#[derive(Clone, Debug, PartialEq, Eq, Hash)]
struct State {
    vars: Vec<usize>,
    /// 0 none, 1 dissenting link by a key outside the key table, 2 dissenting tampered link by an authorised key slot
    extra: u8,
}

fn populate(dir: &Path, st: &State, texts: &[Vec<String>], extra_texts: &[String; 2]) {
    for e in std::fs::read_dir(dir).unwrap().flatten() {
        let _ = std::fs::remove_file(e.path());
    }
    let f = fns();
    for (i, v) in st.vars.iter().enumerate() {
        world::write(dir, &world::link_file("s", f[i]), &texts[i][*v]);
    }
    // the single link of the neighbouring step `o`
    let o = keys::get("ed5");
    world::write(dir, &world::link_file("o", o), &world::block_text(&world::sign_link(world::link("o", world::arts(&[]), world::arts(&[("x", 1)])), &[o])));
    // the two agreeing links of the neighbouring multi-party step `m`
    for k in [keys::get("ed5"), keys::get("ec2")] {
        world::write(dir, &world::link_file("m", k), &world::block_text(&world::sign_link(world::link("m", world::arts(&[]), world::arts(&[("y", 1)])), &[k])));
    }
    match st.extra {
        1 => world::write(dir, &world::link_file("s", keys::get("ec1")), &extra_texts[0]),
        2 => world::write(dir, &world::link_file("s", f[3]), &extra_texts[1]),
        _ => {}
    }
}

pub const SHAPES: [&str; 6] = ["alone", "after-a-single-party-step", "before-a-single-party-step", "after-a-threshold-0-step", "after-an-agreeing-multi-party-step", "before-an-agreeing-multi-party-step"];

/// The multi-party step `s` alone, or next to a single-party step `o` (whose one link is
/// always present and valid).
fn layout(shape: &str, t: u32) -> Metablock {
    let f = fns();
    let s = world::step("s", t, &f);
    let o = |thr: u32| world::step("o", thr, &[keys::get("ed5")]);
    let steps = match shape {
        "after-a-single-party-step" => vec![o(1), s],
        "before-a-single-party-step" => vec![s, o(1)],
        "after-a-threshold-0-step" => vec![o(0), s],
        "after-an-agreeing-multi-party-step" => vec![world::step("m", 2, &[keys::get("ed5"), keys::get("ec2")]), s],
        "before-an-agreeing-multi-party-step" => vec![s, world::step("m", 2, &[keys::get("ed5"), keys::get("ec2")])],
        _ => vec![s],
    };
    let mut table: Vec<&Key> = f.to_vec();
    table.push(keys::get("ed5"));
    table.push(keys::get("ec2"));
    world::sign_layout(world::layout(steps, vec![], &table, world::far_future()), &[keys::get("ed6")])
}

fn all_equal(st: &State) -> bool {
    st.vars.iter().all(|v| *v == st.vars[0])
}

fn fact(n: usize) -> usize {
    (1..=n).product::<usize>().max(1)
}

/// Run under every permutation at site C (all other sites default order).
fn run_all_orders(dir: &Path, lay: &Metablock, acc: &mut Acc) -> Vec<(Vec<usize>, Verdict)> {
    let owners = world::owner_map(&[keys::get("ed6")]);
    let (v0, d0) = world::verify_with(lay, owners.clone(), dir, world::default_driver());
    acc.evaluations += 1;
    acc.traces += 1;
    let mut out = vec![(vec![], v0)];
    if let Some(idx) = d0.trace.iter().position(|p| p.site == "C") {
        let n = d0.trace[idx].n;
        for perm in 1..fact(n) {
            let mut script = vec![0; idx + 1];
            script[idx] = perm;
            let drv = Driver { clock: Some(world::now()), permute: true, script: script.clone(), ..Driver::default() };
            let (v, d) = world::verify_with(lay, owners.clone(), dir, drv);
            if d.diverged || d.trace.get(idx).map(|p| p.site) != Some("C") {
                util::machinery_error("C07: divergence while replaying the prefix up to site C");
            }
            acc.evaluations += 1;
            acc.traces += 1;
            out.push((script, v));
        }
    }
    out
}

fn state_json(st: &State, t: u32, script: &[usize]) -> Value {
    json!({
        "threshold": t,
        "links": st.vars.iter().enumerate().map(|(i, v)| json!({["A", "B", "C", "D"][i]: VARIATIONS[*v]})).collect::<Vec<_>>(),
        "vars": st.vars,
        "extra": st.extra,
        "schedule": script,
    })
}

/// The multi-party step is delegated: both functionaries file a two-step sub-layout, and what is
/// compared are the summaries (first inner step's materials, last inner step's products). A dissent
/// that shows in a summary must make verification fail.
/// Every permutation at one site of the default schedule (`site` = "A": the order in which the
/// links of a step are checked; "C": the reference-link choice).
fn run_orders_at(dir: &Path, lay: &Metablock, acc: &mut Acc, site: &str) -> Vec<(Vec<usize>, Verdict)> {
    let owners = world::owner_map(&[keys::get("ed6")]);
    let (v0, d0) = world::verify_with(lay, owners.clone(), dir, world::default_driver());
    acc.evaluations += 1;
    acc.traces += 1;
    let mut out = vec![(vec![], v0)];
    if let Some(idx) = d0.trace.iter().position(|p| p.site == site) {
        let n = d0.trace[idx].n;
        for perm in 1..fact(n).min(24) {
            let mut script = vec![0; idx + 1];
            script[idx] = perm;
            let drv = Driver { clock: Some(world::now()), permute: true, script: script.clone(), ..Driver::default() };
            let (v, d) = world::verify_with(lay, owners.clone(), dir, drv);
            if d.diverged {
                util::machinery_error("C07: divergence while replaying a prefix");
            }
            acc.evaluations += 1;
            acc.traces += 1;
            out.push((script, v));
        }
    }
    out
}

/// One functionary key that the layout lists under two ids (one RSA modulus with both PSS
/// digests), with a validly signed link under each id - one of them dissenting - next to a second
/// functionary: the dissent is among the valid authorised links, whatever order they are met in.
fn two_ids_leg(acc: &mut Acc) {
    let (r1, r2, b, owner) = (keys::get("rsa256a"), keys::get("rsa512a"), keys::get("ed2"), keys::get("ed6"));
    let dir = util::fresh_dir("c07g");
    for v in [1usize, 2, 4, 11, 12, 14, 21, 24] {
        for (dissenter, agreeing) in [(r2, r1), (r1, r2)] {
            for thr in [2u32, 3] {
                for e in std::fs::read_dir(&dir).unwrap().flatten() {
                    let _ = std::fs::remove_file(e.path());
                }
                world::write(&dir, &world::link_file("s", agreeing), &world::block_text(&world::sign_link(link_for(0), &[agreeing])));
                world::write(&dir, &world::link_file("s", dissenter), &world::block_text(&world::sign_link(link_for(v), &[dissenter])));
                world::write(&dir, &world::link_file("s", b), &world::block_text(&world::sign_link(link_for(0), &[b])));
                let lay = world::sign_layout(world::layout(vec![world::step("s", thr, &[r1, r2, b])], vec![], &[r1, r2, b], world::far_future()), &[owner]);
                acc.states += 1;
                acc.nontrivial += 1;
                for site in ["A", "C"] {
                    for (script, verdict) in run_orders_at(&dir, &lay, acc, site) {
                        acc.outcome(&format!("two-ids|{}", verdict.tag()));
                        let w = || json!({"kind": "one-key-two-ids", "dissenting_link_under": dissenter.kind, "variation": VARIATIONS[v], "threshold": thr, "site": site, "schedule": script});
                        match &verdict {
                            Verdict::Ok(_) => acc.violation(&format!("accepted-dissent:one-key-under-two-ids:{}", VARIATIONS[v].split(':').next_back().unwrap_or("")), &format!("a step was accepted although one of its valid authorised links (under the second id of a functionary's key) dissents ({})", VARIATIONS[v]), w),
                            Verdict::Panic(l, m) => acc.violation(&format!("panic:{l}"), m, w),
                            Verdict::Err(_) => {}
                        }
                    }
                }
            }
        }
    }
}

/// Pass-through steps: the agreeing links record the same map as materials and as products (a
/// review or sign-off step; also: nothing at all on either side), the dissenter differs in its
/// products only. Whichever link is taken as the reference, the dissent is there.
fn pass_through_leg(acc: &mut Acc) {
    let f = fns();
    let owner = keys::get("ed6");
    let dir = util::fresh_dir("c07p");
    for (bname, base) in [("materials = products = {a, d/b}", base_arts()), ("materials = products = {}", world::arts(&[]))] {
        for what in ["path", "digest-byte", "algorithm", "extra-entry", "extra-entry-first", "missing-entry", "missing-first-entry", "empty", "second-algorithm-added", "digest-truncated"] {
            // on the empty base only an added entry is a dissent
            if base.is_empty() && !matches!(what, "extra-entry" | "extra-entry-first") {
                continue;
            }
            let mut p = base.clone();
            vary(&mut p, what);
            if p == base {
                continue;
            }
            for k in [2usize, 3] {
                for dissenter in 0..k {
                    for e in std::fs::read_dir(&dir).unwrap().flatten() {
                        let _ = std::fs::remove_file(e.path());
                    }
                    for (i, key) in f.iter().take(k).enumerate() {
                        let l = world::link("s", base.clone(), if i == dissenter { p.clone() } else { base.clone() });
                        world::write(&dir, &world::link_file("s", key), &world::block_text(&world::sign_link(l, &[key])));
                    }
                    let lay = world::sign_layout(world::layout(vec![world::step("s", k as u32, &f[..k])], vec![], &f[..k], world::far_future()), &[owner]);
                    acc.states += 1;
                    acc.nontrivial += 1;
                    for site in ["A", "C"] {
                        for (script, verdict) in run_orders_at(&dir, &lay, acc, site) {
                            acc.outcome(&format!("pass-through|{}", verdict.tag()));
                            let w = || json!({"kind": "pass-through", "base": bname, "dissent_in_products": what, "links": k, "dissenter": dissenter, "site": site, "schedule": script});
                            match &verdict {
                                Verdict::Ok(_) => acc.violation(&format!("accepted-dissent:pass-through-step:{what}"), &format!("a step whose agreeing links record the same map as materials and products ({bname}) was accepted although one link's products differ ({what})"), w),
                                Verdict::Panic(l, m) => acc.violation(&format!("panic:{l}"), m, w),
                                Verdict::Err(_) => {}
                            }
                        }
                    }
                }
            }
        }
    }
}

/// Many artifacts: two links that record 40 materials and 40 products and differ in one digest,
/// one algorithm, one extra or one missing entry at a chosen position of the sorted map - early,
/// around 16 and 32, and last. A comparison that looks at part of a map misses the rest.
fn many_artifacts_leg(acc: &mut Acc) {
    let f = fns();
    let owner = keys::get("ed6");
    let dir = util::fresh_dir("c07m");
    let n = 40usize;
    let base: Artifacts = (0..n).map(|i| (world::vpath(&format!("f{i:02}")), world::desc(1 + (i % 200) as u8))).collect();
    let lay = world::sign_layout(world::layout(vec![world::step("s", 2, &f[..2])], vec![], &f[..2], world::far_future()), &[owner]);
    for pos in [0usize, 1, 15, 16, 17, 31, 32, 33, 39] {
        for kind in ["digest", "algorithm", "missing", "extra-after"] {
            for side in ["materials", "products"] {
                let mut other = base.clone();
                let key = world::vpath(&format!("f{pos:02}"));
                match kind {
                    "digest" => {
                        other.insert(key, world::desc(250));
                    }
                    "algorithm" => {
                        let mut d = in_toto::models::TargetDescription::new();
                        d.insert(HashAlgorithm::Sha512, HashValue::new(world::h(1 + (pos % 200) as u8)));
                        other.insert(key, d);
                    }
                    "missing" => {
                        other.remove(&key);
                    }
                    _ => {
                        other.insert(world::vpath(&format!("f{pos:02}x")), world::desc(9));
                    }
                }
                for dissenter in 0..2 {
                    for e in std::fs::read_dir(&dir).unwrap().flatten() {
                        let _ = std::fs::remove_file(e.path());
                    }
                    for (i, k) in f.iter().take(2).enumerate() {
                        let mine = if i == dissenter { other.clone() } else { base.clone() };
                        let l = if side == "materials" { world::link("s", mine, base.clone()) } else { world::link("s", base.clone(), mine) };
                        world::write(&dir, &world::link_file("s", k), &world::block_text(&world::sign_link(l, &[k])));
                    }
                    acc.states += 1;
                    acc.nontrivial += 1;
                    for (script, verdict) in run_orders_at(&dir, &lay, acc, "C") {
                        acc.outcome(&format!("many-artifacts|{}", verdict.tag()));
                        let w = || json!({"kind": "many-artifacts", "entries": n, "dissent": kind, "position": pos, "side": side, "dissenter": dissenter, "schedule": script});
                        match &verdict {
                            Verdict::Ok(_) => acc.violation(&format!("accepted-dissent:many-artifacts:{kind}"), &format!("two links with {n} {side} each were accepted although they differ ({kind}) at sorted position {pos}"), w),
                            Verdict::Panic(l, m) => acc.violation(&format!("panic:{l}"), m, w),
                            Verdict::Err(_) => {}
                        }
                    }
                }
            }
        }
    }
}

/// A dissenting link that carries two signatures: a foreign key's first, its functionary's own
/// second (a counter-signed link). It is a validly signed link of an authorised functionary like
/// any other; its dissent counts.
fn counter_signed_leg(acc: &mut Acc) {
    let f = fns();
    let (owner, foreign) = (keys::get("ed6"), keys::get("ed5"));
    let dir = util::fresh_dir("c07c");
    let lay = world::sign_layout(world::layout(vec![world::step("s", 2, &f[..3])], vec![], &f[..3], world::far_future()), &[owner]);
    for v in [1usize, 2, 11, 12, 14] {
        for order in ["own-first", "foreign-first", "foreign-own-foreign"] {
            for e in std::fs::read_dir(&dir).unwrap().flatten() {
                let _ = std::fs::remove_file(e.path());
            }
            for k in &f[..2] {
                world::write(&dir, &world::link_file("s", k), &world::block_text(&world::sign_link(link_for(0), &[k])));
            }
            let signers: Vec<&Key> = match order {
                "own-first" => vec![f[2], foreign],
                "foreign-first" => vec![foreign, f[2]],
                _ => vec![foreign, f[2], keys::get("ec1")],
            };
            world::write(&dir, &world::link_file("s", f[2]), &world::block_text(&world::sign_link(link_for(v), &signers)));
            acc.states += 1;
            acc.nontrivial += 1;
            for site in ["A", "C"] {
                for (script, verdict) in run_orders_at(&dir, &lay, acc, site) {
                    acc.outcome(&format!("counter-signed|{}", verdict.tag()));
                    let w = || json!({"kind": "counter-signed", "variation": VARIATIONS[v], "signature_order": order, "site": site, "schedule": script});
                    match &verdict {
                        Verdict::Ok(_) => acc.violation(&format!("accepted-dissent:counter-signed-link:{order}"), &format!("a step was accepted although the third functionary's validly signed link ({order}) dissents ({})", VARIATIONS[v]), w),
                        Verdict::Panic(l, m) => acc.violation(&format!("panic:{l}"), m, w),
                        Verdict::Err(_) => {}
                    }
                }
            }
        }
    }
}

fn delegated_leg(acc: &mut Acc) {
    let (a, b, inner_f, owner) = (keys::get("ed1"), keys::get("ed2"), keys::get("ed5"), keys::get("ed6"));
    let dir = util::fresh_dir("c07d");
    for (name, dissent_in, summary_visible) in [
        ("none", "", false),
        ("first inner step's materials", "in1.materials", true),
        ("last inner step's products", "in2.products", true),
        ("last inner step's products: extra entry", "in2.products+", true),
        ("last inner step's products: no digest bytes", "in2.products0", true),
        ("first inner step's products (not part of the summary)", "in1.products", false),
        ("last inner step's materials (not part of the summary)", "in2.materials", false),
    ] {
        for e in std::fs::read_dir(&dir).unwrap().flatten() {
            let p = e.path();
            if p.is_dir() {
                let _ = std::fs::remove_dir_all(p);
            } else {
                let _ = std::fs::remove_file(p);
            }
        }
        let lay = world::sign_layout(world::layout(vec![world::step("s", 2, &[a, b])], vec![], &[a, b], world::far_future()), &[owner]);
        for (k, dissents) in [(a, false), (b, true)] {
            let inner = world::layout(vec![world::step("in1", 1, &[inner_f]), world::step("in2", 1, &[inner_f])], vec![], &[inner_f], world::far_future());
            world::write(&dir, &world::link_file("s", k), &world::block_text(&world::sign_layout(inner, &[k])));
            let sub = dir.join(format!("s.{}", k.prefix()));
            std::fs::create_dir_all(&sub).unwrap();
            let d = |which: &str| dissents && dissent_in.starts_with(which);
            let mut l1 = world::link("in1", world::arts(&[("src", if d("in1.materials") { 9 } else { 1 })]), world::arts(&[("mid", if d("in1.products") { 9 } else { 2 })]));
            let mut l2 = world::link("in2", world::arts(&[("mid", if d("in2.materials") { 9 } else { 2 })]), world::arts(&[("out", if dissents && dissent_in == "in2.products" { 9 } else { 3 })]));
            if dissents && dissent_in == "in2.products+" {
                l2.products.insert(world::vpath("zz-extra"), world::desc(7));
            }
            if dissents && dissent_in == "in2.products0" {
                let mut dsc = in_toto::models::TargetDescription::new();
                dsc.insert(HashAlgorithm::Sha256, HashValue::new(vec![]));
                l2.products.insert(world::vpath("out"), dsc);
            }
            l1.name = "in1".into();
            world::write(&sub, &world::link_file("in1", inner_f), &world::block_text(&world::sign_link(l1, &[inner_f])));
            world::write(&sub, &world::link_file("in2", inner_f), &world::block_text(&world::sign_link(l2, &[inner_f])));
        }
        let runs = run_all_orders(&dir, &lay, acc);
        acc.states += 1;
        acc.nontrivial += 1;
        for (script, v) in &runs {
            acc.outcome(&format!("delegated|{}|{}", if summary_visible { "dissent" } else { "agree" }, v.tag()));
            match v {
                Verdict::Ok(_) if summary_visible => acc.violation(
                    "accepted-dissent:delegated-step",
                    &format!("a delegated step with threshold 2 was accepted although the two sub-layouts' results differ in the {name}"),
                    || json!({"kind": "delegated", "dissent": name, "schedule": script}),
                ),
                Verdict::Ok(_) => acc.accepting += 1,
                Verdict::Panic(l, m) => acc.violation(&format!("panic:{l}"), &format!("verification panicked at {l}: {m}"), || json!({"kind": "delegated", "dissent": name})),
                Verdict::Err(_) => {
                    if dissent_in.is_empty() {
                        acc.note("delegated-agreeing-step-rejected(one-directional: not judged)");
                    }
                }
            }
        }
    }
}

pub fn run(tier: Tier) -> i32 {
    let mut c = Check::new("C07", "model_checking", tier);
    let kmax = if tier.thorough() { 4 } else { 3 };
    let f = fns();
    // pre-sign every (functionary, variation)
    let texts: Vec<Vec<String>> = f.iter().map(|k| (0..VARIATIONS.len()).map(|v| world::block_text(&world::sign_link(link_for(v), &[k]))).collect()).collect();
    let extra_texts = [
        world::block_text(&world::sign_link(link_for(12), &[keys::get("ec1")])),
        {
            let mut v = world::block_value(&world::sign_link(link_for(0), &[f[3]]));
            v["signed"]["products"]["a"]["sha256"] = json!(util::hex(&world::h(99)));
            v.to_string()
        },
    ];
    let mut acc = Acc::new();
    let mut bounds = vec![];
    for k in 2..=kmax {
        // BFS over variation vectors from the all-equal vector
        let start = State { vars: vec![0; k], extra: 0 };
        let mut seen: HashSet<State> = HashSet::new();
        let mut order = vec![];
        let mut q = VecDeque::new();
        seen.insert(start.clone());
        order.push(start.clone());
        q.push_back(start);
        let mut transitions = 0u64;
        // quick tier: the digest-length variations and the two-multi-party-step shapes with k = 2 only
        let nvar = if k == 2 { VARIATIONS.len() } else if tier.thorough() && k == 3 { 29 } else { 21 };
        while let Some(s) = q.pop_front() {
            for i in 0..k {
                for v in 0..nvar {
                    if s.vars[i] == v {
                        continue;
                    }
                    transitions += 1;
                    let mut t = s.clone();
                    t.vars[i] = v;
                    if seen.insert(t.clone()) {
                        order.push(t.clone());
                        q.push_back(t);
                    }
                }
            }
            // extra dissenting files (only for k <= 3: slot D is free)
            if s.extra == 0 && k <= 3 {
                for e in [1u8, 2] {
                    transitions += 1;
                    let mut t = s.clone();
                    t.extra = e;
                    if seen.insert(t.clone()) {
                        order.push(t.clone());
                        q.push_back(t);
                    }
                }
            }
        }
        acc.states += order.len() as u64;
        acc.transitions += transitions;
        bounds.push(format!("k={k}: {} states", order.len()));
        let thresholds: Vec<u32> = (2..=(k as u32).min(3)).collect();
        // every shape for k = 2; the neighbouring-step shapes only with threshold 2 for larger k
        let layouts: Vec<(u32, &str, Metablock)> = thresholds
            .iter()
            .flat_map(|t| SHAPES.iter().map(move |sh| (*t, *sh)))
            .filter(|(t, sh)| k == 2 || *sh == "alone" || (*t == 2 && k == 3))
            .filter(|(_, sh)| k == 2 || (tier.thorough() && k == 3) || !sh.contains("multi-party"))
            .map(|(t, sh)| (t, sh, layout(sh, t)))
            .collect();
        let accs = util::par_fold(
            &order,
            || (Acc::new(), util::fresh_dir("c07")),
            |(acc, dir), i, st| {
                populate(dir, st, &texts, &extra_texts);
                if !all_equal(st) {
                    acc.nontrivial += 1;
                }
                for (t, shape, lay) in &layouts {
                    let runs = run_all_orders(dir, lay, acc);
                    let distinct: HashSet<&'static str> = runs.iter().map(|(_, v)| v.tag()).collect();
                    acc.outcome(&format!("{}|{}", if all_equal(st) { "agree" } else { "dissent" }, distinct.iter().cloned().collect::<Vec<_>>().join("+")));
                    for (script, v) in &runs {
                        match v {
                            Verdict::Ok(_) => {
                                acc.accepting += 1;
                                if !all_equal(st) {
                                    // shrink: reset variations to none while still accepted and still dissenting
                                    let mut small = st.clone();
                                    for j in 0..small.vars.len() {
                                        if small.vars[j] == 0 {
                                            continue;
                                        }
                                        let mut cand = small.clone();
                                        cand.vars[j] = 0;
                                        if all_equal(&cand) {
                                            continue;
                                        }
                                        populate(dir, &cand, &texts, &extra_texts);
                                        if run_all_orders(dir, lay, &mut Acc::new()).iter().any(|(_, v)| v.is_ok()) {
                                            small = cand;
                                        }
                                    }
                                    populate(dir, st, &texts, &extra_texts);
                                    let kinds: std::collections::BTreeSet<&str> = small.vars.iter().map(|v| VARIATIONS[*v]).filter(|n| *n != "none").collect();
                                    let key = format!("accepted-dissent:{}", kinds.into_iter().collect::<Vec<_>>().join("+"));
                                    acc.violation(&key, &format!("a step with threshold {t} ({shape}) was accepted although its validly signed authorised links do not all report the same artifacts ({key})"), || {
                                        let mut j = state_json(&small, *t, script);
                                        j["shape"] = json!(shape);
                                        j
                                    });
                                }
                            }
                            Verdict::Panic(l, m) => acc.violation(&format!("panic:{l}"), &format!("verification panicked at {l}: {m}"), || state_json(st, *t, script)),
                            Verdict::Err(_) => {}
                        }
                    }
                    if i == 20 {
                        acc.sample(|| state_json(st, *t, &[]));
                    }
                }
            },
        );
        acc.merge(Acc::merge_all(accs.into_iter().map(|(a, _)| a).collect()));
    }
    delegated_leg(&mut acc);
    two_ids_leg(&mut acc);
    pass_through_leg(&mut acc);
    many_artifacts_leg(&mut acc);
    counter_signed_leg(&mut acc);
    c.acc = acc;
    c.rule = "state = vector of per-link variations (43 kinds, the last 14 for k = 2 only: none; the path of one entry re-spelled (blank / newline / NUL / slash appended, blank or ./ prepended, upper case) in a link that was read from text before it was signed; in materials or products: a second algorithm added with one of two values, other path, last / first digest byte, digest truncated by a byte / extended by a byte / of no bytes, other algorithm, second algorithm added, extra entry sorting last / first, missing last / first entry, empty map) for k authorised valid links, optionally plus a dissenting link by a key outside the key table or a tampered one; transition = change one link's variation; every state runs in_toto_verify for thresholds 2..min(k,3), with the step alone, next to a single-party step (before it, after it, after a threshold-0 step) and next to a second multi-party step whose links agree (before it, after it) under every permutation of the reference-link choice (site C); plus a dissenting link that carries a foreign signature before (after, around) its functionary's own; plus two links with 40 materials and 40 products that differ at one of 9 sorted positions (first, around 16 and 32, last) in one of 4 ways; plus pass-through steps (the agreeing links record one map as materials and as products, or nothing on either side; 10 kinds of dissent in the products only; 2 and 3 links, each as the dissenter; every order at sites A and C); plus one functionary key under two ids with a link under each, one dissenting (8 variations x which id dissents x thresholds 2, 3 x every order at sites A and C); plus a delegated multi-party step (two functionaries, two-step sub-layouts) with a dissent at each of 6 places, 4 of them visible in the summaries; non-trivial = vectors that are not all equal".into();
    c.bound_completed = format!("complete variation vectors for {} (BFS reaches every vector)", bounds.join(", "));
    c.assume("all k links are validly signed by authorised keys of the key table; no rules (isolates C03)");
    c.finish()
}

pub fn replay(case: &Value) -> Value {
    if case["kind"] == "delegated" {
        let mut acc = Acc::new();
        delegated_leg(&mut acc);
        return json!({"violation": acc.violations.keys().next()});
    }
    if case["kind"] == "counter-signed" {
        let mut acc = Acc::new();
        counter_signed_leg(&mut acc);
        return json!({"violation": acc.violations.keys().next()});
    }
    if case["kind"] == "many-artifacts" {
        let mut acc = Acc::new();
        many_artifacts_leg(&mut acc);
        return json!({"violation": acc.violations.keys().next()});
    }
    if case["kind"] == "pass-through" {
        let mut acc = Acc::new();
        pass_through_leg(&mut acc);
        return json!({"violation": acc.violations.keys().next()});
    }
    if case["kind"] == "one-key-two-ids" {
        let mut acc = Acc::new();
        two_ids_leg(&mut acc);
        return json!({"violation": acc.violations.keys().next()});
    }
    let f = fns();
    let vars: Vec<usize> = case["vars"].as_array().map(|a| a.iter().filter_map(|x| x.as_u64().map(|x| x as usize)).collect()).unwrap_or_default();
    let st = State { vars, extra: case["extra"].as_u64().unwrap_or(0) as u8 };
    let t = case["threshold"].as_u64().unwrap_or(2) as u32;
    let texts: Vec<Vec<String>> = f.iter().map(|k| (0..VARIATIONS.len()).map(|v| world::block_text(&world::sign_link(link_for(v), &[k]))).collect()).collect();
    let extra_texts = [world::block_text(&world::sign_link(link_for(12), &[keys::get("ec1")])), "{}".to_string()];
    let dir = util::fresh_dir("c07r");
    populate(&dir, &st, &texts, &extra_texts);
    let shape = SHAPES.iter().copied().find(|s| Some(*s) == case["shape"].as_str()).unwrap_or("alone");
    let runs = run_all_orders(&dir, &layout(shape, t), &mut Acc::new());
    let accepted = runs.iter().any(|(_, v)| v.is_ok());
    json!({
        "verdicts": runs.iter().map(|(s, v)| json!({"schedule": s, "verdict": v.tag()})).collect::<Vec<_>>(),
        "violation": if accepted && !all_equal(&st) { json!("accepted-dissent") } else { Value::Null },
    })
}
