//! C13 — the verification verdict is a deterministic function of its inputs.
//!
//! E2: every hash-map / directory iteration in the verdict path is a choice
//! point (hook H4). For each configuration all permutation vectors within the
//! deviation bound are executed on the real `in_toto_verify`; the set of
//! observed (verdict, summary) must be a singleton.

use std::collections::{BTreeMap, BTreeSet, HashMap};
use std::path::PathBuf;

use in_toto::crypto::{KeyId, PublicKey};
use in_toto::models::rule::{Artifact, ArtifactRule};
use in_toto::models::{Metablock, MetadataWrapper};
use in_toto::verif_hooks::{ChoicePoint, Driver};
use serde_json::{json, Value};

use crate::explore;
use crate::keys::{self, Key};
use crate::report::{Acc, Check, Tier};
use crate::util;
use crate::world::{self, Verdict};

pub struct Config {
    pub name: String,
    pub layout: Metablock,
    pub owners: HashMap<KeyId, PublicKey>,
    pub dir: PathBuf,
    /// Does a correct verifier have any freedom here? (for the evidence)
    pub ambiguous: bool,
}

fn obs_of(v: &Verdict) -> String {
    match v {
        Verdict::Ok(s) => format!("ok:{s}"),
        Verdict::Err(_) => "err".into(),
        Verdict::Panic(l, _) => format!("panic:{l}"),
    }
}

fn write_link(dir: &std::path::Path, step: &str, k: &Key, mb: &Metablock) {
    world::write(dir, &world::link_file(step, k), &world::block_text(mb));
}

/// The configurations of DESIGN 4/C13, parameterised by the number of
/// functionaries with a link (2 or 3).
pub fn configs(n_links: usize, tag: &str) -> Vec<Config> {
    let owner = keys::get("ed6");
    let owner2 = keys::get("rsa256a");
    let f: Vec<&Key> = vec![keys::get("ed1"), keys::get("ed2"), keys::get("ed3")];
    let f = &f[..n_links];
    let mut out = vec![];
    let differ: [(&str, fn(usize) -> in_toto::models::LinkMetadata); 4] = [
        ("products", |i| world::link("s", world::arts(&[("m", 1)]), world::arts(&[("a", 10 + i as u8)]))),
        ("materials", |i| world::link("s", world::arts(&[("m", 10 + i as u8)]), world::arts(&[("a", 1)]))),
        ("byproducts", |i| {
            let mut l = world::link("s", world::arts(&[("m", 1)]), world::arts(&[("a", 1)]));
            l.byproducts = l.byproducts.clone().set_stdout(format!("out{i}"));
            l
        }),
        ("command", |i| {
            let mut l = world::link("s", world::arts(&[("m", 1)]), world::arts(&[("a", 1)]));
            l.command = vec![format!("cmd{i}")].into();
            l
        }),
    ];
    // (i) threshold <= 1, several valid authorised links that differ
    for thr in [0u32, 1] {
        for (what, mk) in differ.iter() {
            let dir = util::fresh_dir(&format!("c13-{tag}"));
            let lay = world::layout(vec![world::step("s", thr, f)], vec![], f, world::far_future());
            for (i, k) in f.iter().enumerate() {
                write_link(&dir, "s", k, &world::sign_link(mk(i), &[k]));
            }
            out.push(Config {
                name: format!("i:thr{thr}:{n_links}links-differ-in-{what}"),
                layout: world::sign_layout(lay, &[owner]),
                owners: world::owner_map(&[owner]),
                dir,
                ambiguous: true,
            });
        }
    }
    // (ii) threshold 2, one dissenting link among n
    {
        let dir = util::fresh_dir(&format!("c13-{tag}"));
        let lay = world::layout(vec![world::step("s", 2, f)], vec![], f, world::far_future());
        for (i, k) in f.iter().enumerate() {
            let l = world::link("s", world::arts(&[("m", 1)]), world::arts(&[("a", if i == 0 { 9 } else { 1 })]));
            write_link(&dir, "s", k, &world::sign_link(l, &[k]));
        }
        out.push(Config {
            name: format!("ii:thr2:{n_links}links-one-dissenting"),
            layout: world::sign_layout(lay, &[owner]),
            owners: world::owner_map(&[owner]),
            dir,
            ambiguous: false,
        });
    }
    // (ii'') threshold 2, the dissenter at every position (smallest / middle / largest key id)
    for pos in 0..n_links {
        let dir = util::fresh_dir(&format!("c13-{tag}"));
        let lay = world::layout(vec![world::step("s", 2, f)], vec![], f, world::far_future());
        for (i, k) in f.iter().enumerate() {
            let l = world::link("s", world::arts(&[("m", 1)]), world::arts(&[("a", if i == pos { 9 } else { 1 }), ("zz", if i == pos { 1 } else { 1 })]));
            write_link(&dir, "s", k, &world::sign_link(l, &[k]));
        }
        out.push(Config {
            name: format!("ii:thr2:{n_links}links-dissenter-at-{pos}"),
            layout: world::sign_layout(lay, &[owner]),
            owners: world::owner_map(&[owner]),
            dir,
            ambiguous: n_links > 2,
        });
    }
    // (viii) threshold 2, the links agree on every digest they share but one records an
    // additional algorithm (a one-directional comparison would depend on the reference link)
    for pos in 0..n_links {
        let dir = util::fresh_dir(&format!("c13-{tag}"));
        let lay = world::layout(vec![world::step("s", 2, f)], vec![], f, world::far_future());
        for (i, k) in f.iter().enumerate() {
            let mut l = world::link("s", world::arts(&[("m", 1)]), world::arts(&[("a", 1)]));
            if i == pos {
                l.products.insert(world::vpath("a"), world::desc2(1));
            }
            write_link(&dir, "s", k, &world::sign_link(l, &[k]));
        }
        out.push(Config {
            name: format!("viii:thr2:{n_links}links-extra-algorithm-at-{pos}"),
            layout: world::sign_layout(lay, &[owner]),
            owners: world::owner_map(&[owner]),
            dir,
            ambiguous: false,
        });
    }
    // (ix) a delegated step with threshold 2: both functionaries file the same sub-layout,
    // the second one's own sub-directory holds different evidence
    {
        let dir = util::fresh_dir(&format!("c13-{tag}"));
        let inner_f = keys::get("ed5");
        let two = &f[..2];
        let lay = world::layout(vec![world::step("s", 2, two)], vec![], two, world::far_future());
        let inner = world::layout(vec![world::step("in", 1, &[inner_f])], vec![], &[inner_f], world::far_future());
        let co_signed = world::sign_layout(inner, two);
        for (i, k) in two.iter().enumerate() {
            write_link(&dir, "s", k, &co_signed);
            let sub = dir.join(format!("s.{}", k.prefix()));
            std::fs::create_dir_all(&sub).unwrap();
            let l = world::link("in", world::arts(&[]), world::arts(&[("a", 20 + i as u8)]));
            write_link(&sub, "in", inner_f, &world::sign_link(l, &[inner_f]));
        }
        out.push(Config {
            name: format!("ix:delegated-threshold-2-same-sublayout-different-evidence:{n_links}"),
            layout: world::sign_layout(lay, &[owner]),
            owners: world::owner_map(&[owner]),
            dir,
            ambiguous: false,
        });
    }
    // (vii) two ambiguous steps and a third step that MATCHes both
    {
        let dir = util::fresh_dir(&format!("c13-{tag}"));
        let g = keys::get("ed4");
        let s3 = world::step("u", 1, &[g])
            .add_expected_material(ArtifactRule::Match { pattern: "a".into(), in_src: None, with: Artifact::Products, in_dst: None, from: "s".into() })
            .add_expected_material(ArtifactRule::Match { pattern: "b".into(), in_src: None, with: Artifact::Products, in_dst: None, from: "t".into() })
            .add_expected_material(ArtifactRule::Disallow("*".into()));
        let mut table: Vec<&Key> = f.to_vec();
        table.push(g);
        let lay = world::layout(vec![world::step("s", 1, f), world::step("t", 0, f), s3], vec![], &table, world::far_future());
        for (i, k) in f.iter().enumerate() {
            write_link(&dir, "s", k, &world::sign_link(world::link("s", world::arts(&[]), world::arts(&[("a", 10 + i as u8)])), &[k]));
            write_link(&dir, "t", k, &world::sign_link(world::link("t", world::arts(&[]), world::arts(&[("b", 30 - i as u8)])), &[k]));
        }
        write_link(&dir, "u", g, &world::sign_link(world::link("u", world::arts(&[("a", 10), ("b", 30)]), world::arts(&[("c", 2)])), &[g]));
        out.push(Config {
            name: format!("vii:two-ambiguous-steps-and-a-matching-step:{n_links}links"),
            layout: world::sign_layout(lay, &[owner]),
            owners: world::owner_map(&[owner]),
            dir,
            ambiguous: true,
        });
    }
    // (ii') threshold 2, all equal -> accepted
    {
        let dir = util::fresh_dir(&format!("c13-{tag}"));
        let lay = world::layout(vec![world::step("s", 2, f)], vec![], f, world::far_future());
        for k in f.iter() {
            let l = world::link("s", world::arts(&[("m", 1)]), world::arts(&[("a", 1)]));
            write_link(&dir, "s", k, &world::sign_link(l, &[k]));
        }
        out.push(Config {
            name: format!("ii:thr2:{n_links}links-equal"),
            layout: world::sign_layout(lay, &[owner]),
            owners: world::owner_map(&[owner]),
            dir,
            ambiguous: false,
        });
    }
    // (iii) the second step's MATCH depends on which link represents the first
    {
        let dir = util::fresh_dir(&format!("c13-{tag}"));
        let g = keys::get("ed4");
        let s2 = world::step("t", 1, &[g])
            .add_expected_material(ArtifactRule::Match {
                pattern: "*".into(),
                in_src: None,
                with: Artifact::Products,
                in_dst: None,
                from: "s".into(),
            })
            .add_expected_material(ArtifactRule::Disallow("*".into()));
        let mut table: Vec<&Key> = f.to_vec();
        table.push(g);
        let lay = world::layout(vec![world::step("s", 1, f), s2], vec![], &table, world::far_future());
        for (i, k) in f.iter().enumerate() {
            let l = world::link("s", world::arts(&[]), world::arts(&[("a", 10 + i as u8)]));
            write_link(&dir, "s", k, &world::sign_link(l, &[k]));
        }
        let l2 = world::link("t", world::arts(&[("a", 10)]), world::arts(&[("b", 2)]));
        write_link(&dir, "t", g, &world::sign_link(l2, &[g]));
        out.push(Config {
            name: format!("iii:match-depends-on-representative:{n_links}links"),
            layout: world::sign_layout(lay, &[owner]),
            owners: world::owner_map(&[owner]),
            dir,
            ambiguous: true,
        });
    }
    // (iv) a delegated step with one sub-layout per functionary, differing inner results
    {
        let dir = util::fresh_dir(&format!("c13-{tag}"));
        let inner_f = keys::get("ed5");
        let lay = world::layout(vec![world::step("s", 1, f)], vec![], f, world::far_future());
        for (i, k) in f.iter().enumerate() {
            let inner = world::layout(
                vec![world::step("in", 1, &[inner_f])],
                vec![],
                &[inner_f],
                world::far_future(),
            );
            write_link(&dir, "s", k, &world::sign_layout(inner, &[k]));
            let sub = dir.join(format!("s.{}", k.prefix()));
            std::fs::create_dir_all(&sub).unwrap();
            let l = world::link("in", world::arts(&[]), world::arts(&[("a", 20 + i as u8)]));
            write_link(&sub, "in", inner_f, &world::sign_link(l, &[inner_f]));
        }
        out.push(Config {
            name: format!("iv:{n_links}-sublayouts-differ"),
            layout: world::sign_layout(lay, &[owner]),
            owners: world::owner_map(&[owner]),
            dir,
            ambiguous: true,
        });
    }
    // (v) layout signed by two owners, both supplied; one unambiguous link
    {
        let dir = util::fresh_dir(&format!("c13-{tag}"));
        let lay = world::layout(vec![world::step("s", 1, &f[..1])], vec![], &f[..1], world::far_future());
        let l = world::link("s", world::arts(&[]), world::arts(&[("a", 1)]));
        write_link(&dir, "s", f[0], &world::sign_link(l, &[f[0]]));
        out.push(Config {
            name: "v:two-owners".into(),
            layout: world::sign_layout(lay, &[owner, owner2]),
            owners: world::owner_map(&[owner, owner2]),
            dir,
            ambiguous: false,
        });
    }
    // (xiii) a MATCH between two links that record one artifact with two algorithms, agreeing in one
    // digest and not in the other (the order inside a digest map is a hash-map order that has no
    // choice point: this configuration is for the repetition supplement)
    if n_links == 2 {
        let dir = util::fresh_dir(&format!("c13-{tag}"));
        let t = keys::get("ed5");
        let mk = |sha512_of: u8| -> in_toto::models::TargetDescription {
            let mut d = world::desc(1);
            d.insert(in_toto::crypto::HashAlgorithm::Sha512, in_toto::crypto::HashValue::new(util::sha512(&[sha512_of])));
            d
        };
        let s_step = world::step("s", 1, &f[..1]);
        let t_step = world::step("t", 1, &[t])
            .add_expected_material(in_toto::models::rule::ArtifactRule::Match { pattern: "a".into(), in_src: None, with: in_toto::models::rule::Artifact::Products, in_dst: None, from: "s".into() })
            .add_expected_material(in_toto::models::rule::ArtifactRule::Disallow("*".into()));
        let mut table: Vec<&Key> = f.to_vec();
        table.push(t);
        let lay = world::layout(vec![s_step, t_step], vec![], &table, world::far_future());
        let ls = world::link("s", world::arts(&[]), [(world::vpath("a"), mk(1))].into_iter().collect());
        let lt = world::link("t", [(world::vpath("a"), mk(2))].into_iter().collect(), world::arts(&[("z", 5)]));
        write_link(&dir, "s", f[0], &world::sign_link(ls, &[f[0]]));
        write_link(&dir, "t", t, &world::sign_link(lt, &[t]));
        out.push(Config { name: "xiii:match-two-algorithms-one-agrees".into(), layout: world::sign_layout(lay, &[owner]), owners: world::owner_map(&[owner]), dir, ambiguous: false });
    }
    // (xiv) file names that resemble the proper one: the functionary's link under its proper name,
    // and other validly signed links of the same functionary under the same name in another case
    // (key-id prefix in upper case, step name in upper case, extension in upper case). Only the
    // proper file is evidence; which look-alike is enumerated first must not matter.
    if n_links == 2 {
        let dir = util::fresh_dir(&format!("c13-{tag}"));
        let k = f.iter().copied().find(|k| k.prefix().chars().any(|c| c.is_ascii_alphabetic())).unwrap_or(f[0]);
        let lay = world::layout(vec![world::step("s", 1, &[k])], vec![], &[k], world::far_future());
        let mk = |n: u8| world::block_text(&world::sign_link(world::link("s", world::arts(&[]), world::arts(&[("a", n)])), &[k]));
        let p = k.prefix();
        world::write(&dir, &format!("s.{p}.link"), &mk(1));
        world::write(&dir, &format!("s.{}.link", p.to_uppercase()), &mk(2));
        world::write(&dir, &format!("S.{p}.link"), &mk(3));
        world::write(&dir, &format!("s.{p}.LINK"), &mk(4));
        let mut mixed: Vec<char> = p.chars().collect();
        if let Some(c) = mixed.iter_mut().find(|c| c.is_ascii_alphabetic()) {
            *c = c.to_ascii_uppercase();
        }
        world::write(&dir, &format!("s.{}.link", mixed.into_iter().collect::<String>()), &mk(5));
        out.push(Config { name: "xiv:look-alike-file-names-in-another-case".into(), layout: world::sign_layout(lay, &[owner]), owners: world::owner_map(&[owner]), dir, ambiguous: true });
    }
    // (xv) one functionary key that the layout lists under two ids (one RSA modulus declared with
    // both PSS digests), a validly signed link under each id, with different products: which of
    // the two is looked at first must not matter - alone (threshold 1) and next to a second
    // functionary who agrees with only one of them (threshold 2)
    if n_links == 2 {
        let (r1, r2) = (keys::get("rsa256a"), keys::get("rsa512a"));
        for (thr, with_third) in [(1u32, false), (2, true)] {
            let dir = util::fresh_dir(&format!("c13-{tag}"));
            let mut fs: Vec<&Key> = vec![r1, r2];
            if with_third {
                fs.push(f[0]);
            }
            let lay = world::layout(vec![world::step("s", thr, &fs)], vec![], &fs, world::far_future());
            write_link(&dir, "s", r1, &world::sign_link(world::link("s", world::arts(&[]), world::arts(&[("a", 1)])), &[r1]));
            write_link(&dir, "s", r2, &world::sign_link(world::link("s", world::arts(&[]), world::arts(&[("a", 2)])), &[r2]));
            if with_third {
                write_link(&dir, "s", f[0], &world::sign_link(world::link("s", world::arts(&[]), world::arts(&[("a", 1)])), &[f[0]]));
            }
            out.push(Config { name: format!("xv:one-key-under-two-ids-links-differ:thr{thr}"), layout: world::sign_layout(lay, &[owner]), owners: world::owner_map(&[owner]), dir, ambiguous: true });
        }
    }
    // (vi) more files than needed, some invalid: one valid link, one with a bad
    // signature, one signed by a key outside the key table, one doubly signed
    {
        let dir = util::fresh_dir(&format!("c13-{tag}"));
        let outsider = keys::get("ed5");
        let lay = world::layout(vec![world::step("s", 1, f)], vec![], f, world::far_future());
        let good = world::link("s", world::arts(&[]), world::arts(&[("a", 1)]));
        write_link(&dir, "s", f[0], &world::sign_link(good.clone(), &[f[0]]));
        // tampered after signing (different products, signature of `good`)
        let mut v = world::block_value(&world::sign_link(good.clone(), &[f[1]]));
        v["signed"]["products"] = json!({"a": {"sha256": util::hex(&world::h(77))}});
        world::write(&dir, &world::link_file("s", f[1]), &v.to_string());
        let other = world::link("s", world::arts(&[]), world::arts(&[("a", 55)]));
        write_link(&dir, "s", outsider, &world::sign_link(other.clone(), &[outsider]));
        if n_links > 2 {
            // signed by f2 and the outsider, filed under f2, different content
            write_link(&dir, "s", f[2], &world::sign_link(other, &[outsider, f[2]]));
        }
        out.push(Config {
            name: format!("vi:surplus-and-invalid-files:{n_links}"),
            layout: world::sign_layout(lay, &[owner]),
            owners: world::owner_map(&[owner]),
            dir,
            ambiguous: n_links > 2,
        });
    }
    out
}

thread_local! {
    /// Set in worker processes whose cwd is private to the configuration: inspections leave
    /// `<name>.link` files (and whatever their commands create) in the cwd, which is part of the
    /// inputs, so it is emptied before every execution.
    static CLEAN_CWD: std::cell::Cell<bool> = const { std::cell::Cell::new(false) };
}

thread_local! {
    /// Counts the executions of a configuration that populates its working directory: entries are
    /// created in one order on even executions and in the opposite order on odd ones (on tmpfs and
    /// on many other file systems that is also the order, or the reverse of the order, in which a
    /// directory listing returns them).
    static POPULATE_SEQ: std::cell::Cell<usize> = const { std::cell::Cell::new(0) };
}

/// `populate-cwd` configurations: a file and two symbolic links to it, created in alternating order.
fn populate_cwd(cfg_name: &str) {
    if !cfg_name.contains("populate-cwd") {
        return;
    }
    let n = POPULATE_SEQ.with(|c| {
        let v = c.get();
        c.set(v + 1);
        v
    });
    let _ = std::fs::write("data", b"payload");
    let names = if n % 2 == 0 { ["alias-x", "alias-y"] } else { ["alias-y", "alias-x"] };
    for l in names {
        let _ = std::os::unix::fs::symlink("data", l);
    }
}

fn clean_cwd() {
    if let Ok(rd) = std::fs::read_dir(".") {
        for e in rd.flatten() {
            let p = e.path();
            if p.is_dir() {
                let _ = std::fs::remove_dir_all(&p);
            } else {
                let _ = std::fs::remove_file(&p);
            }
        }
    }
}

/// Configurations whose verdict involves the working directory: inspections inside co-delegated
/// sub-layouts (their order is the iteration order at sites B / B2) and top-level inspections.
/// `root` holds the link directories; the process cwd is a separate, private, initially empty one.
pub fn cwd_configs(root: &std::path::Path) -> Vec<Config> {
    use in_toto::models::inspection::Inspection;
    use in_toto::models::rule::ArtifactRule;
    let owner = keys::get("ed6");
    let (a, b) = (keys::get("ed1"), keys::get("ed2"));
    let mut out = vec![];
    let quiet = |n: &str| Inspection::new(n).run(vec!["true".to_string()].into());
    let strict = |n: &str| Inspection::new(n).run(vec!["true".to_string()].into()).add_expected_material(ArtifactRule::Disallow(world::vpath("*")));
    let sub = |insp: Inspection, k: &Key| world::sign_layout(world::layout(vec![], vec![insp], &[], world::far_future()), &[k]);
    // (x) one step, two functionaries, each delegating to an own sub-layout with one inspection
    for (name, ia, ib) in [("x:one-step:quiet+strict", quiet("ia"), strict("ib")), ("x:one-step:strict+quiet", strict("ia"), quiet("ib")), ("x:one-step:strict+strict", strict("ia"), strict("ib")), ("x:one-step:quiet+quiet", quiet("ia"), quiet("ib"))] {
        let dir = root.join(name.replace(':', "_"));
        std::fs::create_dir_all(&dir).unwrap();
        let lay = world::layout(vec![world::step("s", 1, &[a, b])], vec![], &[a, b], world::far_future());
        write_link(&dir, "s", a, &sub(ia, a));
        write_link(&dir, "s", b, &sub(ib, b));
        for k in [a, b] {
            std::fs::create_dir_all(dir.join(format!("s.{}", k.prefix()))).unwrap();
        }
        out.push(Config { name: name.into(), layout: world::sign_layout(lay, &[owner]), owners: world::owner_map(&[owner]), dir, ambiguous: true });
    }
    // (xi) two delegated steps, one functionary each
    for (name, ia, ib) in [("xi:two-steps:quiet+strict", quiet("ia"), strict("ib")), ("xi:two-steps:strict+quiet", strict("ia"), quiet("ib"))] {
        let dir = root.join(name.replace(':', "_"));
        std::fs::create_dir_all(&dir).unwrap();
        let lay = world::layout(vec![world::step("s1", 1, &[a]), world::step("s2", 1, &[b])], vec![], &[a, b], world::far_future());
        write_link(&dir, "s1", a, &sub(ia, a));
        write_link(&dir, "s2", b, &sub(ib, b));
        std::fs::create_dir_all(dir.join(format!("s1.{}", a.prefix()))).unwrap();
        std::fs::create_dir_all(dir.join(format!("s2.{}", b.prefix()))).unwrap();
        out.push(Config { name: name.into(), layout: world::sign_layout(lay, &[owner]), owners: world::owner_map(&[owner]), dir, ambiguous: true });
    }
    // (xii) two top-level inspections whose results depend on which runs first (layout order is the
    // specified order; this configuration is for the repetition supplement)
    {
        let dir = root.join("xii");
        std::fs::create_dir_all(&dir).unwrap();
        let i1 = Inspection::new("i1").run(vec!["sh".to_string(), "-c".to_string(), "touch made-by-i1".to_string()].into());
        let i2 = Inspection::new("i2").run(vec!["true".to_string()].into()).add_expected_material(ArtifactRule::Disallow(world::vpath("made-by-i1")));
        for (name, insp) in [("xii:inspections:creator-first", vec![i1.clone(), i2.clone()]), ("xii:inspections:creator-last", vec![i2, i1])] {
            let lay = world::layout(vec![], insp, &[], world::far_future());
            out.push(Config { name: name.into(), layout: world::sign_layout(lay, &[owner]), owners: world::owner_map(&[owner]), dir: dir.clone(), ambiguous: false });
        }
    }
    // (xvii) the working directory holds a file and two symbolic links to it; the entries are created
    // in alternating order from one execution to the next (which is how a directory listing's order
    // is varied without a hook). One layout tolerates only the first alias, the other only the
    // second: whatever the verdicts are, they are the same on every execution.
    for keep in ["alias-x", "alias-y"] {
        let dir = root.join(format!("xvii-{keep}"));
        std::fs::create_dir_all(&dir).unwrap();
        let insp = Inspection::new("look")
            .run(vec!["true".to_string()].into())
            .add_expected_material(ArtifactRule::Allow(world::vpath("data")))
            .add_expected_material(ArtifactRule::Allow(world::vpath(keep)))
            .add_expected_material(ArtifactRule::Allow(world::vpath("*.link")))
            .add_expected_material(ArtifactRule::Disallow(world::vpath("*")));
        let lay = world::layout(vec![], vec![insp], &[], world::far_future());
        out.push(Config { name: format!("xvii:populate-cwd:two-aliases-of-one-file:only-{keep}-tolerated"), layout: world::sign_layout(lay, &[owner]), owners: world::owner_map(&[owner]), dir, ambiguous: false });
    }
    // (xvi) verification repeated in the SAME working directory (not emptied in between): two
    // inspections, the later one requiring the link file the earlier one leaves behind. The first
    // run meets an empty directory, every later run the files of the run before; for this layout
    // that changes nothing a rule looks at, so every repetition must give the verdict of the first.
    {
        let dir = root.join("xvi");
        std::fs::create_dir_all(&dir).unwrap();
        let scan = Inspection::new("scan").run(vec!["true".to_string()].into());
        let audit = Inspection::new("audit").run(vec!["true".to_string()].into()).add_expected_material(ArtifactRule::Require(world::vpath("scan.link")));
        let lay = world::layout(vec![], vec![scan, audit], &[], world::far_future());
        out.push(Config { name: "xvi:keep-cwd:later-inspection-requires-the-earlier-link".into(), layout: world::sign_layout(lay, &[owner]), owners: world::owner_map(&[owner]), dir, ambiguous: false });
    }
    out
}

/// Worker entry: one cwd-dependent configuration, explored in a private cwd.
pub fn worker_case(case: &Value, dir: &std::path::Path) -> Value {
    let links = dir.join("links");
    let cwd = dir.join("cwd");
    std::fs::create_dir_all(&links).unwrap();
    std::fs::create_dir_all(&cwd).unwrap();
    let cfgs = cwd_configs(&links);
    let idx = case["config"].as_u64().unwrap_or(0) as usize;
    let Some(cfg) = cfgs.get(idx) else { return json!({"machinery_error": "no such configuration"}) };
    std::env::set_current_dir(&cwd).unwrap();
    // configurations named keep-cwd are repeated in the directory as the previous run left it
    CLEAN_CWD.with(|c| c.set(!cfg.name.contains("keep-cwd")));
    REPETITIONS.store(case["repetitions"].as_u64().unwrap_or(12) as usize, std::sync::atomic::Ordering::Relaxed);
    let mut acc = Acc::new();
    let (outs, stats) = run_config(cfg, 99, 20_000, &mut acc);
    CLEAN_CWD.with(|c| c.set(false));
    let _ = std::env::set_current_dir("/");
    json!({
        "config": cfg.name,
        "executions": stats.executions,
        "evaluations": acc.evaluations,
        "accepting": acc.accepting,
        "distinct_outcomes": outs.len(),
        "violations": acc.violations.values().map(|v| json!({"key": v.key, "what": v.what, "witness": v.witness, "count": v.count})).collect::<Vec<_>>(),
    })
}

/// Repetitions of the default schedule per configuration (supplement; see `run_config`).
pub static REPETITIONS: std::sync::atomic::AtomicUsize = std::sync::atomic::AtomicUsize::new(12);

pub fn run_config(
    cfg: &Config,
    bound: usize,
    max_exec: u64,
    acc: &mut Acc,
) -> (BTreeSet<String>, explore::DfsStats) {
    let run = |script: &[usize]| -> (Verdict, Vec<ChoicePoint>, bool) {
        let drv = Driver {
            clock: Some(world::now()),
            permute: true,
            script: script.to_vec(),
            ..Driver::default()
        };
        if CLEAN_CWD.with(|c| c.get()) {
            clean_cwd();
        }
        populate_cwd(&cfg.name);
        let (v, d) = world::verify_with(&cfg.layout, cfg.owners.clone(), &cfg.dir, drv);
        (v, d.trace, d.diverged)
    };
    let mut outcomes: BTreeSet<String> = BTreeSet::new();
    let mut first: Option<(Vec<usize>, Verdict)> = None;
    let mut local = Acc::new();
    let stats = explore::explore(&run, bound, max_exec, &mut |script, parent, obs| {
        local.evaluations += 1;
        local.traces += 1;
        local.transitions += 1;
        if obs.is_ok() {
            local.accepting += 1;
        }
        outcomes.insert(obs_of(obs));
        local.outcome(obs.tag());
        if let Verdict::Panic(l, m) = obs {
            local.violation(
                &format!("panic:{l}"),
                &format!("verification panicked at {l}: {m}"),
                || json!({"config": cfg.name, "script": script}),
            );
        }
        if first.is_none() {
            first = Some((script.to_vec(), obs.clone()));
        }
        if let Some((pobs, cp)) = parent {
            if obs_of(pobs) != obs_of(obs) {
                // replay both once more before believing it
                let parent_script: Vec<usize> = script[..script.len() - 1].to_vec();
                let again_child = run(script).0;
                let again_parent = run(&parent_script).0;
                if obs_of(&again_child) != obs_of(obs) || obs_of(&again_parent) != obs_of(pobs) {
                    // the same inputs under the same owned iteration orders gave two outcomes: the
                    // verdict depends on something the inputs do not determine (an iteration order
                    // without a choice point, state left by an earlier call, ...)
                    local.violation(
                        "nondeterministic:same-schedule-two-outcomes",
                        "repeating verification with the same inputs and the same iteration order at every choice point gives a different outcome",
                        || json!({"config": cfg.name, "schedule": script, "outcome_first": obs.to_json(), "outcome_again": again_child.to_json(), "parent_first": pobs.to_json(), "parent_again": again_parent.to_json()}),
                    );
                    return;
                }
                local.violation(
                    &format!("order-dependent:site-{}", cp.site),
                    &format!(
                        "the outcome of verification changes with the iteration order at site {} (same layout, keys and link directory)",
                        cp.site
                    ),
                    || {
                        json!({
                            "config": cfg.name,
                            "schedule_a": parent_script,
                            "outcome_a": pobs.to_json(),
                            "schedule_b": script,
                            "outcome_b": obs.to_json(),
                            "site": cp.site,
                            "elements_at_site": cp.n,
                        })
                    },
                );
            }
        }
    });
    {
        // Supplement (sampling, labelled so): repeat the default schedule. Every call builds fresh
        // hash maps with fresh seeds, so an iteration order that has no choice point, or state kept
        // between calls, shows as two outcomes. In a degraded run (call-site hooks off) this is all
        // there is, hence more repetitions.
        let mut seen: BTreeSet<String> = BTreeSet::new();
        let mut firstv: Option<Verdict> = None;
        // the first execution of the exploration ran the default schedule too: it is repetition
        // number zero (in a directory that is not emptied it is the only one that met it empty)
        if let Some((script, v)) = &first {
            if script.iter().all(|x| *x == 0) {
                seen.insert(obs_of(v));
                firstv = Some(v.clone());
            }
        }
        let reps = if cfg!(in_toto_verif_nosites) { 96 } else { REPETITIONS.load(std::sync::atomic::Ordering::Relaxed) };
        for _ in 0..reps {
            if CLEAN_CWD.with(|c| c.get()) {
                clean_cwd();
            }
            populate_cwd(&cfg.name);
            let (v, _) = world::verify_with(&cfg.layout, cfg.owners.clone(), &cfg.dir, world::default_driver());
            local.evaluations += 1;
            if seen.insert(obs_of(&v)) && seen.len() == 2 {
                local.violation(
                    if cfg.name.contains("keep-cwd") { "depends-on-files-left-by-the-previous-verification" } else if cfg.name.contains("populate-cwd") { "depends-on-the-order-in-which-directory-entries-were-created" } else { "order-dependent:unowned-iteration-order(sampled)" },
                    "repeating verification on the same inputs and the same owned iteration orders gives different outcomes (found by repetition)",
                    || json!({"config": cfg.name, "outcome_a": firstv.as_ref().map(|f| f.to_json()), "outcome_b": v.to_json()}),
                );
            }
            if firstv.is_none() {
                firstv = Some(v);
            }
        }
        outcomes.extend(seen);
    }
    acc.merge(local);
    (outcomes, stats)
}

/// Scan the verdict path for map-iteration constructs that carry no hook.
/// Per function: variables shadowed by a `verif_hooks::` call are hooked;
/// an iteration over anything else must be on the whitelist (vectors, and the
/// collection of caller keys / signatures into lookup maps).
fn site_lint() -> (Vec<String>, usize) {
    let mut unhooked = vec![];
    let mut hooked = 0;
    let whitelist = [
        ".steps",
        ".inspect",
        "inspect.run",
        "link_metablock.signatures",
        "for step in steps",
        "layout_keys.values()",
        "authorized_keys",
        "self.signatures",
        ".signatures\n",
        "private_keys.iter()",
        "MetadataType::iter()",
        "matched_files",
        // warn-only command alignment
        "for link in key_link_dict.values()",
        // inner maps of the nested map taken over at site D
        "v.iter()",
        "v.values()",
        // builder: collected and then sorted by key id
        "self.signatures.into_values()",
    ];
    let iter_tokens = [
        ".iter()", ".keys()", ".values()", ".into_iter()", ".drain()",
        ".into_values()", ".into_keys()", ".iter_mut()", ".values_mut()",
    ];
    for file in ["/repo/src/verifylib.rs", "/repo/src/models/metadata.rs"] {
        let Ok(txt) = std::fs::read_to_string(file) else {
            continue;
        };
        let body = txt.split("#[cfg(test)]").next().unwrap_or("");
        let lines: Vec<&str> = body.lines().collect();
        let mut hooked_vars: Vec<String> = vec![];
        let mut pending_let: Option<String> = None;
        for (i, l) in lines.iter().enumerate() {
            let t = l.trim();
            if t.starts_with("fn ") || t.starts_with("pub fn ") || t.starts_with("pub(crate) fn ") {
                hooked_vars.clear();
            }
            if t.starts_with("//") {
                continue;
            }
            if let Some(rest) = t.strip_prefix("let ") {
                let name: String = rest
                    .trim_start_matches("mut ")
                    .chars()
                    .take_while(|c| c.is_alphanumeric() || *c == '_')
                    .collect();
                pending_let = Some(name);
            }
            if t.contains("verif_hooks::") {
                if let Some(n) = pending_let.clone() {
                    hooked_vars.push(n);
                }
                continue;
            }
            let iterates = (t.starts_with("for ") && t.contains(" in "))
                || iter_tokens.iter().any(|p| t.contains(p));
            if !iterates {
                continue;
            }
            let ctx = lines[i.saturating_sub(2)..(i + 1).min(lines.len())]
                .iter()
                .map(|x| x.trim())
                .collect::<Vec<_>>()
                .join("\n");
            if hooked_vars.iter().any(|v| {
                ctx.contains(&format!("{v}.")) || ctx.contains(&format!("in {v}")) || ctx.contains(&format!("in &{v}"))
            }) {
                hooked += 1;
                continue;
            }
            if whitelist.iter().any(|w| ctx.contains(w)) {
                continue;
            }
            unhooked.push(format!("{}:{}: {}", file.trim_start_matches("/repo/"), i + 1, t));
        }
    }
    (unhooked, hooked)
}

pub fn run(tier: Tier) -> i32 {
    let mut c = Check::new("C13", "model_checking", tier);
    let (bound2, bound3, cap) = if tier.thorough() { (99, 4, 2_000_000u64) } else { (99, 3, 60_000u64) };
    REPETITIONS.store(if tier.thorough() { 48 } else { 12 }, std::sync::atomic::Ordering::Relaxed);
    let mut acc = Acc::new();
    let mut per_config = BTreeMap::new();
    let mut capped = vec![];
    let mut all: Vec<(Config, usize)> = configs(2, "a").into_iter().map(|c| (c, bound2)).collect();
    all.extend(configs(3, "b").into_iter().map(|c| (c, bound3)));
    let results = util::par_fold(
        &all,
        || (Acc::new(), Vec::new()),
        |(acc, res), _i, (cfg, bound)| {
            let (outs, stats) = run_config(cfg, *bound, cap, acc);
            acc.states += 1;
            if cfg.ambiguous {
                acc.nontrivial += 1;
            }
            res.push((cfg.name.clone(), outs.len(), stats.executions, stats.max_points, stats.capped, *bound));
        },
    );
    for (a, res) in results {
        acc.merge(a);
        for (name, n_out, execs, pts, cap_hit, bound) in res {
            if cap_hit {
                capped.push(format!("{name}: execution cap {cap} hit"));
            }
            per_config.insert(
                name,
                json!({"distinct_outcomes": n_out, "schedules": execs, "max_choice_points": pts, "deviation_bound": if bound > 50 { json!("unbounded") } else { json!(bound) }}),
            );
        }
    }
    // ---- configurations that involve the working directory (worker processes, private cwd)
    {
        let n_cwd = cwd_configs(&util::fresh_dir("c13-cwd-count")).len();
        let cases: Vec<Value> = (0..n_cwd).map(|i| json!({"config": i, "repetitions": if tier.thorough() { 48 } else { 12 }})).collect();
        let results = crate::worker::run_cases("c13", &cases, if tier.thorough() { 900 } else { 240 });
        for (case, r) in cases.iter().zip(&results) {
            match r {
                crate::worker::WorkerResult::Done(out) => {
                    if let Some(e) = out.get("machinery_error") {
                        util::machinery_error(&format!("C13 worker: {e}"));
                    }
                    acc.states += 1;
                    acc.nontrivial += 1;
                    let ex = out["executions"].as_u64().unwrap_or(0);
                    acc.evaluations += out["evaluations"].as_u64().unwrap_or(0);
                    acc.traces += ex;
                    acc.transitions += ex;
                    acc.accepting += out["accepting"].as_u64().unwrap_or(0);
                    per_config.insert(out["config"].as_str().unwrap_or("?").to_string(), json!({"distinct_outcomes": out["distinct_outcomes"], "schedules": ex, "private_cwd": true}));
                    for v in out["violations"].as_array().cloned().unwrap_or_default() {
                        let key = v["key"].as_str().unwrap_or("other").to_string();
                        let what = v["what"].as_str().unwrap_or("").to_string();
                        let mut w = v["witness"].clone();
                        w["private_cwd"] = json!(true);
                        acc.violation(&key, &what, || w);
                    }
                }
                crate::worker::WorkerResult::Died(s) => util::machinery_error(&format!("C13 worker died ({s}) on {case}")),
                crate::worker::WorkerResult::NotRun => util::machinery_error("C13 cwd configuration not run"),
            }
        }
    }
    // ---- hooks-off legs -------------------------------------------------
    let hooked_battery = crate::plain::battery_hooked();
    let n_fresh = if cfg!(in_toto_verif_nosites) { 32 } else if tier.thorough() { 24 } else { 6 };
    let fresh = crate::plain::battery_plain(n_fresh);
    let mut fresh_distinct = BTreeMap::new();
    for (name, outcome) in &hooked_battery {
        let mut set: BTreeSet<&String> = BTreeSet::new();
        for run in &fresh {
            if let Some((_, o)) = run.iter().find(|(n, _)| n == name) {
                set.insert(o);
            }
        }
        acc.evaluations += fresh.len() as u64;
        fresh_distinct.insert(name.clone(), set.len());
        if set.len() > 1 {
            acc.violation(
                &format!("fresh-process-nondeterminism:{name}"),
                "the hooks-off build gives different outcomes for the same inputs in different processes (sampled leg)",
                || json!({"battery_case": name, "outcomes": set}),
            );
        } else if set.iter().next().map(|o| *o != outcome).unwrap_or(true) {
            // hook transparency: same verdict with and without the hooks compiled in
            util::machinery_error(&format!("hook transparency: battery case {name} differs between hooked build ({outcome}) and hooks-off build ({set:?})"));
        }
    }
    c.extra.insert("fresh_process_leg".into(), json!({"processes": n_fresh, "distinct_outcomes_per_case": fresh_distinct, "note": "sampling over hash seeds; never the deciding step"}));
    c.selftests.push("hook-transparency-battery".into());
    let (unhooked, hooked) = site_lint();
    c.extra.insert("per_configuration".into(), json!(per_config));
    c.extra.insert("unhooked_iteration_sites".into(), json!(unhooked));
    c.extra.insert("hooked_iteration_sites_found_by_lint".into(), json!(hooked));
    acc.sample(|| json!({"config": "i:thr1:2links-differ-in-products", "script": [0, 1], "meaning": "choice point 1 uses permutation 1, all others sorted order"}));
    c.caps_hit = capped;
    crate::envprobe::judge(&mut acc, "C13:", &mut c.extra);
    c.acc = acc;
    c.rule = "states = configurations (layout + keys + link directory); transitions = executed schedules (permutation vectors over the hooked iteration sites A,B,B2,C,D,E,F); a configuration is non-trivial when more valid evidence exists than needed and it differs, so that a representative must be picked; each schedule is one run of the real in_toto_verify".into();
    c.bound_completed = format!(
        "2-element sites: all permutation vectors; 3-element sites: at most {bound3} non-default permutations per schedule"
    );
    c.assume("nondeterminism outside the hooked sites: none in the verdict path (see unhooked_iteration_sites)");
    c.assume("inspection commands themselves are deterministic (`true`, `touch`); the working directory is part of the inputs and is emptied before every execution of the configurations that have inspections");
    c.finish()
}

pub fn replay(case: &Value) -> Value {
    let name = case["config"].as_str().unwrap_or("");
    let mut found = None;
    for n in [2, 3] {
        for cfg in configs(n, "r") {
            if cfg.name == name {
                found = Some(cfg);
            }
        }
    }
    if found.is_none() && case["private_cwd"] == true {
        // cwd-dependent configuration: re-run it in a worker
        let n = cwd_configs(&util::fresh_dir("c13-cwd-count")).iter().position(|c| c.name == name);
        let Some(i) = n else { return json!({"error": "unknown configuration", "violation": null}) };
        let r = crate::worker::run_cases("c13", &[json!({"config": i, "repetitions": 24})], 240);
        return match &r[0] {
            crate::worker::WorkerResult::Done(out) => json!({"worker": out, "violation": out["violations"].as_array().and_then(|a| a.first()).map(|v| v["key"].clone())}),
            _ => json!({"error": "worker died", "violation": null}),
        };
    }
    let Some(cfg) = found else {
        return json!({"error": "unknown configuration", "violation": null});
    };
    let script = |k: &str| -> Vec<usize> {
        case[k]
            .as_array()
            .map(|a| a.iter().filter_map(|x| x.as_u64().map(|x| x as usize)).collect())
            .unwrap_or_default()
    };
    let run = |s: &[usize]| {
        let drv = Driver {
            clock: Some(world::now()),
            permute: true,
            script: s.to_vec(),
            ..Driver::default()
        };
        world::verify_with(&cfg.layout, cfg.owners.clone(), &cfg.dir, drv).0
    };
    if case.get("schedule_a").is_some() {
        let (a, b) = (run(&script("schedule_a")), run(&script("schedule_b")));
        let differ = obs_of(&a) != obs_of(&b);
        json!({"outcome_a": a.to_json(), "outcome_b": b.to_json(),
               "violation": if differ { json!("order-dependent") } else { Value::Null }})
    } else {
        let a = run(&script("script"));
        json!({"outcome": a.to_json(), "violation": if matches!(a, Verdict::Panic(..)) { json!("panic") } else { Value::Null }})
    }
}

#[allow(dead_code)]
fn _unused(_: MetadataWrapper) {}
