//! C06 — an expired layout is never accepted.
//!
//! E3 grid through the clock seam (hook H3): expiry instant x UTC-offset
//! notation x sub-second spelling x verification time. The expiry text is read
//! by an independent RFC 3339 reader into nanoseconds since the epoch; the
//! verification time is constructed as that instant plus a delta, so the oracle
//! is simply: accepted => delta <= 0. Same grid on a delegated sub-layout.

use chrono::{DateTime, Utc};
use in_toto::models::Metablock;
use in_toto::verif_hooks::Driver;
use serde_json::{json, Value};

use crate::keys;
use crate::report::{Acc, Check, Tier};
use crate::util;
use crate::world::{self, Verdict};

// ---------------------------------------------------------------- calendar

/// Days from 1970-01-01 to y-m-d (proleptic Gregorian; Hinnant's algorithm).
fn days_from_civil(y: i64, m: i64, d: i64) -> i64 {
    let y = if m <= 2 { y - 1 } else { y };
    let era = if y >= 0 { y } else { y - 399 } / 400;
    let yoe = y - era * 400;
    let doy = (153 * (if m > 2 { m - 3 } else { m + 9 }) + 2) / 5 + d - 1;
    let doe = yoe * 365 + yoe / 4 - yoe / 100 + doy;
    era * 146097 + doe - 719468
}

fn civil_from_days(z: i64) -> (i64, i64, i64) {
    let z = z + 719468;
    let era = if z >= 0 { z } else { z - 146096 } / 146097;
    let doe = z - era * 146097;
    let yoe = (doe - doe / 1460 + doe / 36524 - doe / 146096) / 365;
    let y = yoe + era * 400;
    let doy = doe - (365 * yoe + yoe / 4 - yoe / 100);
    let mp = (5 * doy + 2) / 153;
    let d = doy - (153 * mp + 2) / 5 + 1;
    let m = if mp < 10 { mp + 3 } else { mp - 9 };
    (if m <= 2 { y + 1 } else { y }, m, d)
}

/// Independent RFC 3339 reader (also reads the ISO 8601 offsets +hhmm and +hh): nanoseconds since the epoch, or None.
pub fn rfc3339_ns(s: &str) -> Option<i128> {
    let b = s.as_bytes();
    if b.len() < 20 {
        return None;
    }
    let num = |r: std::ops::Range<usize>| -> Option<i64> {
        let t = s.get(r)?;
        if t.bytes().all(|c| c.is_ascii_digit()) {
            t.parse().ok()
        } else {
            None
        }
    };
    let (y, mo, d) = (num(0..4)?, num(5..7)?, num(8..10)?);
    if b[4] != b'-' || b[7] != b'-' || !(b[10] == b'T' || b[10] == b't' || b[10] == b' ') || b[13] != b':' || b[16] != b':' {
        return None;
    }
    let (h, mi, sec) = (num(11..13)?, num(14..16)?, num(17..19)?);
    if !(1..=12).contains(&mo) || d < 1 || d > 31 || h > 23 || mi > 59 || sec > 60 {
        return None;
    }
    let mut i = 19;
    let mut frac_ns: i128 = 0;
    if b[i] == b'.' {
        i += 1;
        let start = i;
        while i < b.len() && b[i].is_ascii_digit() {
            i += 1;
        }
        if i == start {
            return None;
        }
        let digits = &s[start..i];
        let mut ns = String::from(&digits[..digits.len().min(9)]);
        while ns.len() < 9 {
            ns.push('0');
        }
        frac_ns = ns.parse().ok()?;
    }
    let off_s: i64 = match b.get(i)? {
        b'Z' | b'z' => {
            if i + 1 != b.len() {
                return None;
            }
            0
        }
        sign @ (b'+' | b'-') => {
            // RFC 3339 writes +hh:mm; ISO 8601 also allows +hhmm and +hh (round 15): the library
            // refuses these, but a reader that did take them must take them for the same instant
            let (oh, om) = if i + 6 == b.len() && b[i + 3] == b':' {
                (num(i + 1..i + 3)?, num(i + 4..i + 6)?)
            } else if i + 5 == b.len() {
                (num(i + 1..i + 3)?, num(i + 3..i + 5)?)
            } else if i + 3 == b.len() {
                (num(i + 1..i + 3)?, 0)
            } else {
                return None;
            };
            if oh > 23 || om > 59 {
                return None;
            }
            let v = oh * 3600 + om * 60;
            if *sign == b'+' {
                v
            } else {
                -v
            }
        }
        _ => return None,
    };
    let days = days_from_civil(y, mo, d);
    let secs = days * 86400 + h * 3600 + mi * 60 + sec - off_s;
    Some(secs as i128 * 1_000_000_000 + frac_ns)
}

fn render(utc_secs: i64, off_min: i64, off_txt: &str, frac: &str, style: &str) -> String {
    let local = utc_secs + off_min * 60;
    let days = local.div_euclid(86400);
    let rem = local.rem_euclid(86400);
    let (y, m, d) = civil_from_days(days);
    let (h, mi, s) = (rem / 3600, rem % 3600 / 60, rem % 60);
    let (t, z) = match style {
        "lower" => ('t', off_txt.replace('Z', "z")),
        "space" => (' ', off_txt.to_string()),
        _ => ('T', off_txt.to_string()),
    };
    format!("{y:04}-{m:02}-{d:02}{t}{h:02}:{mi:02}:{s:02}{frac}{z}")
}

const NS: i128 = 1_000_000_000;

fn from_ns(ns: i128) -> Option<DateTime<Utc>> {
    let secs = ns.div_euclid(NS) as i64;
    let nanos = ns.rem_euclid(NS) as u32;
    DateTime::<Utc>::from_timestamp(secs, nanos)
}

pub const BASES: [(&str, i64, i64, i64, i64, i64, i64); 8] = [
    ("0001-01-01T00:00:00", 1, 1, 1, 0, 0, 0),
    ("1969-12-31T23:59:59", 1969, 12, 31, 23, 59, 59),
    ("1970-01-01T00:00:00", 1970, 1, 1, 0, 0, 0),
    ("2000-02-29T12:00:00", 2000, 2, 29, 12, 0, 0),
    ("2030-01-01T00:00:00", 2030, 1, 1, 0, 0, 0),
    ("2038-01-19T03:14:07", 2038, 1, 19, 3, 14, 7),
    ("2262-04-11T23:47:16", 2262, 4, 11, 23, 47, 16),
    ("9999-12-31T23:59:59", 9999, 12, 31, 23, 59, 59),
];

pub const OFFSETS: [(&str, i64); 13] = [
    ("+0900", 540),
    ("-0330", -210),
    ("+09", 540),
    ("+1400", 840),
    ("Z", 0),
    ("+00:00", 0),
    ("-00:00", 0),
    ("+05:30", 330),
    ("-08:00", -480),
    ("+14:00", 840),
    ("+23:59", 1439),
    ("-23:59", -1439),
    ("-00:01", -1),
];

pub const FRACS: [&str; 6] = ["", ".5", ".000000001", ".999999999", ".9999999999", ".0"];
pub const STYLES: [&str; 3] = ["upper", "lower", "space"];

const DAY: i128 = 86400 * NS;
pub const DELTAS: [(&str, i128); 18] = [
    ("-2000y", -730_000 * DAY),
    ("-293y", -106_945 * DAY),
    ("-1y", -365 * DAY),
    ("-1d", -DAY),
    ("-1s", -NS),
    ("-1ns", -1),
    ("0", 0),
    ("+1ns", 1),
    ("+999999999ns", NS - 1),
    ("+1s", NS),
    ("+1d", DAY),
    ("+1y", 365 * DAY),
    ("+100y", 36500 * DAY),
    // beyond what a 64-bit nanosecond count can hold (about 292.3 years)
    ("+292y", 106_580 * DAY),
    ("+293y", 106_945 * DAY),
    ("+300y", 109_500 * DAY),
    ("+2000y", 730_000 * DAY),
    ("+9000y", 3_285_000 * DAY),
];

struct Fixture {
    /// top-level zero-step layout signed by the owner, as JSON
    top: Value,
    /// top-level layout with a key table, a step with rules and a satisfying link (in `full_dir`)
    full: Value,
    full_dir: std::path::PathBuf,
    /// outer layout with one delegated step; inner layout block as JSON
    outer: Metablock,
    inner: Value,
}

fn fixture() -> Fixture {
    let owner = keys::get("ed6");
    let a = keys::get("ed1");
    let top = world::block_value(&world::sign_layout(world::layout(vec![], vec![], &[], world::far_future()), &[owner]));
    let outer = world::sign_layout(world::layout(vec![world::step("s", 1, &[a])], vec![], &[a], from_ns(200_000 * 365 * DAY).unwrap()), &[owner]);
    let inner = world::block_value(&world::sign_layout(world::layout(vec![], vec![], &[], world::far_future()), &[a]));
    let st = world::step("s", 1, &[a]).add_expected_product(in_toto::models::rule::ArtifactRule::Create(world::vpath("p"))).add_expected_product(in_toto::models::rule::ArtifactRule::Disallow(world::vpath("*")));
    let full = world::block_value(&world::sign_layout(world::layout(vec![st], vec![], &[a], world::far_future()), &[owner]));
    let full_dir = util::fresh_dir("c06full");
    world::write(&full_dir, &world::link_file("s", a), &world::block_text(&world::sign_link(world::link("s", Default::default(), world::arts(&[("p", 1)])), &[a])));
    Fixture { top, full, full_dir, outer, inner }
}

/// Build a validly signed block whose `expires` text is `text`: the library
/// signs the UTC instant at second precision; the text is then substituted
/// (same second, so the signature stays valid).
fn signed_with_expiry(text: &str, template: &Value, signer: &keys::Key) -> Option<Metablock> {
    let mut v = template.clone();
    v["signed"]["expires"] = json!(text);
    let parsed = world::block_from_value(&v).ok()?;
    // re-sign the parsed content (second precision), then put the text back
    let resigned = world::sign(parsed.metadata.clone(), &[signer]);
    let mut v2 = world::block_value(&resigned);
    v2["signed"]["expires"] = json!(text);
    world::block_from_value(&v2).ok()
}

#[derive(Clone)]
struct Case {
    base: usize,
    off: usize,
    frac: usize,
    style: usize,
    leap: bool,
}

fn case_text(c: &Case) -> (String, i64) {
    let b = BASES[c.base];
    let utc = days_from_civil(b.1, b.2, b.3) * 86400 + b.4 * 3600 + b.5 * 60 + b.6;
    let mut t = render(utc, OFFSETS[c.off].1, OFFSETS[c.off].0, FRACS[c.frac], STYLES[c.style]);
    if c.leap {
        // spell the last second of the minute as :60 (only when seconds == 59)
        let pos = 17;
        if &t[pos..pos + 2] == "59" {
            t.replace_range(pos..pos + 2, "60");
        }
    }
    (t, utc)
}

fn judge(acc: &mut Acc, what: &str, text: &str, delta: &str, dns: i128, v: &Verdict, witness: &dyn Fn() -> Value) {
    acc.evaluations += 1;
    acc.outcome(&format!("{what}|{}|{}", if dns <= 0 { "not-expired" } else { "expired" }, v.tag()));
    match v {
        Verdict::Ok(_) => {
            acc.accepting += 1;
            acc.note(&format!("accepted:{what}"));
            if dns > 0 {
                let class = if dns < NS { "sub-second" } else { "whole-seconds" };
                acc.violation(
                    &format!("expired-accepted:{what}:{class}"),
                    &format!("{what} layout with expiry {text} accepted at verification time expiry{delta}"),
                    witness,
                );
            }
        }
        Verdict::Panic(l, m) => acc.violation(&format!("panic:{l}"), &format!("verification panicked at {l}: {m}"), witness),
        Verdict::Err(_) => {}
    }
}

/// A delegation chain `depth` levels deep below the outer layout: level i lies in
/// dir/s.<k1>/../ and is signed by the i-th key; every level but the last is an unexpired layout
/// that delegates its one step, the last carries the expiry text.
fn build_chain(dir: &std::path::Path, depth: usize, text: &str, inner_template: &Value) -> bool {
    let chain = [keys::get("ed1"), keys::get("ed2"), keys::get("ed3")];
    let Some(innermost) = signed_with_expiry(text, inner_template, chain[depth - 1]) else { return false };
    let _ = std::fs::remove_dir_all(dir);
    std::fs::create_dir_all(dir).unwrap();
    let mut at = dir.to_path_buf();
    for level in 1..=depth {
        let signer = chain[level - 1];
        let text_of_level = if level == depth {
            let mut v = world::block_value(&innermost);
            v["signed"]["expires"] = json!(text);
            v.to_string()
        } else {
            let next = chain[level];
            // (written to a file: the expiry must be a four-digit year)
            world::block_text(&world::sign_layout(world::layout(vec![world::step("s", 1, &[next])], vec![], &[next], chrono::DateTime::parse_from_rfc3339("9999-12-31T23:59:59Z").unwrap().with_timezone(&chrono::Utc)), &[signer]))
        };
        world::write(&at, &world::link_file("s", signer), &text_of_level);
        at = at.join(format!("s.{}", signer.prefix()));
        std::fs::create_dir_all(&at).unwrap();
    }
    true
}

/// More delegations than the step needs: threshold 1, two functionaries, each hands in a sub-layout;
/// one of them (in turn the one with the smaller and with the larger key id) has expired. Every
/// sub-layout that is handed in is verified, so the expired one fails the verification.
fn surplus_leg(acc: &mut Acc, fx: &Fixture) {
    let owner = keys::get("ed6");
    let pair = [keys::get("ed1"), keys::get("ed2")];
    let dir = util::fresh_dir("c06s");
    let text = "2030-06-01T12:00:00Z";
    let Some(exp_ns) = rfc3339_ns(text) else { return };
    let outer = world::sign_layout(world::layout(vec![world::step("s", 1, &pair)], vec![], &pair, from_ns(200_000 * 365 * DAY).unwrap()), &[owner]);
    for expired in 0..2 {
        let _ = std::fs::remove_dir_all(&dir);
        std::fs::create_dir_all(&dir).unwrap();
        for (i, k) in pair.iter().enumerate() {
            let t = if i == expired { text } else { "9999-12-31T23:59:59Z" };
            let Some(inner) = signed_with_expiry(t, &fx.inner, k) else { return };
            let mut v = world::block_value(&inner);
            v["signed"]["expires"] = json!(t);
            world::write(&dir, &world::link_file("s", k), &v.to_string());
            std::fs::create_dir_all(dir.join(format!("s.{}", k.prefix()))).unwrap();
        }
        for (dname, dns) in [("-1s", -(NS as i128)), ("+1ns", 1i128), ("+1s", NS as i128), ("+1h", 3600 * NS as i128)] {
            let Some(now) = from_ns(exp_ns + dns) else { continue };
            let drv = Driver { clock: Some(now), permute: true, ..Driver::default() };
            let (v, _) = world::verify_with(&outer, world::owner_map(&[owner]), &dir, drv);
            let which = if pair[expired].id() < pair[1 - expired].id() { "smaller" } else { "larger" };
            let leg = "surplus-sub-layout";
            acc.nontrivial += 1;
            judge(acc, leg, text, dname, dns, &v, &|| json!({"level": leg, "expires": text, "delta": dname, "delta_ns": dns.to_string(), "expired_one_has_the_key_id": which, "expired_index": expired}));
        }
    }
}

/// Ageing leg (hooks-off binary, real clock, one process): layouts that expire *after* the
/// process's first verification must be rejected once their expiry has passed.
fn judge_ageing(acc: &mut Acc, extra: &mut serde_json::Map<String, Value>, results: Vec<(String, String, f64, f64, String)>) {
    let mut accepted_before = 0;
    let mut judged_after = 0;
    for (label, expires, started, returned, outcome) in &results {
        acc.evaluations += 1;
        acc.nontrivial += 1;
        let ok = outcome.starts_with("ok");
        let phase = if *started >= 0.0 { "expired" } else if *returned < 0.0 { "not-expired" } else { "straddles-expiry" };
        acc.outcome(&format!("ageing|{phase}|{}", if ok { "ok" } else { "err" }));
        if *returned < 0.0 && ok {
            accepted_before += 1;
        }
        if *started >= 0.0 {
            judged_after += 1;
            if ok {
                acc.violation(
                    "expired-accepted:after-earlier-verification-in-the-same-process",
                    &format!("a process that had verified earlier accepted a layout {started:.1} s after its expiry ({label}, expires {expires})"),
                    || json!({"level": "ageing", "label": label, "expires": expires, "started_past_expiry_s": started}),
                );
            }
        }
    }
    if accepted_before == 0 {
        acc.note("ageing-leg:no-layout-accepted-before-its-expiry(machine too slow: leg judged nothing about acceptance)");
    }
    extra.insert("ageing_leg".into(), json!({"verifications": results.len(), "accepted_before_expiry": accepted_before, "judged_after_expiry": judged_after, "note": "hooks-off binary, real clock: the process verifies once, then layouts (top-level and delegated) expiring 2-3 s later are verified before and (after a sleep) after their expiry"}));
}

pub fn run(tier: Tier) -> i32 {
    let mut c = Check::new("C06", "exploration", tier);
    // the ageing leg sleeps for some seconds: run it beside everything else
    let ageing = std::thread::spawn(crate::plain::ageing_plain);
    // oracle self-test: the independent reader agrees with chrono on the grid
    let fx = fixture();
    let owner = keys::get("ed6");
    let a = keys::get("ed1");
    let mut cases = vec![];
    for base in 0..BASES.len() {
        for off in 0..OFFSETS.len() {
            for frac in 0..FRACS.len() {
                for style in 0..STYLES.len() {
                    for leap in [false, true] {
                        if leap && (frac != 0 || style != 0) {
                            continue;
                        }
                        cases.push(Case { base, off, frac, style, leap });
                    }
                }
            }
        }
    }
    let mut disagreements = vec![];
    let mut parsed_by_lib = 0;
    for cs in &cases {
        let (t, _) = case_text(cs);
        let lib = DateTime::parse_from_rfc3339(&t).ok().map(|d| {
            let u = d.with_timezone(&Utc);
            u.timestamp() as i128 * NS + u.timestamp_subsec_nanos() as i128
        });
        let mine = rfc3339_ns(&t);
        if let Some(l) = lib {
            parsed_by_lib += 1;
            // leap second: chrono keeps nanos >= 1e9; mine counts :60 as the next second
            let l_norm = l;
            if mine != Some(l_norm) && !cs.leap {
                disagreements.push(t.clone());
            }
        }
    }
    c.selftest("rfc3339-reader-vs-chrono", disagreements.is_empty(), &format!("{disagreements:?}"));
    c.extra.insert("notations_parsed_by_library".into(), json!(parsed_by_lib));
    c.extra.insert("notations_total".into(), json!(cases.len()));

    if cfg!(in_toto_verif_nosites) {
        // no clock seam: only the real-clock legs (hooks-off binary and the same battery in-process)
        let wall = crate::plain::wallclock_plain();
        let mut acc = Acc::new();
        for (text, delta_s, outcome) in &wall {
            acc.evaluations += 1;
            acc.nontrivial += 1;
            acc.outcome(&format!("wall-clock|{}|{}", if *delta_s < 0 { "expired" } else { "not-expired" }, if outcome.starts_with("ok") { "ok" } else { "err" }));
            if outcome.starts_with("ok") && *delta_s < 0 {
                acc.violation("expired-accepted:wall-clock", &format!("a layout that expired {delta_s} s ago ({text}) was accepted"), || json!({"level": "wall-clock", "expires": text, "delta_s": delta_s}));
            }
        }
        acc.sample(|| json!({"level": "wall-clock", "cases": wall.len()}));
        judge_ageing(&mut acc, &mut c.extra, ageing.join().unwrap_or_default());
        c.acc = acc;
        c.exhaustive = false;
        c.rule = "degraded run (no clock seam): expiry = real clock + {-1y,-1d,-1h,-2s,+1h,+1d,+1y} and the absolute years 0002, 1000, 1700 in 4 offset notations through the hooks-off binary under 4 process time zones".into();
        c.bound_completed = "wall-clock leg only".into();
        return c.finish();
    }
    let sub_every = if tier.thorough() { 1 } else { 3 };
    let idx: Vec<usize> = (0..cases.len()).collect();
    let accs = util::par_fold(
        &idx,
        || (Acc::new(), util::fresh_dir("c06")),
        |(acc, dir), _i, ci| {
            let cs = &cases[*ci];
            let (text, _utc) = case_text(cs);
            let Some(exp_ns) = rfc3339_ns(&text) else {
                acc.note("notation-outside-reference-reader");
                return;
            };
            acc.nontrivial += 1;
            // ---- top level
            match signed_with_expiry(&text, &fx.top, owner) {
                None => {
                    acc.note("notation-rejected-at-parse");
                    acc.outcome("top|unparseable");
                }
                Some(block) => {
                    for (dname, dns) in DELTAS {
                        let Some(now) = from_ns(exp_ns + dns) else {
                            acc.note("now-not-representable");
                            continue;
                        };
                        let drv = Driver { clock: Some(now), permute: true, ..Driver::default() };
                        let (v, _) = world::verify_with(&block, world::owner_map(&[owner]), dir, drv);
                        judge(acc, "top-level", &text, dname, dns, &v, &|| json!({"level": "top", "expires": text, "delta": dname, "delta_ns": dns.to_string()}));
                        // the same under a requested summary name (a public parameter of the call)
                        if dns > 0 {
                            let drv = Driver { clock: Some(now), permute: true, ..Driver::default() };
                            let (vn, _) = world::verify_named_with(&block, world::owner_map(&[owner]), dir, Some(["release", ""][(dns.unsigned_abs() % 2) as usize]), drv);
                            judge(acc, "top-level-named", &text, dname, dns, &vn, &|| json!({"level": "top-named", "expires": text, "delta": dname, "delta_ns": dns.to_string()}));
                        }
                    }
                    if *ci % 97 == 0 {
                        acc.sample(|| json!({"level": "top", "expires": text, "deltas": DELTAS.iter().map(|d| d.0).collect::<Vec<_>>()}));
                    }
                }
            }
            // ---- top level, a layout that has something to verify (key table, step, rules, link)
            if *ci % sub_every == 1 % sub_every {
                if let Some(block) = signed_with_expiry(&text, &fx.full, owner) {
                    for (dname, dns) in DELTAS {
                        let Some(now) = from_ns(exp_ns + dns) else { continue };
                        let drv = Driver { clock: Some(now), permute: true, ..Driver::default() };
                        let (v, _) = world::verify_with(&block, world::owner_map(&[owner]), &fx.full_dir, drv);
                        judge(acc, "top-level-with-step", &text, dname, dns, &v, &|| json!({"level": "full", "expires": text, "delta": dname, "delta_ns": dns.to_string()}));
                    }
                }
            }
            // ---- delegated sub-layout under an unexpired parent
            if *ci % sub_every == 0 {
                if let Some(inner) = signed_with_expiry(&text, &fx.inner, a) {
                    for e in std::fs::read_dir(&*dir).unwrap().flatten() {
                        let _ = std::fs::remove_file(e.path());
                    }
                    world::write(dir, &world::link_file("s", a), &world::block_text(&inner));
                    // the text must survive the file round trip
                    let mut v = world::block_value(&inner);
                    v["signed"]["expires"] = json!(text);
                    world::write(dir, &world::link_file("s", a), &v.to_string());
                    for (dname, dns) in DELTAS {
                        let Some(now) = from_ns(exp_ns + dns) else { continue };
                        let drv = Driver { clock: Some(now), permute: true, ..Driver::default() };
                        let (v, _) = world::verify_with(&fx.outer, world::owner_map(&[owner]), dir, drv);
                        judge(acc, "sub-layout", &text, dname, dns, &v, &|| json!({"level": "sub", "expires": text, "delta": dname, "delta_ns": dns.to_string()}));
                    }
                }
            }
            // ---- the same two and three levels down: every layout above the expiring one is unexpired
            if *ci % (sub_every * 2) == 0 {
                for depth in [2usize, 3] {
                    if !build_chain(dir, depth, &text, &fx.inner) {
                        continue;
                    }
                    let leg = if depth == 2 { "sub-sub-layout" } else { "depth-3-sub-layout" };
                    for (dname, dns) in DELTAS {
                        let Some(now) = from_ns(exp_ns + dns) else { continue };
                        let drv = Driver { clock: Some(now), permute: true, ..Driver::default() };
                        let (v, _) = world::verify_with(&fx.outer, world::owner_map(&[owner]), dir, drv);
                        judge(acc, leg, &text, dname, dns, &v, &|| json!({"level": leg, "expires": text, "delta": dname, "delta_ns": dns.to_string()}));
                    }
                    let _ = std::fs::remove_dir_all(&*dir);
                    std::fs::create_dir_all(&*dir).unwrap();
                }
            }
        },
    );
    c.acc = Acc::merge_all(accs.into_iter().map(|(a, _)| a).collect());
    {
        let mut acc = std::mem::take(&mut c.acc);
        surplus_leg(&mut acc, &fx);
        c.acc = acc;
    }
    // non-vacuity: every leg must have accepted unexpired layouts, or the leg decides nothing
    for leg in ["top-level", "top-level-with-step", "sub-layout", "sub-sub-layout", "depth-3-sub-layout", "surplus-sub-layout"] {
        let n = c.acc.notes.get(&format!("accepted:{leg}")).copied().unwrap_or(0);
        c.selftest(&format!("leg-accepts-unexpired:{leg}"), n > 0, "no layout of this leg was accepted at all: the fixture is broken or the library rejects everything");
    }
    // ---- hook-free leg: the hooks-off binary on the real clock
    let wall = crate::plain::wallclock_plain();
    let mut wall_ok = 0;
    for (text, delta_s, outcome) in &wall {
        c.acc.evaluations += 1;
        c.acc.nontrivial += 1;
        c.acc.outcome(&format!("wall-clock|{}|{}", if *delta_s < 0 { "expired" } else { "not-expired" }, if outcome.starts_with("ok") { "ok" } else { "err" }));
        if outcome.starts_with("ok") {
            wall_ok += 1;
            if *delta_s < 0 {
                c.acc.violation(
                    "expired-accepted:wall-clock",
                    &format!("hooks-off build on the real clock accepted a layout that expired {delta_s} s ago ({text})"),
                    || json!({"level": "wall-clock", "expires": text, "delta_s": delta_s}),
                );
            }
        }
    }
    c.selftest("leg-accepts-unexpired:wall-clock", wall_ok > 0, "the hooks-off binary accepted no layout at all");
    {
        let mut acc = std::mem::take(&mut c.acc);
        judge_ageing(&mut acc, &mut c.extra, ageing.join().unwrap_or_default());
        c.acc = acc;
    }
    c.extra.insert("wall_clock_leg".into(), json!({"cases": wall.len(), "accepted": wall_ok, "time_zones": crate::plain::TIME_ZONES, "note": "hooks-off binary, real clock, run once per process time zone; confirms the clock seam changes nothing and that the clock read itself is zone-independent"}));
    c.rule = format!(
        "grid: {} base instants x {} offset notations x {} sub-second spellings x {} separator/case styles (+ leap-second spelling) x {} verification times (expiry + delta); each point is one in_toto_verify run with the clock seam set (expired points also under a requested summary name); the same grid on a layout with a key table, a step with rules and a satisfying link (every {5} notation); sub-layout grid = same expiry texts on a delegated layout under an unexpired parent (every {} notation), and two and three levels down under unexpired layouts at every level above (every second of those); a step with threshold 1 and two delegating functionaries of whom one - the one with the smaller, then the one with the larger key id - hands in an expired sub-layout; non-trivial = notations the reference reader understands",
        BASES.len(), OFFSETS.len(), FRACS.len(), STYLES.len(), DELTAS.len(), sub_every
    ) + "; wall-clock leg: expiry = real clock + {-1y,-1d,-1h,-2s,+1h,+1d,+1y} and the absolute years 0002, 1000, 1700 in 4 offset notations, hooks-off binary, under 4 process time zones; ageing leg: one hooks-off process verifies, then verifies layouts (two top-level, one delegated) expiring 2-3 s later, before and after their expiry";
    c.bound_completed = "complete grid".into();
    c.assume("chrono's DateTime::from_timestamp builds the instant it is given (the verification time is constructed from the reference reader's nanoseconds)");
    c.assume("the clock seam (hook H3) is the only time source of the verdict path");
    c.finish()
}

pub fn replay(case: &Value) -> Value {
    let fx = fixture();
    let owner = keys::get("ed6");
    let a = keys::get("ed1");
    let text = case["expires"].as_str().unwrap_or("");
    let dns: i128 = case["delta_ns"].as_str().and_then(|s| s.parse().ok()).unwrap_or(0);
    let Some(exp) = rfc3339_ns(text) else { return json!({"error": "unreadable expiry", "violation": null}) };
    let Some(now) = from_ns(exp + dns) else { return json!({"error": "now not representable", "violation": null}) };
    let dir = util::fresh_dir("c06r");
    let drv = Driver { clock: Some(now), permute: true, ..Driver::default() };
    let v = if case["level"] == "top-named" {
        let Some(block) = signed_with_expiry(text, &fx.top, owner) else { return json!({"error": "unparseable", "violation": null}) };
        world::verify_named_with(&block, world::owner_map(&[owner]), &dir, Some("release"), drv).0
    } else if case["level"] == "full" {
        let Some(block) = signed_with_expiry(text, &fx.full, owner) else { return json!({"error": "unparseable", "violation": null}) };
        world::verify_with(&block, world::owner_map(&[owner]), &fx.full_dir, drv).0
    } else if case["level"] == "sub" {
        let Some(inner) = signed_with_expiry(text, &fx.inner, a) else { return json!({"error": "unparseable", "violation": null}) };
        let mut j = world::block_value(&inner);
        j["signed"]["expires"] = json!(text);
        world::write(&dir, &world::link_file("s", a), &j.to_string());
        world::verify_with(&fx.outer, world::owner_map(&[owner]), &dir, drv).0
    } else if case["level"] == "surplus-sub-layout" {
        let mut acc = Acc::new();
        surplus_leg(&mut acc, &fx);
        return json!({"note": "the leg is re-run as a whole", "violation": acc.violations.keys().next()});
    } else if case["level"] == "sub-sub-layout" || case["level"] == "depth-3-sub-layout" {
        if !build_chain(&dir, if case["level"] == "sub-sub-layout" { 2 } else { 3 }, text, &fx.inner) {
            return json!({"error": "unparseable", "violation": null});
        }
        world::verify_with(&fx.outer, world::owner_map(&[owner]), &dir, drv).0
    } else {
        let Some(block) = signed_with_expiry(text, &fx.top, owner) else { return json!({"error": "unparseable", "violation": null}) };
        world::verify_with(&block, world::owner_map(&[owner]), &dir, drv).0
    };
    json!({"now": now.to_rfc3339(), "verdict": v.to_json(), "violation": if v.is_ok() && dns > 0 { json!("expired-accepted") } else { Value::Null }})
}
