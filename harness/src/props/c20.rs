//! C20 — envelope pre-authentication encoding is injective and round-trips.
//!
//! E3: exhaustive enumeration of (type, payload) pairs for pack, and of every
//! byte string up to a length over a framing alphabet for unpack.

use std::collections::HashMap;

use in_toto::models::DSSEVersion;
use serde_json::{json, Value};

use crate::report::{Acc, Check, Tier};
use crate::util::{self, guard, Guard};

/// DSSE v1 reference: "DSSEv1" SP len(type) SP type SP len(payload) SP payload.
fn pae_ref(typ: &str, payload: &[u8]) -> Vec<u8> {
    let mut v = format!("DSSEv1 {} {} {} ", typ.len(), typ, payload.len()).into_bytes();
    v.extend_from_slice(payload);
    v
}

fn selftest(c: &mut Check) {
    // the three fixtures of the DSSE specification / pae_v1.rs
    let ok = pae_ref("http://example.com/HelloWorld", b"hello world")
        == b"DSSEv1 29 http://example.com/HelloWorld 11 hello world".to_vec()
        && pae_ref("", b"") == b"DSSEv1 0  0 ".to_vec()
        && pae_ref("a b", b"\xff") == b"DSSEv1 3 a b 1 \xff".to_vec();
    c.selftest("pae-reference-fixtures", ok, "reference PAE encoder");
}

#[derive(Debug, Clone, PartialEq)]
enum Unpacked {
    Pair(Vec<u8>, String),
    Err,
    Panic(String, String),
}

fn unpack(bytes: &[u8], try_variant: bool) -> Unpacked {
    let r = guard(|| {
        if try_variant {
            DSSEVersion::try_unpack(bytes)
        } else {
            DSSEVersion::V1.unpack(bytes)
        }
    });
    match r {
        Guard::Done(Ok((p, t))) => Unpacked::Pair(p, t),
        Guard::Done(Err(_)) => Unpacked::Err,
        Guard::Panicked(l, m) => Unpacked::Panic(l, m),
    }
}

fn pack(typ: &str, payload: &[u8]) -> Guard<Vec<u8>> {
    guard(|| DSSEVersion::V1.pack(payload, typ.to_string()))
}

fn check_decode(acc: &mut Acc, input: &[u8]) {
    acc.evaluations += 1;
    for variant in [false, true] {
        match unpack(input, variant) {
            Unpacked::Err => acc.outcome("unpack:error"),
            Unpacked::Panic(loc, msg) => {
                acc.outcome("unpack:panic");
                acc.violation(
                    &format!("unpack-panic:{loc}"),
                    &format!("unpacking arbitrary bytes panics at {loc} ({msg}) instead of returning an error"),
                    || json!({"kind": "decode", "input_hex": util::hex(input), "input_lossy": String::from_utf8_lossy(input)}),
                );
            }
            Unpacked::Pair(p, t) => {
                acc.outcome("unpack:pair");
                acc.accepting += 1;
                // an accepted input re-packs to a prefix of itself
                let again = pae_ref(&t, &p);
                // numbers may be spelled with leading zeros / '+' in the input, so
                // compare structurally: decode the re-packed form again.
                let same = match unpack(&again, false) {
                    Unpacked::Pair(p2, t2) => p2 == p && t2 == t,
                    _ => false,
                };
                if !same {
                    acc.violation(
                        "unpack-accepts-inconsistent",
                        "an accepted encoding decodes to a pair that does not decode to itself after re-packing",
                        || json!({"kind": "decode", "input_hex": util::hex(input)}),
                    );
                }
                // Observation only (the statement does not forbid accepting a
                // damaged separator): is the pair at the framed position?
                if !contains_pair(input, &t, &p) {
                    acc.note("observation:accepted-input-with-damaged-framing");
                }
            }
        }
    }
}

/// Reference decoder (strict about structure, liberal about number spelling the
/// way Rust's usize parser is) used only to validate accepted inputs.
fn contains_pair(input: &[u8], t: &str, p: &[u8]) -> bool {
    let Some(rest) = input.strip_prefix(b"DSSEv1 ") else {
        return false;
    };
    let Some(i) = rest.iter().position(|&b| b == b' ') else {
        return false;
    };
    let Ok(tl) = std::str::from_utf8(&rest[..i]).unwrap_or("x").parse::<usize>() else {
        return false;
    };
    let rest = &rest[i + 1..];
    if rest.len() < tl + 1 || &rest[..tl] != t.as_bytes() || rest[tl] != b' ' {
        return false;
    }
    let rest = &rest[tl + 1..];
    let Some(j) = rest.iter().position(|&b| b == b' ') else {
        return false;
    };
    let Ok(pl) = std::str::from_utf8(&rest[..j]).unwrap_or("x").parse::<usize>() else {
        return false;
    };
    let rest = &rest[j + 1..];
    rest.len() >= pl && &rest[..pl] == p
}

/// One pair through pack, the reference, unpack and try_unpack. Returns the packed bytes.
fn check_pack(acc: &mut Acc, t: &str, p: &[u8]) -> Option<Vec<u8>> {
    acc.evaluations += 1;
    let short = |p: &[u8]| if p.len() > 24 { format!("{}.. ({} bytes)", util::hex(&p[..24]), p.len()) } else { util::hex(p) };
    let witness = || {
        if t.len() > 40 || p.len() > 40 {
            json!({"kind": "pack-long", "type_char": t.chars().next().map(|c| c.to_string()), "type_chars": t.chars().count(), "type_bytes": t.len(), "payload_byte": p.first(), "payload_len": p.len(), "payload_shown": short(p)})
        } else {
            json!({"kind": "pack", "type": t, "payload_hex": util::hex(p)})
        }
    };
    match pack(t, p) {
        Guard::Panicked(loc, msg) => {
            acc.violation(&format!("pack-panic:{loc}"), &format!("pack panics at {loc}: {msg}"), witness);
            None
        }
        Guard::Done(bytes) => {
            if bytes != pae_ref(t, p) {
                acc.outcome("pack:differs-from-reference");
                acc.violation("pack-reference-mismatch", "packed bytes differ from the DSSE v1 reference encoding", witness);
            }
            for variant in [false, true] {
                match unpack(&bytes, variant) {
                    Unpacked::Pair(p2, t2) if p2 == p && t2 == t => acc.outcome("roundtrip:ok"),
                    Unpacked::Panic(loc, msg) => acc.violation(&format!("unpack-panic:{loc}"), &format!("unpacking a packed pair panics at {loc} ({msg})"), witness),
                    _ => {
                        acc.outcome("roundtrip:mismatch");
                        acc.violation("roundtrip-mismatch", "unpack(pack(type, payload)) is not the original pair", witness)
                    }
                }
            }
            Some(bytes)
        }
    }
}

fn bytes_upto(alpha: &[u8], k: usize) -> Vec<Vec<u8>> {
    let mut out = Vec::new();
    for len in 0..=k {
        for seq in util::sequences(alpha.len(), len) {
            out.push(seq.iter().map(|&i| alpha[i]).collect());
        }
    }
    out
}

pub fn run(tier: Tier) -> i32 {
    let mut c = Check::new("C20", "exploration", tier);
    selftest(&mut c);
    let (pack_len, dec_len, raw_len) = if tier.thorough() { (3, 8, 5) } else { (2, 6, 4) };

    // ---- pack / round trip / injectivity -------------------------------
    let type_alpha = [' ', '1', 'a', 'é'];
    let pay_alpha = [b' ', b'1', b'a', 0xffu8];
    let types = util::strings_upto(&type_alpha, pack_len);
    let pays = bytes_upto(&pay_alpha, pack_len);
    let pairs: Vec<(usize, usize)> = (0..types.len())
        .flat_map(|i| (0..pays.len()).map(move |j| (i, j)))
        .collect();
    let accs = util::par_fold(
        &pairs,
        || (Acc::new(), Vec::<(Vec<u8>, usize)>::new()),
        |(acc, packed), idx, &(i, j)| {
            let (t, p) = (&types[i], &pays[j]);
            acc.sample(|| json!({"kind": "pack", "type": t, "payload_hex": util::hex(p)}));
            if let Some(bytes) = check_pack(acc, t, p) {
                packed.push((bytes, idx));
            }
        },
    );
    let mut all_packed: HashMap<Vec<u8>, usize> = HashMap::new();
    let mut acc = Acc::new();
    for (a, packed) in accs {
        acc.merge(a);
        for (bytes, idx) in packed {
            if let Some(prev) = all_packed.insert(bytes, idx) {
                let (a1, a2) = (pairs[prev], pairs[idx]);
                acc.violation(
                    "pack-collision",
                    "two different (type, payload) pairs pack to the same bytes",
                    || json!({"kind": "collision",
                        "a": {"type": types[a1.0], "payload_hex": util::hex(&pays[a1.1])},
                        "b": {"type": types[a2.0], "payload_hex": util::hex(&pays[a2.1])}}),
                );
            }
        }
    }
    // ---- wider characters, short: upper case, 3- and 4-byte characters, NUL / TAB / LF; payload NUL, LF, 0x80
    let wide_types = util::strings_upto(&[' ', '1', 'a', 'A', 'é', '\u{20ac}', '\u{1f600}', '\0', '\t', '\n'], 2);
    let wide_pays = bytes_upto(&[b' ', b'1', b'a', 0xffu8, 0, b'\n', 0x80], 2);
    let wide_pairs: Vec<(usize, usize)> = (0..wide_types.len()).flat_map(|i| (0..wide_pays.len()).map(move |j| (i, j))).collect();
    let accs = util::par_fold(&wide_pairs, || (Acc::new(), Vec::<Vec<u8>>::new()), |(acc, packed), _idx, &(i, j)| {
        if let Some(b) = check_pack(acc, &wide_types[i], &wide_pays[j]) {
            packed.push(b);
        }
    });
    let mut wide_seen: HashMap<Vec<u8>, ()> = HashMap::new();
    let mut n_wide = 0u64;
    for (a, packed) in accs {
        acc.merge(a);
        for b in packed {
            n_wide += 1;
            if wide_seen.insert(b.clone(), ()).is_some() {
                acc.violation("pack-collision", "two different (type, payload) pairs pack to the same bytes", || json!({"kind": "collision-wide", "packed_hex": util::hex(&b)}));
            }
        }
    }
    acc.note_n("pack_pairs_wide_alphabet", n_wide);
    acc.nontrivial += wide_seen.len() as u64;
    drop(wide_seen);
    // ---- lengths with two and more digits, and around the powers of 256
    let lens = [9usize, 10, 11, 99, 100, 101, 255, 256, 257, 999, 1000, 65535, 65536, 65537];
    let mut long_types: Vec<String> = vec![];
    let mut long_pays: Vec<Vec<u8>> = vec![];
    for l in lens {
        long_types.push("a".repeat(l));
        long_types.push("é".repeat(l)); // 2 l bytes, l characters
        long_pays.push(vec![b'a'; l]);
        long_pays.push(vec![0xff; l]);
        long_pays.push((0..l).map(|i| b"1 "[i % 2]).collect());
    }
    long_types.push(String::new());
    long_types.push("t".into());
    long_pays.push(vec![]);
    long_pays.push(b"p".to_vec());
    let long_pairs: Vec<(usize, usize)> = (0..long_types.len()).flat_map(|i| (0..long_pays.len()).map(move |j| (i, j))).collect();
    let accs = util::par_fold(&long_pairs, || (Acc::new(), Vec::<Vec<u8>>::new()), |(acc, packed), _idx, &(i, j)| {
        if let Some(b) = check_pack(acc, &long_types[i], &long_pays[j]) {
            packed.push(util::sha256(&b));
        }
    });
    let mut long_seen: HashMap<Vec<u8>, ()> = HashMap::new();
    for (a, packed) in accs {
        acc.merge(a);
        for b in packed {
            if long_seen.insert(b, ()).is_some() {
                acc.violation("pack-collision", "two different long (type, payload) pairs pack to the same bytes", || json!({"kind": "collision-long"}));
            }
        }
    }
    acc.note_n("pack_pairs_long", long_pairs.len() as u64);
    acc.nontrivial += long_seen.len() as u64;
    // ---- call histories of depth 2 on ONE thread: the encoding of y must not depend on the x
    // that was packed / unpacked just before it (items include case and whitespace variants)
    let hist_items: Vec<(String, Vec<u8>)> = {
        let mut v = vec![];
        for t in ["", "a", "A", "link", "Link", "LINK", "link ", " link", "é", "É", "application/vnd.in-toto+json", "APPLICATION/VND.IN-TOTO+JSON", "a\0", "a\t", "1", "11"] {
            for p in [&b""[..], b"a", b"A", b"abc"] {
                v.push((t.to_string(), p.to_vec()));
            }
        }
        v
    };
    let before = acc.violations.len();
    for x in &hist_items {
        for y in &hist_items {
            let _ = check_pack(&mut acc, &x.0, &x.1);
            let _ = check_pack(&mut acc, &y.0, &y.1);
            acc.transitions += 2;
        }
    }
    acc.note_n("history_pairs", (hist_items.len() * hist_items.len()) as u64);
    if acc.violations.len() > before {
        acc.note("violations-first-seen-in-the-history-leg");
    }
    acc.states += (hist_items.len() * hist_items.len()) as u64;
    let n_pairs = pairs.len() as u64;
    acc.note_n("pack_pairs", n_pairs);
    acc.note_n("distinct_packed", all_packed.len() as u64);
    acc.nontrivial += all_packed.len() as u64;
    drop(all_packed);

    // ---- decode sweep ------------------------------------------------------
    let dec_alpha = [b' ', b'0', b'1', b'2', b'9', b'a', b'+', 0xffu8];
    let suffixes = bytes_upto(&dec_alpha, dec_len.min(6));
    // lengths above 6 are enumerated as (6-prefix x tail) to keep memory flat
    let tails: Vec<Vec<u8>> = if dec_len > 6 {
        let mut t = vec![];
        for len in 1..=(dec_len - 6) {
            for seq in util::sequences(dec_alpha.len(), len) {
                t.push(seq.iter().map(|&i| dec_alpha[i]).collect());
            }
        }
        t
    } else {
        vec![]
    };
    let six: Vec<&Vec<u8>> = suffixes.iter().filter(|s| s.len() == 6).collect();
    let accs = util::par_fold(
        &suffixes,
        Acc::new,
        |acc, _i, s| {
            let mut input = b"DSSEv1 ".to_vec();
            input.extend_from_slice(s);
            check_decode(acc, &input);
            if s.len() == 3 {
                acc.sample(|| json!({"kind": "decode", "input_lossy": String::from_utf8_lossy(&input)}));
            }
        },
    );
    acc.merge(Acc::merge_all(accs));
    if !tails.is_empty() {
        let accs = util::par_fold(
            &six,
            Acc::new,
            |acc, _i, s| {
                for t in &tails {
                    let mut input = b"DSSEv1 ".to_vec();
                    input.extend_from_slice(s);
                    input.extend_from_slice(t);
                    check_decode(acc, &input);
                }
            },
        );
        acc.merge(Acc::merge_all(accs));
    }
    // strings without (or with a damaged) prefix
    let raw_alpha = [b'D', b'S', b'E', b'v', b'1', b' '];
    let raws = bytes_upto(&raw_alpha, raw_len);
    let accs = util::par_fold(&raws, Acc::new, |acc, _i, s| check_decode(acc, s));
    acc.merge(Acc::merge_all(accs));
    // extreme lengths spelled out, at both length positions
    let big = [
        usize::MAX.to_string(),
        (usize::MAX - 1).to_string(),
        "18446744073709551616".to_string(),
        (usize::MAX / 2 + 1).to_string(),
        "00000000000000000000001".to_string(),
    ];
    let mut extreme = vec![];
    for b in &big {
        for tail in ["", " ", " a", " a 1 x", " a 1"] {
            extreme.push(format!("DSSEv1 {b}{tail}").into_bytes());
        }
        for tail in ["", " ", " x", " xyz"] {
            extreme.push(format!("DSSEv1 1 a {b}{tail}").into_bytes());
            extreme.push(format!("DSSEv1 0  {b}{tail}").into_bytes());
        }
    }
    for e in &extreme {
        check_decode(&mut acc, e);
    }
    acc.note_n("decode_inputs_extreme", extreme.len() as u64);
    acc.nontrivial += acc.accepting;

    crate::envprobe::judge(&mut acc, "C20:", &mut c.extra);
    c.acc = acc;
    c.rule = format!(
        "pack: every (type, payload) with type <= {pack_len} chars over {{SP,1,a,é}} and payload <= {pack_len} bytes over {{SP,1,a,0xff}} (round trip through unpack and try_unpack, equality with the DSSE reference, pairwise distinctness via one hash set); \
         plus the same through types <= 2 over {{SP,1,a,A,é,U+20AC,U+1F600,NUL,TAB,LF}} x payloads <= 2 over {{SP,1,a,0xff,NUL,LF,0x80}}, through type / payload lengths {{9,10,11,99,100,101,255,256,257,999,1000,65535,65536,65537}} (in bytes and, for a 2-byte filler, in characters) with three fillers, and every ordered pair of 64 items (case and whitespace variants of the type) packed one after the other on one thread; \
         unpack: every byte string <= {dec_len} over {{SP,0,1,2,9,a,+,0xff}} appended to 'DSSEv1 ', every string <= {raw_len} over {{D,S,E,v,1,SP}} without it, extreme lengths spelled out. \
         distinct_nontrivial = distinct packed encodings + decode inputs that were accepted as a pair"
    );
    c.bound_completed = format!("pack<= {pack_len}, decode<= {dec_len}, raw<= {raw_len}");
    c.assume("payload type is valid UTF-8 (the API takes a String)");
    c.assume("release build with overflow checks enabled");
    c.finish()
}

pub fn replay(case: &Value) -> Value {
    match case["kind"].as_str() {
        Some("decode") => {
            let input = data_encoding::HEXLOWER
                .decode(case["input_hex"].as_str().unwrap_or("").as_bytes())
                .unwrap_or_default();
            let mut acc = Acc::new();
            check_decode(&mut acc, &input);
            json!({
                "input_lossy": String::from_utf8_lossy(&input),
                "observed": format!("{:?}", unpack(&input, false)),
                "violation": acc.violations.keys().next(),
            })
        }
        Some("pack") => {
            let t = case["type"].as_str().unwrap_or("");
            let p = data_encoding::HEXLOWER
                .decode(case["payload_hex"].as_str().unwrap_or("").as_bytes())
                .unwrap_or_default();
            let packed = pack(t, &p);
            let (obs, bad) = match &packed {
                Guard::Done(b) => {
                    let u = unpack(b, false);
                    let ok = b == &pae_ref(t, &p) && u == Unpacked::Pair(p.clone(), t.to_string());
                    (format!("packed={:?} unpacked={:?}", String::from_utf8_lossy(b), u), !ok)
                }
                Guard::Panicked(l, m) => (format!("pack panicked at {l}: {m}"), true),
            };
            json!({"observed": obs, "violation": if bad { json!("pack/roundtrip") } else { Value::Null }})
        }
        Some("pack-long") => {
            let t = case["type_char"].as_str().unwrap_or("a").repeat(case["type_chars"].as_u64().unwrap_or(0) as usize);
            let p = vec![case["payload_byte"].as_u64().unwrap_or(97) as u8; case["payload_len"].as_u64().unwrap_or(0) as usize];
            let mut acc = Acc::new();
            let _ = check_pack(&mut acc, &t, &p);
            json!({"note": "filler re-created from its first character / byte", "violation": acc.violations.keys().next()})
        }
        Some("collision") => {
            let f = |x: &Value| {
                pack(
                    x["type"].as_str().unwrap_or(""),
                    &data_encoding::HEXLOWER
                        .decode(x["payload_hex"].as_str().unwrap_or("").as_bytes())
                        .unwrap_or_default(),
                )
            };
            let (a, b) = (f(&case["a"]), f(&case["b"]));
            let same = matches!((&a, &b), (Guard::Done(x), Guard::Done(y)) if x == y);
            json!({"observed": format!("{a:?} / {b:?}"), "violation": if same { json!("pack-collision") } else { Value::Null }})
        }
        _ => json!({"error": "unknown case kind", "violation": null}),
    }
}
