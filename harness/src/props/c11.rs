//! C11 — signed bytes and key-id preimages match the in-toto reference encoding.
//!
//! E3: every Unicode scalar value and every short string over the critical
//! alphabet is put into each string-bearing field of links and layouts. The
//! signed bytes are observed through the public API only: (1) the Ed25519
//! signature the library makes must equal the one ring makes over the
//! reference encoding; (2) signatures made over the reference encoding must be
//! accepted by `Metablock::verify`; (3) key ids must equal the reference
//! preimage hash.

use std::collections::BTreeMap;

use in_toto::crypto::{PublicKey, SignatureScheme};
use in_toto::models::byproducts::ByProducts;
use in_toto::models::inspection::Inspection;
use in_toto::models::rule::{Artifact, ArtifactRule};
use in_toto::models::{LinkMetadataBuilder, Metablock, MetablockBuilder, MetadataWrapper};
use ring::signature::{EcdsaKeyPair, Ed25519KeyPair, RsaKeyPair, ECDSA_P256_SHA256_ASN1_SIGNING, RSA_PSS_SHA256, RSA_PSS_SHA512};
use serde_json::{json, Value};

use crate::keys;
use crate::olpc;
use crate::report::{Acc, Check, Tier};
use crate::util::{self, guard, Guard};
use crate::world;

pub const LINK_FIELDS: [&str; 10] = [
    "name", "command-arg", "stdout", "stderr", "byproduct-other-key", "byproduct-other-value", "env-key", "env-value", "material-path", "product-path",
];
pub const LAYOUT_FIELDS: [&str; 10] = [
    "readme", "step-name", "inspection-name", "rule-pattern", "rule-src-prefix", "rule-dst-prefix", "rule-from", "expected-command-arg", "run-arg", "match-pattern",
];

pub fn link_with(field: &str, s: &str) -> MetadataWrapper {
    let mut name = "step".to_string();
    let mut cmd = vec!["cc".to_string(), "-o".to_string()];
    let mut by = ByProducts::new().set_return_value(0).set_stdout("out".into()).set_stderr("".into());
    let mut env: BTreeMap<String, String> = BTreeMap::new();
    env.insert("PATH".into(), "/bin".into());
    let mut mats = world::arts(&[("src/a.c", 1)]);
    let mut prods = world::arts(&[("a.out", 2)]);
    match field {
        "name" => name = s.to_string(),
        "command-arg" => cmd.push(s.to_string()),
        "stdout" => by = by.set_stdout(s.to_string()),
        "stderr" => by = by.set_stderr(s.to_string()),
        "byproduct-other-key" => by = by.set_other_field(format!("x-{s}"), "v".into()),
        "byproduct-other-value" => by = by.set_other_field("x-other".into(), s.to_string()),
        "env-key" => {
            env.insert(format!("K{s}"), "v".into());
        }
        "env-value" => {
            env.insert("KEY".into(), s.to_string());
        }
        "material-path" => {
            mats.insert(world::vpath(&format!("m{s}")), world::desc(3));
        }
        "product-path" => {
            prods.insert(world::vpath(&format!("p{s}")), world::desc(4));
        }
        "material-path-whole" => {
            mats.insert(world::vpath(s), world::desc(3));
        }
        "product-path-whole" => {
            prods.insert(world::vpath(s), world::desc(4));
        }
        _ => {}
    }
    MetadataWrapper::Link(
        LinkMetadataBuilder::new()
            .name(name)
            .materials(mats)
            .products(prods)
            .env(Some(env))
            .byproducts(by)
            .command(cmd.into())
            .build()
            .unwrap(),
    )
}

pub fn layout_with(field: &str, s: &str) -> MetadataWrapper {
    let a = keys::get("ed1");
    let r = keys::get("rsa256a");
    let mut readme = "readme".to_string();
    let mut step = world::step("build", 1, &[a]).expected_command(vec!["make".to_string()].into());
    let mut insp = Inspection::new("check").run(vec!["true".to_string()].into());
    let mut m = (Some("src".to_string()), Some("dst".to_string()), "build".to_string(), "*".to_string());
    let mut pat = "*.c".to_string();
    match field {
        "readme" => readme = s.to_string(),
        "step-name" => step.name = s.to_string(),
        "inspection-name" => insp.name = s.to_string(),
        "rule-pattern" => pat = s.to_string(),
        "step-pubkey" => {
            if let Ok(k) = <in_toto::crypto::KeyId as std::str::FromStr>::from_str(s) {
                step.pub_keys = vec![k];
            }
        }
        "rule-src-prefix" => m.0 = Some(s.to_string()),
        "rule-dst-prefix" => m.1 = Some(s.to_string()),
        "rule-from" => m.2 = s.to_string(),
        "match-pattern" => m.3 = s.to_string(),
        "expected-command-arg" => step = step.expected_command(vec!["make".to_string(), s.to_string()].into()),
        "run-arg" => insp = insp.run(vec!["sh".to_string(), s.to_string()].into()),
        _ => {}
    }
    step = step.add_expected_material(ArtifactRule::Create(world::vpath(&pat))).add_expected_product(ArtifactRule::Allow("*".into()));
    insp = insp.add_expected_material(ArtifactRule::Match { pattern: world::vpath(&m.3), in_src: m.0, with: Artifact::Products, in_dst: m.1, from: m.2 });
    let mut l = world::layout(vec![step], vec![insp], &[a, r], world::far_future());
    l.readme = readme;
    MetadataWrapper::Layout(l)
}

/// Paths as somebody may have written them into a link or a rule.
pub const PATH_SPELLINGS: [&str; 20] = [
    "./x", "a/./b", "a//b", "a/../b", "dir/", "/abs//x", "..", ".", "a/b/..", "./", "../x", "a/../../x", "//", "a\\b", "C:\\dir\\x", ".\\x", " x", "x ", "X", "a/b/",
];

pub fn classify(s: &str) -> String {
    let mut classes = vec![];
    let chars: Vec<char> = s.chars().collect();
    for (i, c) in chars.iter().enumerate() {
        if (*c as u32) < 0x20 && *c != '\n' {
            classes.push("c0-control-escaped");
        }
        if *c == '\\' && chars.get(i + 1) == Some(&'n') {
            classes.push("backslash-n-unescaped");
        }
    }
    classes.sort();
    classes.dedup();
    if classes.is_empty() {
        "other".into()
    } else {
        classes.join("+")
    }
}

fn lib_sig_hex(mb: &Metablock, idx: usize) -> String {
    serde_json::to_value(&mb.signatures[idx]).unwrap()["sig"].as_str().unwrap().to_string()
}

/// Observation (1): library signature == ring signature over the reference bytes.
fn check_signed_bytes(acc: &mut Acc, meta: &MetadataWrapper, field: &str, s: &str, doc: &str, ring_ed: &Ed25519KeyPair) {
    let key = keys::get("ed1");
    let signed_value = serde_json::to_value(meta).unwrap();
    let Ok(reference) = olpc::encode(&signed_value) else {
        acc.note("reference-encoder-rejects(float)");
        return;
    };
    let expect = util::hex(ring_ed.sign(&reference).as_ref());
    let witness = |via: &str| {
        if s.len() > 300 {
            json!({"doc": doc, "field": field, "string_head": s.chars().take(40).collect::<String>(), "string_len": s.len(), "string_sha256": util::hex(&util::sha256(s.as_bytes())), "via": via})
        } else {
            json!({"doc": doc, "field": field, "string": s, "string_escaped": format!("{s:?}"), "via": via})
        }
    };
    // call history: the other (escaped) encoding style of the same value runs first on this
    // thread; the signed bytes must not depend on it
    let _ = guard(|| <in_toto::interchange::Json as in_toto::interchange::DataInterchange>::canonicalize(&signed_value).map(|_| ()).unwrap_or(()));
    for via in ["Metablock::new", "builder"] {
        acc.evaluations += 1;
        let mb = match guard(|| {
            if via == "builder" {
                MetablockBuilder::from_metadata(meta.clone().into_trait()).sign(&[&key.private]).map(|b| b.build())
            } else {
                Metablock::new(meta.clone(), &[&key.private])
            }
        }) {
            Guard::Done(Ok(mb)) => mb,
            Guard::Done(Err(e)) => {
                acc.violation(&format!("signing-fails:{}", classify(s)), &format!("signing failed: {e:?}"), || witness(via));
                continue;
            }
            Guard::Panicked(l, m) => {
                acc.violation(&format!("panic:{l}"), &format!("signing panicked: {m}"), || witness(via));
                continue;
            }
        };
        if lib_sig_hex(&mb, 0) == expect {
            acc.outcome("signed-bytes-equal-reference");
        } else {
            acc.outcome("signed-bytes-differ");
            let class = classify(s);
            acc.violation(
                &format!("signed-bytes-differ:{class}"),
                &format!("the bytes the library signs differ from the reference canonical JSON ({class}); a reference implementation would reject this signature"),
                || witness(via),
            );
        }
    }
}

struct RefSigners {
    ed: Ed25519KeyPair,
    ec: EcdsaKeyPair,
    rsa: RsaKeyPair,
}

/// Observation (2): signatures made over the reference bytes are accepted.
fn check_reference_accepted(acc: &mut Acc, meta: &MetadataWrapper, field: &str, s: &str, doc: &str, rs: &RefSigners) {
    check_reference_value(acc, serde_json::to_value(meta).unwrap(), field, s, doc, rs);
}

/// `v` with every occurrence of the placeholder in a string value or member name replaced by `s`.
fn substitute(v: &Value, placeholder: &str, s: &str) -> Value {
    match v {
        Value::String(t) => Value::String(t.replace(placeholder, s)),
        Value::Array(a) => Value::Array(a.iter().map(|x| substitute(x, placeholder, s)).collect()),
        Value::Object(o) => Value::Object(o.iter().map(|(k, x)| (k.replace(placeholder, s), substitute(x, placeholder, s))).collect()),
        other => other.clone(),
    }
}

/// The same for a signed part given as JSON (so that the text the foreign signer wrote does not
/// pass through the library before it is signed).
fn check_reference_value(acc: &mut Acc, signed_value: Value, field: &str, s: &str, doc: &str, rs: &RefSigners) {
    let Ok(reference) = olpc::encode(&signed_value) else { return };
    let rng = ring::rand::SystemRandom::new();
    let cases: Vec<(&str, &'static keys::Key, Vec<u8>)> = vec![
        ("ed25519", keys::get("ed1"), rs.ed.sign(&reference).as_ref().to_vec()),
        ("ecdsa", keys::get("ec1"), rs.ec.sign(&rng, &reference).unwrap().as_ref().to_vec()),
        ("rsa-pss-sha256", keys::get("rsa256a"), {
            let mut sig = vec![0; rs.rsa.public().modulus_len()];
            rs.rsa.sign(&RSA_PSS_SHA256, &rng, &reference, &mut sig).unwrap();
            sig
        }),
        ("rsa-pss-sha512", keys::get("rsa512a"), {
            let mut sig = vec![0; rs.rsa.public().modulus_len()];
            rs.rsa.sign(&RSA_PSS_SHA512, &rng, &reference, &mut sig).unwrap();
            sig
        }),
    ];
    for (kind, key, sig) in cases {
        acc.evaluations += 1;
        let block = json!({"signatures": [{"keyid": key.id(), "sig": util::hex(&sig)}], "signed": signed_value});
        let Ok(mb) = world::block_from_value(&block) else {
            acc.note("reference-signed-block-unparseable");
            continue;
        };
        match guard(|| mb.verify(1, [key.public()])) {
            Guard::Done(Ok(_)) => acc.outcome("reference-signature-accepted"),
            Guard::Done(Err(_)) => {
                let class = classify(s);
                acc.outcome("reference-signature-rejected");
                acc.violation(
                    &format!("reference-signature-rejected:{class}"),
                    &format!("a {kind} signature made over the reference canonical JSON is rejected by Metablock::verify ({class})"),
                    || json!({"doc": doc, "field": field, "string": s, "string_escaped": format!("{s:?}"), "via": "reference-signed", "key_type": kind}),
                );
            }
            Guard::Panicked(l, m) => acc.violation(&format!("panic:{l}"), &format!("verify panicked: {m}"), || json!({"doc": doc, "field": field, "string": s})),
        }
    }
}

/// Observation (3): key ids equal the reference preimage hash.
fn check_keyids(acc: &mut Acc) {
    let sha = ["sha256", "sha512"];
    let mut cases: Vec<(String, String, PublicKey)> = vec![];
    for (i, k) in keys::all().iter().enumerate() {
        let pk = k.public().clone();
        let v = serde_json::to_value(&pk).unwrap();
        let expect = olpc::keyid(
            v["keytype"].as_str().unwrap(),
            v["scheme"].as_str().unwrap(),
            Some(&sha),
            v["keyval"]["public"].as_str().unwrap(),
        );
        cases.push((format!("{}#{i}:from-private-key", k.name), expect, pk));
    }
    // hash-algorithm list variants through JSON (absent / default / single / reordered)
    for k in [keys::get("ed1"), keys::get("ec1"), keys::get("rsa256a")] {
        let base = serde_json::to_value(k.public()).unwrap();
        for (vname, algs) in [("absent", None), ("default", Some(vec!["sha256", "sha512"])), ("single", Some(vec!["sha256"])), ("reordered", Some(vec!["sha512", "sha256"])), ("empty", Some(vec![]))] {
            let mut j = base.clone();
            j.as_object_mut().unwrap().remove("keyid");
            match &algs {
                None => {
                    j.as_object_mut().unwrap().remove("keyid_hash_algorithms");
                }
                Some(a) => j["keyid_hash_algorithms"] = json!(a),
            }
            let Ok(pk) = serde_json::from_str::<PublicKey>(&j.to_string()) else {
                acc.note("keyid-variant-unparseable");
                continue;
            };
            let expect = olpc::keyid(j["keytype"].as_str().unwrap(), j["scheme"].as_str().unwrap(), algs.as_deref(), j["keyval"]["public"].as_str().unwrap());
            cases.push((format!("{}:json:{vname}", k.name), expect, pk));
        }
    }
    // the raw-bytes constructors (no hash-algorithm list)
    let ed_pub = PublicKey::from_ed25519(keys::ED1_PUB.to_vec()).unwrap();
    cases.push(("ed1:from_ed25519".into(), olpc::keyid("ed25519", "ed25519", None, &util::hex(keys::ED1_PUB)), ed_pub));
    let spki = PublicKey::from_spki(keys::RSA_SPKI[0], SignatureScheme::RsaSsaPssSha256).unwrap();
    cases.push(("rsa:from_spki".into(), olpc::keyid("rsa", "rsassa-pss-sha256", Some(&sha), &olpc::pem_public(keys::RSA_SPKI[0])), spki));
    let spki512 = PublicKey::from_spki(keys::RSA_SPKI[2], SignatureScheme::RsaSsaPssSha512).unwrap();
    cases.push(("rsa4096-sha512:from_spki".into(), olpc::keyid("rsa", "rsassa-pss-sha512", Some(&sha), &olpc::pem_public(keys::RSA_SPKI[2])), spki512));
    for (name, expect, pk) in cases {
        acc.evaluations += 1;
        acc.nontrivial += 1;
        let got = serde_json::to_value(pk.key_id()).unwrap().as_str().unwrap().to_string();
        if got == expect {
            acc.outcome("keyid-equals-reference");
        } else {
            acc.violation(
                &format!("keyid-differs:{}", name.split(':').skip(1).collect::<Vec<_>>().join(":")),
                &format!("key id of {name} is {got}, the reference preimage hashes to {expect}"),
                || json!({"kind": "keyid", "case": name}),
            );
        }
    }
}

/// The layout and links shipped with the repository were produced and RSA-PSS-signed by Python
/// in-toto (the reference implementation). Each must parse, and its signature must be accepted for
/// the key the reference filed it under - with the key taken from the key table of the parsed layout
/// (functionaries) or from the PEM file of the owner.
fn check_reference_documents(acc: &mut Acc) {
    let docs: [(&str, &str); 4] = [
        ("root.layout", include_str!("../../../fixtures/pyref/root.layout")),
        ("clone.776a00e2.link", include_str!("../../../fixtures/pyref/links/clone.776a00e2.link")),
        ("update-version.776a00e2.link", include_str!("../../../fixtures/pyref/links/update-version.776a00e2.link")),
        ("package.2f89b927.link", include_str!("../../../fixtures/pyref/links/package.2f89b927.link")),
    ];
    let witness = |name: &str| json!({"kind": "reference-document", "document": name});
    let owner = match guard(|| PublicKey::from_pem_spki(keys::ALICE_PUB_PEM, SignatureScheme::RsaSsaPssSha256)) {
        Guard::Done(Ok(k)) => k,
        _ => {
            acc.violation("reference-document:owner-key-unreadable", "the PEM public key of the owner of the reference demo cannot be imported", || witness("alice.pub"));
            return;
        }
    };
    let mut table: Vec<PublicKey> = vec![owner];
    for (name, text) in docs {
        acc.evaluations += 1;
        acc.nontrivial += 1;
        let mb: Metablock = match guard(|| serde_json::from_str::<Metablock>(text)) {
            Guard::Done(Ok(mb)) => mb,
            Guard::Done(Err(e)) => {
                acc.violation("reference-document:unparseable", &format!("a document written by the reference implementation does not parse: {e}"), || witness(name));
                continue;
            }
            Guard::Panicked(l, m) => {
                acc.violation(&format!("panic:{l}"), &format!("parsing a reference document panicked: {m}"), || witness(name));
                continue;
            }
        };
        let raw: Value = serde_json::from_str(text).unwrap();
        if let MetadataWrapper::Layout(l) = &mb.metadata {
            let n_raw = raw["signed"]["keys"].as_object().map(|o| o.len()).unwrap_or(0);
            if l.keys.len() != n_raw {
                acc.violation("reference-document:key-table-entries-lost", &format!("the reference layout lists {n_raw} functionary keys, the parsed layout has {}", l.keys.len()), || witness(name));
            }
            table.extend(l.keys.values().cloned());
        }
        for s in raw["signatures"].as_array().cloned().unwrap_or_default() {
            let id = s["keyid"].as_str().unwrap_or("");
            let Some(key) = table.iter().find(|k| serde_json::to_value(k.key_id()).ok().and_then(|v| v.as_str().map(|x| x == id)).unwrap_or(false)) else {
                acc.violation("reference-document:signer-not-in-key-table", &format!("no imported key has the id {id} the reference signed under"), || witness(name));
                continue;
            };
            match guard(|| mb.verify(1, [key])) {
                Guard::Done(Ok(_)) => acc.outcome("reference-document-accepted"),
                Guard::Done(Err(e)) => {
                    acc.outcome("reference-document-rejected");
                    acc.violation("reference-document:signature-rejected", &format!("a signature made by the reference implementation over its own document is rejected: {e:?}"), || witness(name));
                }
                Guard::Panicked(l, m) => acc.violation(&format!("panic:{l}"), &format!("verify panicked: {m}"), || witness(name)),
            }
        }
    }
}

pub fn crit_strings(k: usize) -> Vec<String> {
    util::strings_upto(&['\\', '"', 'n', '\n', 'a'], k)
}

pub fn run(tier: Tier) -> i32 {
    let mut c = Check::new("C11", "exploration", tier);
    match olpc::selftest() {
        Ok(done) => {
            for d in done {
                c.selftests.push(d);
            }
        }
        Err(e) => util::machinery_error(&format!("reference encoder self-test (Python-made fixtures) failed: {e}")),
    }
    let mut acc = Acc::new();
    check_keyids(&mut acc);

    // (A) every scalar as the single character of `name` (and of stdout)
    let scalars: Vec<u32> = if tier.thorough() {
        (0..=0x10ffffu32).filter(|c| char::from_u32(*c).is_some()).collect()
    } else {
        let mut v: Vec<u32> = (0..0x800u32).collect();
        v.extend([0x2028, 0x2029, 0xd7ff, 0xe000, 0xfeff, 0xfffd, 0xffff, 0x10000, 0x1f600, 0x10ffff]);
        v.extend((0x800..0x110000u32).step_by(211));
        v.into_iter().filter(|c| char::from_u32(*c).is_some()).collect()
    };
    let accs = util::par_fold(
        &scalars,
        || (Acc::new(), Ed25519KeyPair::from_pkcs8(keys::ED_PK8[0]).unwrap()),
        |(acc, ring_ed), _i, cp| {
            let s = char::from_u32(*cp).unwrap().to_string();
            acc.nontrivial += 1;
            check_signed_bytes(acc, &link_with("name", &s), "name", &s, "link", ring_ed);
            if *cp < 0x100 || cp % 64 == 0 {
                check_signed_bytes(acc, &link_with("stdout", &s), "stdout", &s, "link", ring_ed);
                check_signed_bytes(acc, &layout_with("readme", &s), "readme", &s, "layout", ring_ed);
            }
        },
    );
    acc.merge(Acc::merge_all(accs.into_iter().map(|(a, _)| a).collect()));
    acc.note_n("scalars", scalars.len() as u64);

    // (B) all strings <= k over the critical alphabet in every string-bearing field
    let k = if tier.thorough() { 3 } else { 2 };
    let strings = crit_strings(k);
    let mut jobs: Vec<(&str, &str, &String)> = vec![];
    for f in LINK_FIELDS {
        for s in &strings {
            jobs.push(("link", f, s));
        }
    }
    for f in LAYOUT_FIELDS {
        for s in &strings {
            jobs.push(("layout", f, s));
        }
    }
    let accs = util::par_fold(
        &jobs,
        || {
            let rng = ring::rand::SystemRandom::new();
            (
                Acc::new(),
                RefSigners {
                    ed: Ed25519KeyPair::from_pkcs8(keys::ED_PK8[0]).unwrap(),
                    ec: EcdsaKeyPair::from_pkcs8(&ECDSA_P256_SHA256_ASN1_SIGNING, keys::EC_PK8[0], &rng).unwrap(),
                    rsa: RsaKeyPair::from_pkcs8(keys::RSA_PK8[0]).unwrap(),
                },
            )
        },
        |(acc, rs), i, (doc, field, s)| {
            let meta = if *doc == "link" { link_with(field, s) } else { layout_with(field, s) };
            acc.nontrivial += 1;
            check_signed_bytes(acc, &meta, field, s, doc, &rs.ed);
            // reference-made signatures: Ed25519 always, ECDSA/RSA on a stride (RSA signing is slow)
            if s.chars().count() <= 2 || i % 5 == 0 {
                check_reference_accepted(acc, &meta, field, s, doc, rs);
            }
            if i % 400 == 7 {
                acc.sample(|| json!({"doc": doc, "field": field, "string_escaped": format!("{s:?}")}));
            }
        },
    );
    acc.merge(Acc::merge_all(accs.into_iter().map(|(a, _)| a).collect()));
    // (B') two names in one object: every ordered pair over characters around the
    // UTF-8 / UTF-16 / plane boundaries (member order is by code point)
    {
        let ring_ed = Ed25519KeyPair::from_pkcs8(keys::ED_PK8[0]).unwrap();
        let cs = ['a', '\u{7f}', '\u{80}', 'é', '\u{7ff}', '\u{800}', '\u{d7ff}', '\u{e000}', '\u{fb01}', '\u{ffff}', '\u{10000}', '\u{1f600}', '\u{10ffff}'];
        for x in cs {
            for y in cs {
                if x == y {
                    continue;
                }
                let (px, py) = (format!("d/{x}1"), format!("d/{y}2"));
                let mut m = link_with("name", "pair");
                if let MetadataWrapper::Link(ref mut l) = m {
                    l.materials.insert(world::vpath(&px), world::desc(7));
                    l.materials.insert(world::vpath(&py), world::desc(8));
                    let mut env = l.env.clone().unwrap_or_default();
                    env.insert(format!("{x}K"), "1".into());
                    env.insert(format!("{y}K"), "2".into());
                    l.env = Some(env);
                    l.byproducts = l.byproducts.clone().set_other_field(format!("{x}o"), "1".into()).set_other_field(format!("{y}o"), "2".into());
                }
                acc.nontrivial += 1;
                check_signed_bytes(&mut acc, &m, "two-names-in-one-object", &format!("{x}{y}"), "link", &ring_ed);
            }
        }
    }
    // (B2) structure instead of strings: the value families of C16 (artifact shapes incl. sha512
    // and empty digests, environments, byproduct members with negative / extreme return values,
    // commands, every rule form, thresholds 0 / 1 / u32::MAX, key tables)
    {
        let mut docs: Vec<(String, MetadataWrapper)> = vec![];
        for (n, l) in crate::props::c16::links(false) {
            if !n.contains("other-field-named") && !n.starts_with("field:") && !n.starts_with("name:") {
                docs.push((format!("link/{n}"), MetadataWrapper::Link(l)));
            }
        }
        for (n, l) in crate::props::c16::layouts(false) {
            if !n.starts_with("field:") {
                docs.push((format!("layout/{n}"), MetadataWrapper::Layout(l)));
            }
        }
        let accs = util::par_fold(&docs, || (Acc::new(), Ed25519KeyPair::from_pkcs8(keys::ED_PK8[0]).unwrap()), |(acc, ring_ed), _i, (n, m)| {
            acc.nontrivial += 1;
            check_signed_bytes(acc, m, "structure", n, if n.starts_with("link") { "link-structure" } else { "layout-structure" }, ring_ed);
        });
        acc.merge(Acc::merge_all(accs.into_iter().map(|(a, _)| a).collect()));
        acc.note_n("structural_documents", docs.len() as u64);
    }
    // (B3) long strings (captured output is the motivating case): 15..4097 characters with an
    // escaping-relevant character at the start / middle / end / every second position
    {
        let long: Vec<String> = crate::props::c10::long_strings().into_iter().filter(|s| s.chars().count() <= if tier.thorough() { 70001 } else { 4097 }).collect();
        let accs = util::par_fold(&long, || (Acc::new(), Ed25519KeyPair::from_pkcs8(keys::ED_PK8[0]).unwrap()), |(acc, ring_ed), i, s| {
            acc.nontrivial += 1;
            check_signed_bytes(acc, &link_with("stdout", s), "stdout", s, "link", ring_ed);
            if i % 3 == 0 {
                check_signed_bytes(acc, &layout_with("readme", s), "readme", s, "layout", ring_ed);
                check_signed_bytes(acc, &link_with("env-key", s), "env-key", s, "link", ring_ed);
            }
        });
        acc.merge(Acc::merge_all(accs.into_iter().map(|(a, _)| a).collect()));
        acc.note_n("long_strings", long.len() as u64);
    }
    // (B4) paths as a signer may have recorded them: not normalised (dot segments, doubled and
    // trailing separators, back-slashes, drive letters). The bytes that are verified are those of
    // the path as written.
    {
        let rng = ring::rand::SystemRandom::new();
        let rs = RefSigners {
            ed: Ed25519KeyPair::from_pkcs8(keys::ED_PK8[0]).unwrap(),
            ec: EcdsaKeyPair::from_pkcs8(&ECDSA_P256_SHA256_ASN1_SIGNING, keys::EC_PK8[0], &rng).unwrap(),
            rsa: RsaKeyPair::from_pkcs8(keys::RSA_PK8[0]).unwrap(),
        };
        for s in PATH_SPELLINGS {
            for (doc, f) in [("link", "material-path-whole"), ("link", "product-path-whole"), ("layout", "rule-pattern"), ("layout", "match-pattern"), ("layout", "rule-src-prefix"), ("layout", "rule-dst-prefix")] {
                let meta = if doc == "link" { link_with(f, s) } else { layout_with(f, s) };
                acc.nontrivial += 1;
                check_signed_bytes(&mut acc, &meta, f, s, doc, &rs.ed);
                check_reference_accepted(&mut acc, &meta, f, s, doc, &rs);
            }
        }
        acc.note_n("path_spellings", PATH_SPELLINGS.len() as u64);
        // the same strings put into the JSON text of the document, not through the library's
        // constructors: what a foreign signer wrote reaches the library only through its reader
        let token = "PLACEHOLDERTOKEN";
        let templates: Vec<(&str, &str, Value)> = LINK_FIELDS.iter().chain(["material-path-whole", "product-path-whole"].iter()).map(|f| ("link", *f, serde_json::to_value(link_with(f, token)).unwrap())).chain(LAYOUT_FIELDS.iter().map(|f| ("layout", *f, serde_json::to_value(layout_with(f, token)).unwrap()))).collect();
        let mut texts: Vec<String> = PATH_SPELLINGS.iter().map(|x| x.to_string()).collect();
        texts.extend(crit_strings(1));
        texts.extend(["\t".to_string(), "a\nb".to_string(), " x ".to_string(), "\u{e9}".to_string(), "A".to_string()]);
        for (doc, f, tpl) in &templates {
            for t in &texts {
                let v = substitute(tpl, token, t);
                acc.nontrivial += 1;
                check_reference_value(&mut acc, v, &format!("{f}(text)"), t, doc, &rs);
            }
        }
        // key ids as a signer elsewhere may have written them into a step's authorised list: upper
        // case, one letter in upper case, not hex at all (64 characters is all the format asks for)
        let ida = keys::get("ed1").id();
        let mut one: Vec<char> = ida.chars().collect();
        if let Some(c) = one.iter_mut().find(|c| c.is_ascii_alphabetic()) {
            *c = c.to_ascii_uppercase();
        }
        for idtext in [ida.to_uppercase(), one.into_iter().collect::<String>(), "Z".repeat(64), format!("{}{}", &ida[..32], ida[32..].to_uppercase())] {
            let meta = layout_with("step-pubkey", &idtext);
            acc.nontrivial += 1;
            check_signed_bytes(&mut acc, &meta, "step-pubkey", &idtext, "layout", &rs.ed);
            check_reference_accepted(&mut acc, &meta, "step-pubkey", &idtext, "layout", &rs);
            // and with the id put into the JSON text, not through the library's KeyId
            let mut v = serde_json::to_value(layout_with("readme", "r")).unwrap();
            v["steps"][0]["pubkeys"] = json!([idtext]);
            check_reference_value(&mut acc, v, "step-pubkey(text)", &idtext, "layout", &rs);
        }
    }
    // (D) documents made and signed by the Python reference implementation, through the
    // parser of the library and Metablock::verify
    check_reference_documents(&mut acc);
    // (C) other C0 controls and a few long captured-output shapes in the output fields
    let extra = ["\t", "\r\n", "\u{8}", "\u{c}", "\u{0}", "\u{1f}", "\u{7f}", "a\tb\r\nc\\nd\"e", "line1\nline2\n", "C:\\new\\table", "\\\\n", "\\\n"];
    let ring_ed = Ed25519KeyPair::from_pkcs8(keys::ED_PK8[0]).unwrap();
    for s in extra {
        for f in LINK_FIELDS {
            check_signed_bytes(&mut acc, &link_with(f, s), f, s, "link", &ring_ed);
        }
        for f in LAYOUT_FIELDS {
            check_signed_bytes(&mut acc, &layout_with(f, s), f, s, "layout", &ring_ed);
        }
    }
    crate::envprobe::judge(&mut acc, "C11:", &mut c.extra);
    c.acc = acc;
    c.rule = format!(
        "(A) every scalar of the tier's set as the whole `name` of a link (stdout / readme on a subset); (B) every string of length <= {k} over {{\\, \", n, LF, a}} in each of {} link fields and {} layout fields, via Metablock::new and via the builder, plus reference-made Ed25519/ECDSA/RSA signatures fed to verify; (B2) the structural value families of C16 (digest shapes, negative / extreme numbers, every rule form, key tables); (B3) strings of 15..4097 (70001) characters in stdout / readme / an environment name; (B4) 20 not-normalised path spellings (dot segments, doubled / trailing separators, back-slashes) as a whole material path, product path, rule pattern, MATCH pattern and MATCH prefixes, with reference-made signatures, and 4 spellings of a key id in a step's authorised list (upper case, mixed, not hex); every field x path spellings and critical strings once more with the string put into the JSON text of the document instead of through the library's constructors; (D) the four Python-made, Python-signed documents through the parser of the library and Metablock::verify; before every signing the escaped canonical form of the same value is computed on the same thread (no influence allowed); (C) C0 controls and captured-output shapes in every field; key ids of all fixture keys and hash-algorithm-list variants. distinct_nontrivial = scalars + (field, string) pairs + key-id cases",
        LINK_FIELDS.len(),
        LAYOUT_FIELDS.len()
    );
    c.bound_completed = format!("scalars: {}; critical strings <= {k}", if tier.thorough() { "all 1,112,064" } else { "all below U+0800, boundary set, every 211th above" });
    c.assume("reference encoder = securesystemslib encode_canonical, bound to the Python implementation by the four Python-signed fixture documents (self-test)");
    c.assume("Ed25519 signatures are a deterministic, collision-free function of the signed bytes");
    c.finish()
}

pub fn replay(case: &Value) -> Value {
    let mut acc = Acc::new();
    if case["kind"] == "reference-document" {
        check_reference_documents(&mut acc);
        return json!({"violation": acc.violations.keys().next()});
    }
    if case["kind"] == "keyid" {
        check_keyids(&mut acc);
        return json!({"violation": acc.violations.keys().next()});
    }
    let field = case["field"].as_str().unwrap_or("name");
    let s = case["string"].as_str().unwrap_or("");
    let doc = case["doc"].as_str().unwrap_or("link");
    let field: &'static str = LINK_FIELDS.iter().chain(LAYOUT_FIELDS.iter()).copied().find(|f| *f == field).unwrap_or("name");
    let meta = if doc == "link" { link_with(field, s) } else { layout_with(field, s) };
    let ring_ed = Ed25519KeyPair::from_pkcs8(keys::ED_PK8[0]).unwrap();
    if case["via"] == "reference-signed" {
        let rng = ring::rand::SystemRandom::new();
        let rs = RefSigners {
            ed: Ed25519KeyPair::from_pkcs8(keys::ED_PK8[0]).unwrap(),
            ec: EcdsaKeyPair::from_pkcs8(&ECDSA_P256_SHA256_ASN1_SIGNING, keys::EC_PK8[0], &rng).unwrap(),
            rsa: RsaKeyPair::from_pkcs8(keys::RSA_PK8[0]).unwrap(),
        };
        check_reference_accepted(&mut acc, &meta, field, s, doc, &rs);
    } else {
        check_signed_bytes(&mut acc, &meta, field, s, doc, &ring_ed);
    }
    let reference = olpc::encode(&serde_json::to_value(&meta).unwrap()).unwrap_or_default();
    json!({"reference_bytes": String::from_utf8_lossy(&reference), "violation": acc.violations.keys().next()})
}
