//! One module per property.

use crate::report::Tier;
use serde_json::Value;

macro_rules! props {
    ($(($id:literal, $m:ident)),* $(,)?) => {
        $(pub mod $m;)*
        pub fn run(id: &str, tier: Tier) -> i32 {
            match id {
                $($id => $m::run(tier),)*
                _ => crate::util::machinery_error(&format!("no check for property {id}")),
            }
        }
        /// Re-execute one recorded case without the explorer. The returned
        /// object has a `violation` member (null when the case does not violate).
        pub fn replay(id: &str, case: &Value) -> Value {
            match id {
                $($id => $m::replay(case),)*
                _ => crate::util::machinery_error(&format!("no replay for property {id}")),
            }
        }
    };
}

props!(("C01", c01), ("C02", c02), ("C03", c03), ("C04", c04), ("C05", c05), ("C06", c06), ("C07", c07), ("C08", c08), ("C09", c09), ("C10", c10), ("C11", c11), ("C12", c12), ("C13", c13), ("C14", c14), ("C15", c15), ("C16", c16), ("C17", c17), ("C18", c18), ("C19", c19), ("C20", c20));
