//! One module per property.

use crate::report::Tier;
use serde_json::Value;

pub mod c13;
pub mod c20;

pub fn run(id: &str, tier: Tier) -> i32 {
    match id {
        "C13" => c13::run(tier),
        "C20" => c20::run(tier),
        _ => crate::util::machinery_error(&format!("no check for property {id}")),
    }
}

/// Re-execute one recorded case without the explorer. The returned object
/// has a `violation` member (null when the case does not violate).
pub fn replay(id: &str, case: &Value) -> Value {
    match id {
        "C13" => c13::replay(case),
        "C20" => c20::replay(case),
        _ => crate::util::machinery_error(&format!("no replay for property {id}")),
    }
}
