//! C09 — whatever the library signs verifies again after a trip through the wire format.
//!
//! E3: metadata values x key types x signer sequences x construction paths x
//! output layouts -> parse -> verify with threshold = number of signers must
//! succeed (this property is bidirectional); negative space: every other key
//! of the same type, every single-bit flip of every signature, the same key
//! material declared with another scheme.

use in_toto::crypto::{PublicKey, SignatureScheme};
use in_toto::interchange::{DataInterchange, Json, JsonPretty};
use in_toto::models::{Metablock, MetablockBuilder, MetadataWrapper};
use serde_json::{json, Value};

use crate::keys::{self, Key};
use crate::props::{c05, c11};
use crate::report::{Acc, Check, Tier};
use crate::util::{self, guard, Guard};
use crate::world;

pub const CONSTRUCTIONS: [&str; 6] = ["Metablock::new", "builder", "from_raw_metadata(json)", "from_raw_metadata(canonical)", "constructor", "LinkMetadataBuilder::signed"];

/// The same value rebuilt through the plain constructors (`LinkMetadata::new`, `LayoutMetadata::new`).
fn via_constructor(meta: &MetadataWrapper) -> in_toto::Result<MetadataWrapper> {
    Ok(match meta.clone() {
        MetadataWrapper::Link(l) => MetadataWrapper::Link(in_toto::models::LinkMetadata::new(l.name, l.materials, l.products, l.env, l.byproducts, l.command)?),
        MetadataWrapper::Layout(l) => MetadataWrapper::Layout(in_toto::models::LayoutMetadata::new(l.expires, l.readme, l.keys, l.steps, l.inspect)),
    })
}

/// The same link fed field by field into a fresh builder (`add_material` / `add_product` where
/// the entry's description allows it), then `signed::<Json>` - the path `in_toto_run` takes.
fn via_signed(meta: &MetadataWrapper, k: &in_toto::crypto::PrivateKey) -> Option<in_toto::Result<Metablock>> {
    match meta.clone() {
        MetadataWrapper::Link(l) => Some(in_toto::models::LinkMetadataBuilder::new().name(l.name).materials(l.materials).products(l.products).env(l.env).byproducts(l.byproducts).command(l.command).signed::<Json>(k)),
        _ => None,
    }
}
pub const OUTPUTS: [&str; 4] = ["to_string", "to_string_pretty", "Json::to_writer", "JsonPretty::to_writer"];
pub const KEY_KINDS: [&str; 6] = ["ed1", "ec1", "rsa256a", "rsa512a", "rsa256c", "rsa512c"];

fn construct(meta: &MetadataWrapper, signers: &[&Key], how: &str) -> Result<Metablock, String> {
    let ks: Vec<&in_toto::crypto::PrivateKey> = signers.iter().map(|k| &k.private).collect();
    let r = guard(|| -> in_toto::Result<Metablock> {
        match how {
            "Metablock::new" => Metablock::new(meta.clone(), &ks),
            "builder" => Ok(MetablockBuilder::from_metadata(meta.clone().into_trait()).sign(&ks)?.build()),
            "from_raw_metadata(json)" => Ok(MetablockBuilder::from_raw_metadata(&serde_json::to_vec(meta)?)?.sign(&ks)?.build()),
            "constructor" => Metablock::new(via_constructor(meta)?, &ks),
            "LinkMetadataBuilder::signed" => match (ks.len(), via_signed(meta, ks[0])) {
                (1, Some(r)) => r,
                _ => Metablock::new(meta.clone(), &ks),
            },
            _ => Ok(MetablockBuilder::from_raw_metadata(&meta.to_bytes()?)?.sign(&ks)?.build()),
        }
    });
    match r {
        Guard::Done(Ok(mb)) => Ok(mb),
        Guard::Done(Err(e)) => Err(format!("error: {e:?}")),
        Guard::Panicked(l, m) => Err(format!("panic at {l}: {m}")),
    }
}

fn write_out(mb: &Metablock, how: &str) -> Result<Vec<u8>, String> {
    let r = guard(|| -> in_toto::Result<Vec<u8>> {
        match how {
            "to_string" => Ok(serde_json::to_string(mb)?.into_bytes()),
            "to_string_pretty" => Ok(serde_json::to_string_pretty(mb)?.into_bytes()),
            "Json::to_writer" => {
                let mut b = vec![];
                Json::to_writer(&mut b, mb)?;
                Ok(b)
            }
            _ => {
                let mut b = vec![];
                JsonPretty::to_writer(&mut b, mb)?;
                Ok(b)
            }
        }
    });
    match r {
        Guard::Done(Ok(b)) => Ok(b),
        Guard::Done(Err(e)) => Err(format!("error: {e:?}")),
        Guard::Panicked(l, m) => Err(format!("panic at {l}: {m}")),
    }
}

fn roundtrip_case(acc: &mut Acc, desc: &str, meta: &MetadataWrapper, signers: &[&Key], how: &str, outputs: &[&str]) {
    let names: Vec<&str> = signers.iter().map(|k| k.name).collect();
    let witness = |out: &str| {
        let vj = serde_json::to_value(meta).unwrap_or(Value::Null);
        let vj = if vj.to_string().len() > 20_000 { json!({"too_large_to_embed": desc}) } else { vj };
        json!({"kind": "roundtrip", "value": desc, "value_json": vj, "signers": names, "construction": how, "output": out})
    };
    let mb = match construct(meta, signers, how) {
        Ok(mb) => mb,
        Err(e) => {
            acc.evaluations += 1;
            acc.violation(&format!("cannot-sign:{how}"), &format!("signing a representable value failed: {e}"), || witness("-"));
            return;
        }
    };
    let pubs: Vec<&PublicKey> = signers.iter().map(|k| k.public()).collect();
    for out in outputs {
        acc.evaluations += 1;
        let bytes = match write_out(&mb, out) {
            Ok(b) => b,
            Err(e) => {
                acc.violation(&format!("cannot-write:{out}"), &format!("writing a signed block failed: {e}"), || witness(out));
                continue;
            }
        };
        // read back through serde_json and through the library's own readers (slice and stream)
        let parsed: Result<Metablock, String> = serde_json::from_slice::<Metablock>(&bytes).map_err(|e| e.to_string());
        for (reader, r) in [
            ("Json::from_slice", guard(|| Json::from_slice::<Metablock>(&bytes).map_err(|e| format!("{e:?}")))),
            ("Json::from_reader", guard(|| Json::from_reader::<_, Metablock>(&bytes[..]).map_err(|e| format!("{e:?}")))),
            ("JsonPretty::from_reader", guard(|| JsonPretty::from_reader::<_, Metablock>(&bytes[..]).map_err(|e| format!("{e:?}")))),
        ] {
            let same = match (&r, &parsed) {
                (Guard::Done(Ok(a)), Ok(b)) => a == b,
                (Guard::Done(Err(_)), Err(_)) => true,
                _ => false,
            };
            if !same {
                acc.violation(&format!("written-block-not-read-back:{reader}"), &format!("the JSON written for a signed block ({out}, {} bytes) is not read back by {reader} the way serde_json reads it", bytes.len()), || witness(out));
            }
        }
        let parsed = match parsed {
            Ok(p) => p,
            Err(e) => {
                acc.outcome("written-block-does-not-parse");
                acc.violation(&format!("written-block-does-not-parse:{out}"), &format!("the JSON written for a signed block cannot be read back: {e}"), || witness(out));
                continue;
            }
        };
        match guard(|| parsed.verify(signers.len() as u32, pubs.clone())) {
            Guard::Done(Ok(_)) => {
                acc.outcome("verifies-after-roundtrip");
                acc.accepting += 1;
            }
            Guard::Done(Err(e)) => {
                acc.outcome("rejected-after-roundtrip");
                let kinds: Vec<&str> = signers.iter().map(|k| k.kind).collect();
                acc.violation(
                    &format!("rejected-after-roundtrip:{}", if signers.len() == 1 { kinds[0] } else { "multiple-signers" }),
                    &format!("metadata signed by the library does not verify after writing ({out}) and reading it back: {e:?}"),
                    || witness(out),
                );
            }
            Guard::Panicked(l, m) => acc.violation(&format!("panic:{l}"), &format!("verify panicked: {m}"), || witness(out)),
        }
    }
}

fn signer_sequences() -> Vec<Vec<&'static Key>> {
    let pool = [keys::get("ed1"), keys::get("ec1"), keys::get("rsa256a"), keys::get("rsa512c")];
    let mut out = vec![];
    for a in 0..4 {
        out.push(vec![pool[a]]);
        for b in 0..4 {
            if b == a {
                continue;
            }
            out.push(vec![pool[a], pool[b]]);
            for c in 0..4 {
                if c == a || c == b {
                    continue;
                }
                out.push(vec![pool[a], pool[b], pool[c]]);
            }
        }
    }
    out
}

fn other_scheme_keys(k: &Key) -> Vec<(String, PublicKey)> {
    let mut out = vec![];
    let raw = k.public().as_bytes().to_vec();
    match k.kind {
        "ed25519" => {
            if let Ok(p) = PublicKey::from_ecdsa(raw.clone()) {
                out.push(("ed25519-material-as-ecdsa".to_string(), p));
            }
        }
        "ecdsa" => {
            if raw.len() == 32 {
                if let Ok(p) = PublicKey::from_ed25519(raw.clone()) {
                    out.push(("ecdsa-material-as-ed25519".to_string(), p));
                }
            }
        }
        _ => {
            let spki = k.public().as_spki().unwrap();
            for (n, s) in [("rsa-as-sha256", SignatureScheme::RsaSsaPssSha256), ("rsa-as-sha512", SignatureScheme::RsaSsaPssSha512), ("rsa-as-ecdsa-scheme", SignatureScheme::EcdsaP256Sha256), ("rsa-as-ed25519-scheme", SignatureScheme::Ed25519)] {
                if &s == k.public().scheme() {
                    continue;
                }
                if let Ok(p) = PublicKey::from_spki(&spki, s) {
                    out.push((n.to_string(), p));
                }
            }
        }
    }
    out
}

fn negatives(acc: &mut Acc, meta: &MetadataWrapper, all_bits: bool) {
    for kname in KEY_KINDS {
        let k = keys::get(kname);
        let mb = world::sign(meta.clone(), &[k]);
        let bv = world::block_value(&mb);
        // sanity: verifies as is
        acc.evaluations += 1;
        if mb.verify(1, [k.public()]).is_err() {
            acc.violation(&format!("rejected-after-roundtrip:{}", k.kind), "freshly signed block does not verify", || json!({"kind": "negative", "key": kname, "what": "baseline"}));
            continue;
        }
        // (i) every other key of the same type, relabelled to its id
        for other in keys::all().iter().filter(|o| o.name != k.name && o.kind == k.kind) {
            acc.evaluations += 1;
            acc.nontrivial += 1;
            let mut v = bv.clone();
            v["signatures"][0]["keyid"] = json!(other.id());
            let p = world::block_from_value(&v).unwrap();
            if p.verify(1, [other.public()]).is_ok() {
                acc.violation("verifies-under-other-key", &format!("a signature by {kname} verifies under the key {}", other.name), || json!({"kind": "negative", "key": kname, "other": other.name}));
            } else {
                acc.outcome("other-key-rejected");
            }
            // also directly, without relabelling, with both keys authorised and threshold 2
            if mb.verify(2, [k.public(), other.public()]).is_ok() {
                acc.violation("one-signature-counts-twice", "one signature satisfies threshold 2 with two authorised keys", || json!({"kind": "negative", "key": kname, "other": other.name}));
            }
        }
        // (ii) same key material, other scheme
        for (sname, pk) in other_scheme_keys(k) {
            acc.evaluations += 1;
            acc.nontrivial += 1;
            let mut v = bv.clone();
            v["signatures"][0]["keyid"] = serde_json::to_value(pk.key_id()).unwrap();
            let p = world::block_from_value(&v).unwrap();
            let via_block = matches!(guard(|| p.verify(1, [&pk])), Guard::Done(Ok(_)));
            let msg = meta.to_signable_bytes().unwrap_or_default();
            let direct = matches!(guard(|| pk.verify(&msg, &p.signatures[0])), Guard::Done(Ok(())));
            if via_block || direct {
                acc.violation(&format!("verifies-under-other-scheme:{sname}"), &format!("a {} signature verifies under the same key material declared as {sname}", k.kind), || json!({"kind": "negative", "key": kname, "scheme_variant": sname}));
            } else {
                acc.outcome("other-scheme-rejected");
            }
        }
        // (iii) every single-bit flip of the signature value
        let hexs = bv["signatures"][0]["sig"].as_str().unwrap().to_string();
        let bytes = data_encoding::HEXLOWER.decode(hexs.as_bytes()).unwrap();
        let nbits = bytes.len() * 8;
        let step = if all_bits || nbits <= 600 { 1 } else { 7 };
        let bits: Vec<usize> = (0..nbits).step_by(step).collect();
        let accs = util::par_fold(&bits, Acc::new, |acc, _i, bit| {
            let mut b = bytes.clone();
            b[bit / 8] ^= 1 << (bit % 8);
            let mut v = bv.clone();
            v["signatures"][0]["sig"] = json!(util::hex(&b));
            let p = world::block_from_value(&v).unwrap();
            acc.evaluations += 1;
            acc.nontrivial += 1;
            match guard(|| p.verify(1, [k.public()])) {
                Guard::Done(Err(_)) => acc.outcome("bit-flip-rejected"),
                Guard::Done(Ok(_)) => acc.violation(&format!("bit-flip-accepted:{}", k.kind), &format!("signature with bit {bit} flipped still verifies ({kname})"), || json!({"kind": "negative", "key": kname, "bit": bit})),
                Guard::Panicked(l, m) => acc.violation(&format!("panic:{l}"), &format!("verify panicked: {m}"), || json!({"kind": "negative", "key": kname, "bit": bit})),
            }
        });
        acc.merge(Acc::merge_all(accs));
    }
}

/// ECDSA signatures are randomized and DER-encoded: their length varies (68..72 bytes).
/// The signing randomness cannot be enumerated, so this one dimension is *searched*: sign
/// until every length class has been seen (cap on attempts), then verify one of each.
fn ecdsa_length_classes(acc: &mut Acc, meta: &MetadataWrapper) -> serde_json::Map<String, Value> {
    let k = keys::get("ec1");
    let mut seen: std::collections::BTreeMap<usize, Metablock> = Default::default();
    let mut attempts = 0u64;
    while attempts < 40_000 && !(seen.keys().any(|l| *l <= 69) && seen.contains_key(&70) && seen.contains_key(&71) && seen.contains_key(&72)) {
        attempts += 1;
        let mb = world::sign(meta.clone(), &[k]);
        let len = serde_json::to_value(&mb.signatures[0]).unwrap()["sig"].as_str().unwrap().len() / 2;
        seen.entry(len).or_insert(mb);
    }
    let mut info = serde_json::Map::new();
    info.insert("attempts".into(), json!(attempts));
    info.insert("lengths_seen".into(), json!(seen.keys().collect::<Vec<_>>()));
    info.insert("sampled".into(), json!(true));
    for (len, mb) in &seen {
        for out in ["to_string", "to_string_pretty"] {
            acc.evaluations += 1;
            acc.nontrivial += 1;
            let ok = write_out(mb, out).ok().and_then(|b| serde_json::from_slice::<Metablock>(&b).ok()).map(|p| matches!(guard(|| p.verify(1, [k.public()])), Guard::Done(Ok(_)))).unwrap_or(false);
            if ok {
                acc.outcome("verifies-after-roundtrip");
            } else {
                acc.violation(
                    "rejected-after-roundtrip:ecdsa:signature-length-class",
                    &format!("an ECDSA signature of {len} bytes made by the library does not verify after a round trip"),
                    || json!({"kind": "ecdsa-length", "length": len, "block": world::block_value(mb)}),
                );
            }
        }
    }
    info
}

/// RSA-PSS signatures are randomized too; the class that differs in handling is a signature whose
/// big-endian value starts with a zero byte (1 in 256). Searched like the ECDSA length classes:
/// sign until one is seen (cap on attempts), then take it through the round trip.
fn rsa_leading_zero_class(acc: &mut Acc, meta: &MetadataWrapper) -> serde_json::Map<String, Value> {
    let mut info = serde_json::Map::new();
    for kname in ["rsa256a", "rsa512a"] {
        let k = keys::get(kname);
        let mut attempts = 0u64;
        let mut found: Option<Metablock> = None;
        while attempts < 6000 && found.is_none() {
            attempts += 1;
            let mb = world::sign(meta.clone(), &[k]);
            let sig = serde_json::to_value(&mb.signatures[0]).unwrap()["sig"].as_str().unwrap().to_string();
            if sig.starts_with("00") {
                found = Some(mb);
            }
        }
        info.insert(format!("{kname}_attempts"), json!(attempts));
        info.insert(format!("{kname}_leading_zero_signature_seen"), json!(found.is_some()));
        if let Some(mb) = found {
            for out in ["to_string", "to_string_pretty", "Json::to_writer"] {
                acc.evaluations += 1;
                acc.nontrivial += 1;
                let ok = write_out(&mb, out).ok().and_then(|b| serde_json::from_slice::<Metablock>(&b).ok()).map(|p| matches!(guard(|| p.verify(1, [k.public()])), Guard::Done(Ok(_)))).unwrap_or(false);
                if ok {
                    acc.outcome("verifies-after-roundtrip");
                } else {
                    acc.violation("rejected-after-roundtrip:rsa:signature-with-leading-zero-byte", "an RSA-PSS signature whose value starts with a zero byte does not verify after a round trip", || json!({"kind": "rsa-leading-zero", "key": kname, "block": world::block_value(&mb)}));
                }
            }
        }
    }
    info.insert("sampled".into(), json!(true));
    info
}

/// Signers that cannot sign: a private key loaded under a scheme its material does not fit (the
/// library accepts the declaration and only `sign` fails). Whatever construction is asked for k
/// signers either fails or yields a block that, written and read back, verifies for all k.
fn unusable_signers(acc: &mut Acc, meta: &MetadataWrapper) -> usize {
    use in_toto::crypto::{PrivateKey, SignatureScheme};
    let ed = keys::get("ed1");
    let mut odd: Vec<(&'static str, PrivateKey)> = vec![];
    for (name, der, scheme) in [
        ("RSA key declared ecdsa-sha2-nistp256", keys::RSA_PK8[0], SignatureScheme::EcdsaP256Sha256),
        ("P-256 key declared rsassa-pss-sha256", keys::EC_PK8[0], SignatureScheme::RsaSsaPssSha256),
        ("P-256 key declared rsassa-pss-sha512", keys::EC_PK8[0], SignatureScheme::RsaSsaPssSha512),
        ("RSA key declared with an unknown scheme", keys::RSA_PK8[0], SignatureScheme::Unknown("rsa-pkcs1v15-sha256".into())),
        ("P-256 key declared with an unknown scheme", keys::EC_PK8[0], SignatureScheme::Unknown("x".into())),
    ] {
        if let Guard::Done(Ok(k)) = guard(|| PrivateKey::from_pkcs8(der, scheme.clone())) {
            // only keys that really cannot sign belong here
            if !matches!(guard(|| k.sign(b"probe")), Guard::Done(Ok(_))) {
                odd.push((name, k));
            }
        }
    }
    for (oname, ok) in &odd {
        for (lname, ks) in [("alone", vec![ok]), ("after a working signer", vec![&ed.private, ok]), ("before a working signer", vec![ok, &ed.private]), ("between two working signers", vec![&ed.private, ok, &keys::get("ed2").private])] {
            for how in ["Metablock::new", "builder", "from_raw_metadata(json)", "LinkMetadataBuilder::signed"] {
                if how == "LinkMetadataBuilder::signed" && ks.len() != 1 {
                    continue;
                }
                acc.evaluations += 1;
                acc.nontrivial += 1;
                let witness = || json!({"kind": "unusable-signer", "signer": oname, "position": lname, "construction": how});
                let r = guard(|| -> in_toto::Result<Metablock> {
                    match how {
                        "Metablock::new" => Metablock::new(meta.clone(), &ks),
                        "builder" => Ok(MetablockBuilder::from_metadata(meta.clone().into_trait()).sign(&ks)?.build()),
                        "LinkMetadataBuilder::signed" => via_signed(meta, ks[0]).unwrap_or_else(|| Metablock::new(meta.clone(), &ks)),
                        _ => Ok(MetablockBuilder::from_raw_metadata(&serde_json::to_vec(meta)?)?.sign(&ks)?.build()),
                    }
                });
                match r {
                    Guard::Panicked(l, m) => acc.violation(&format!("panic:{l}"), &m, witness),
                    Guard::Done(Err(_)) => acc.outcome("unusable-signer:construction-fails"),
                    Guard::Done(Ok(mb)) => {
                        let pubs: Vec<&PublicKey> = ks.iter().map(|k| k.public()).collect();
                        let back = serde_json::to_vec(&mb).ok().and_then(|b| serde_json::from_slice::<Metablock>(&b).ok());
                        let verifies = back.as_ref().map(|b| matches!(guard(|| b.verify(ks.len() as u32, pubs.clone()).is_ok()), Guard::Done(true))).unwrap_or(false);
                        acc.outcome(if verifies { "unusable-signer:block-verifies" } else { "unusable-signer:block-lacks-a-signer" });
                        if !verifies {
                            acc.violation(&format!("signer-silently-left-out:{how}"), &format!("{how} for {} signers ({oname}, {lname}) returned a block with {} signature(s) that does not verify for all of them after a round trip", ks.len(), mb.signatures.len()), witness);
                        }
                    }
                }
            }
        }
    }
    odd.len()
}

pub fn run(tier: Tier) -> i32 {
    let mut c = Check::new("C09", "exploration", tier);
    let mut acc = Acc::new();
    let wide = util::strings_upto(&c05::SIGMA_STR, if tier.thorough() { 2 } else { 1 });
    let crit = c11::crit_strings(2);
    // (1) string sweep with Ed25519, both constructions, all outputs
    let mut docs: Vec<(String, MetadataWrapper)> = vec![];
    for f in c11::LINK_FIELDS {
        for s in wide.iter().chain(crit.iter()) {
            docs.push((format!("link.{f}={s:?}"), c11::link_with(f, s)));
        }
    }
    for f in c11::LAYOUT_FIELDS {
        for s in wide.iter().chain(crit.iter()) {
            docs.push((format!("layout.{f}={s:?}"), c11::layout_with(f, s)));
        }
    }
    // all fields at once
    for s in wide.iter().take(60) {
        let mut l = c11::link_with("name", s);
        if let MetadataWrapper::Link(ref mut lm) = l {
            lm.command = vec![s.clone(), s.clone()].into();
            lm.byproducts = lm.byproducts.clone().set_stdout(s.clone()).set_stderr(s.clone()).set_other_field(format!("o{s}"), s.clone());
            lm.materials.insert(world::vpath(&format!("m{s}")), world::desc2(5));
        }
        docs.push((format!("link.all-fields={s:?}"), l));
    }
    // the structural families of C16 (artifact shapes, environments, byproduct members, rule forms, key tables)
    for (n, l) in crate::props::c16::links(false) {
        if !n.contains("other-field-named") && !n.starts_with("field:") {
            docs.push((format!("c16-link/{n}"), MetadataWrapper::Link(l)));
        }
    }
    for (i, (n, l)) in crate::props::c16::layouts(false).into_iter().filter(|(n, _)| !n.starts_with("field:")).enumerate() {
        if tier.thorough() || i % 4 == 0 || n.starts_with("keys:") {
            docs.push((format!("c16-layout/{n}"), MetadataWrapper::Layout(l)));
        }
    }
    let ed = keys::get("ed1");
    let accs = util::par_fold(&docs, Acc::new, |acc, i, (d, meta)| {
        acc.nontrivial += 1;
        for how in ["Metablock::new", "builder", "constructor", "LinkMetadataBuilder::signed"] {
            if how == "LinkMetadataBuilder::signed" && !matches!(meta, MetadataWrapper::Link(_)) {
                continue;
            }
            roundtrip_case(acc, d, meta, &[ed], how, if how == "constructor" || how == "LinkMetadataBuilder::signed" { &OUTPUTS[..2] } else { &OUTPUTS });
        }
        if i % 500 == 3 {
            acc.sample(|| json!({"kind": "roundtrip", "value": d, "signers": ["ed1"], "constructions": ["Metablock::new", "builder"], "outputs": OUTPUTS}));
        }
    });
    acc.merge(Acc::merge_all(accs));
    // (2) the slower schemes on a critical subset
    let subset: Vec<&(String, MetadataWrapper)> = docs.iter().step_by(if tier.thorough() { 3 } else { 11 }).collect();
    let jobs: Vec<(&(String, MetadataWrapper), &str)> = subset.iter().flat_map(|d| KEY_KINDS[1..].iter().map(move |k| (*d, *k))).collect();
    let accs = util::par_fold(&jobs, Acc::new, |acc, _i, ((d, meta), kname)| {
        acc.nontrivial += 1;
        roundtrip_case(acc, d, meta, &[keys::get(kname)], "Metablock::new", &["to_string", "to_string_pretty"]);
    });
    acc.merge(Acc::merge_all(accs));
    // (3) signer sequences x constructions x outputs on four documents
    let seqs = signer_sequences();
    let four: Vec<(String, MetadataWrapper)> = vec![
        ("link.plain".into(), c11::link_with("name", "step")),
        ("link.newline+quote".into(), c11::link_with("stdout", "a\nb\"c\\d\te")),
        ("layout.plain".into(), c11::layout_with("readme", "r")),
        ("layout.nonbmp".into(), c11::layout_with("readme", "\u{1f600}\u{ffff}\n")),
    ];
    let jobs: Vec<(&Vec<&Key>, &(String, MetadataWrapper), &str)> = seqs.iter().flat_map(|s| four.iter().flat_map(move |d| CONSTRUCTIONS.iter().map(move |c| (s, d, *c)))).collect();
    let accs = util::par_fold(&jobs, Acc::new, |acc, _i, (s, (d, meta), how)| {
        acc.nontrivial += 1;
        roundtrip_case(acc, d, meta, s, how, &OUTPUTS);
    });
    acc.merge(Acc::merge_all(accs));
    // (4) negative space
    negatives(&mut acc, &four[1].1, true);
    if tier.thorough() {
        negatives(&mut acc, &four[3].1, true);
    }
    // (5) links produced by in_toto_run itself (record, run, sign), every key kind
    {
        let dir = util::fresh_dir("c09run");
        std::fs::write(dir.join("a.txt"), b"a").unwrap();
        std::fs::create_dir_all(dir.join("d")).unwrap();
        std::fs::write(dir.join("d/b\u{e9}.txt"), b"b").unwrap();
        let ds = dir.to_str().unwrap().to_string();
        for kname in KEY_KINDS {
            let k = keys::get(kname);
            for (label, cmd) in [("plain", vec!["sh", "-c", "printf 'out\\n\"q\"'; printf 'err\\t' >&2"]), ("no-command", vec![]), ("non-zero", vec!["sh", "-c", "exit 3"])] {
                acc.evaluations += 1;
                acc.nontrivial += 1;
                let w = || json!({"kind": "in_toto_run", "key": kname, "command": label});
                let r = guard(|| in_toto::runlib::in_toto_run("st\u{e9}p", Some(&ds), &[&ds], &[&ds], &cmd, Some(&k.private), None, Some(&[&ds])));
                let mb = match r {
                    Guard::Done(Ok(mb)) => mb,
                    Guard::Done(Err(e)) => {
                        acc.note(&format!("in_toto_run-error:{label}:{}", util::normalize_loc(&format!("{e:?}")).chars().take(40).collect::<String>()));
                        continue;
                    }
                    Guard::Panicked(l, m) => {
                        acc.violation(&format!("panic:{l}"), &format!("in_toto_run panicked: {m}"), w);
                        continue;
                    }
                };
                for out in ["to_string", "to_string_pretty"] {
                    let ok = write_out(&mb, out).ok().and_then(|b| serde_json::from_slice::<Metablock>(&b).ok()).map(|p| matches!(guard(|| p.verify(1, [k.public()])), Guard::Done(Ok(_)))).unwrap_or(false);
                    if ok {
                        acc.outcome("verifies-after-roundtrip");
                        acc.accepting += 1;
                    } else {
                        acc.violation(&format!("rejected-after-roundtrip:in_toto_run:{}", k.kind), "a link signed by in_toto_run does not verify after writing it and reading it back", w);
                    }
                }
            }
        }
        let _ = std::fs::remove_dir_all(&dir);
    }
    // (6) blocks whose JSON form is larger than typical buffer / limit sizes (64 KiB, 1 MiB, 4 MiB)
    for size in if tier.thorough() { vec![70_000usize, 1_300_000, 5_000_000] } else { vec![70_000usize, 1_300_000] } {
        let mut l = c11::link_with("name", "big");
        if let MetadataWrapper::Link(ref mut lm) = l {
            let big: String = (0..size).map(|i| ['a', 'b', '\n', 'c'][i % 4]).collect();
            lm.byproducts = lm.byproducts.clone().set_stdout(big);
        }
        acc.nontrivial += 1;
        roundtrip_case(&mut acc, &format!("link with {size} characters of captured output"), &l, &[ed], "Metablock::new", &OUTPUTS);
    }
    {
        // many small members instead of one long string
        let mut l = c11::link_with("name", "many");
        if let MetadataWrapper::Link(ref mut lm) = l {
            for i in 0..if tier.thorough() { 9000 } else { 3000 } {
                lm.products.insert(world::vpath(&format!("out/file-{i:05}.o")), world::desc((i % 250) as u8));
            }
        }
        acc.nontrivial += 1;
        roundtrip_case(&mut acc, "link with thousands of products", &l, &[ed], "builder", &OUTPUTS);
    }
    let ecdsa_info = ecdsa_length_classes(&mut acc, &four[0].1);
    c.extra.insert("ecdsa_signature_length_classes".into(), Value::Object(ecdsa_info));
    let rsa_info = rsa_leading_zero_class(&mut acc, &four[0].1);
    c.extra.insert("rsa_signature_leading_zero_class".into(), Value::Object(rsa_info));
    // observation (not judged): repeated sign() calls on the builder
    {
        let b = MetablockBuilder::from_metadata(four[0].1.clone().into_trait()).sign(&[&keys::get("ed1").private]).unwrap().sign(&[&keys::get("ed2").private]).unwrap().build();
        c.extra.insert("observation_builder_sign_twice_keeps_signatures".into(), json!(b.signatures.len()));
    }
    let n_odd = unusable_signers(&mut acc, &four[0].1);
    c.extra.insert("signers_that_cannot_sign".into(), json!(n_odd));
    crate::envprobe::judge(&mut acc, "C09:", &mut c.extra);
    c.acc = acc;
    c.rule = format!(
        "(1) {} documents (every string field of link and layout x wide strings <= {} over 17 characters incl. controls/non-BMP and critical strings <= 2) signed with Ed25519 via Metablock::new, the builder, the plain constructors and (links) LinkMetadataBuilder::signed, written 4 (2) ways, read back, verified; (2) every {}th document with each of the 5 other key kinds; (3) all 40 ordered signer sequences of length 1..3 over 4 key types x 6 constructions x 4 outputs x 4 documents; (6) links with 70 KB / 1.3 MB (5 MB) of captured output and with 3000 (9000) products; every written block is read back by serde_json, Json::from_slice, Json::from_reader and JsonPretty::from_reader alike; (7) signers that cannot sign (an RSA key declared ECDSA, a P-256 key declared RSA-PSS, unknown schemes) alone / before / after / between working signers x 4 constructions: the construction fails or the block verifies for every signer; (5) in_toto_run on a two-file tree x 6 key kinds x 3 commands; (4) per key kind: every other key of the type, every scheme re-declaration, every single bit of the signature. distinct_nontrivial = documents x signer settings + negative cases",
        docs.len(),
        if tier.thorough() { 2 } else { 1 },
        if tier.thorough() { 3 } else { 11 }
    );
    c.bound_completed = "complete within the stated alphabets; two dimensions are searched, not enumerated (signing randomness: ECDSA DER length classes, RSA-PSS values with a leading zero byte)".into();
    c.assume("signers are distinct keys, i.e. distinct key material (one key loaded under two schemes or hash-algorithm lists is one signer); expiry years within 0001..9999; byproduct member names outside the reserved names (those are C16's)");
    c.assume("ring is a trusted black box");
    c.assume("one searched (not enumerated) dimension: the DER length classes of randomized ECDSA signatures, reported under ecdsa_signature_length_classes");
    c.finish()
}

pub fn replay(case: &Value) -> Value {
    if case["kind"] == "unusable-signer" {
        let mut acc = Acc::new();
        unusable_signers(&mut acc, &c11::link_with("name", "replay"));
        let hit = acc.violations.values().find(|v| v.witness["signer"] == case["signer"] && v.witness["construction"] == case["construction"] && v.witness["position"] == case["position"]).map(|v| v.key.clone());
        return json!({"violation": hit.or_else(|| acc.violations.keys().next().cloned())});
    }
    let mut acc = Acc::new();
    match case["kind"].as_str() {
        Some("roundtrip") => {
            let meta: MetadataWrapper = match serde_json::from_str(&case["value_json"].to_string()) {
                Ok(m) => m,
                Err(e) => return json!({"error": e.to_string(), "violation": null}),
            };
            let signers: Vec<&Key> = case["signers"].as_array().map(|a| a.iter().filter_map(|x| x.as_str()).map(keys::get).collect()).unwrap_or_default();
            let how = CONSTRUCTIONS.iter().copied().find(|c| Some(*c) == case["construction"].as_str()).unwrap_or("Metablock::new");
            roundtrip_case(&mut acc, "replay", &meta, &signers, how, &OUTPUTS);
        }
        Some("in_toto_run") => return json!({"note": "re-run ./check C09 quick: the case needs the scratch tree", "violation": null}),
        Some("negative") => negatives(&mut acc, &c11::link_with("stdout", "a\nb\"c\\d\te"), true),
        Some("rsa-leading-zero") => {
            if let Ok(mb) = world::block_from_value(&case["block"]) {
                let ok = mb.verify(1, [keys::get(case["key"].as_str().unwrap_or("rsa256a")).public()]).is_ok();
                return json!({"verifies": ok, "violation": if ok { Value::Null } else { json!("rejected-after-roundtrip:rsa:signature-with-leading-zero-byte") }});
            }
        }
        Some("ecdsa-length") => {
            if let Ok(mb) = world::block_from_value(&case["block"]) {
                let ok = mb.verify(1, [keys::get("ec1").public()]).is_ok();
                return json!({"verifies": ok, "violation": if ok { Value::Null } else { json!("rejected-after-roundtrip:ecdsa:signature-length-class") }});
            }
        }
        _ => {}
    }
    json!({"violation": acc.violations.keys().next()})
}
