//! C16 — layout, link and signed-block metadata survive a wire round trip unchanged.
//!
//! E3: value families (every rule form, optional field, empty collection, key
//! type, Unicode string) -> serialize (compact and pretty) -> parse -> must be
//! equal, and serializing again must give byte-identical JSON. Text leg: JSON
//! documents from the same alphabets; every accepted document must reproduce
//! its listed fields unchanged.

use std::collections::BTreeMap;

use in_toto::crypto::{HashAlgorithm, HashValue};
use in_toto::models::byproducts::ByProducts;
use in_toto::models::inspection::Inspection;
use in_toto::models::rule::{Artifact, ArtifactRule};
use in_toto::models::step::Step;
use in_toto::models::{LinkMetadata, LinkMetadataBuilder, Metablock, MetadataWrapper, TargetDescription};
use serde::de::DeserializeOwned;
use serde::Serialize;
use serde_json::{json, Value};

use crate::keys;
use crate::props::c05;
use crate::report::{Acc, Check, Tier};
use crate::util::{self, guard, Guard};
use crate::world;

pub fn all_rules() -> Vec<ArtifactRule> {
    let mut rules: Vec<ArtifactRule> = vec![];
    for p in ["a", "*", "", "IN", "WITH", "FROM", "d/é\n\"\\"] {
        for mk in [ArtifactRule::Create as fn(_) -> _, ArtifactRule::Delete, ArtifactRule::Modify, ArtifactRule::Allow, ArtifactRule::Require, ArtifactRule::Disallow] {
            rules.push(mk(world::vpath(p)));
        }
        for in_src in [None, Some(""), Some("d"), Some("IN"), Some("WITH")] {
            for in_dst in [None, Some(""), Some("d"), Some("FROM")] {
                for with in [Artifact::Materials, Artifact::Products] {
                    for from in ["", "s", "FROM", "IN"] {
                        rules.push(ArtifactRule::Match { pattern: world::vpath(p), in_src: in_src.map(String::from), with: with.clone(), in_dst: in_dst.map(String::from), from: from.into() });
                    }
                }
            }
        }
    }
    rules
}

fn desc_variants() -> Vec<(&'static str, TargetDescription)> {
    let mut empty_digest = TargetDescription::new();
    empty_digest.insert(HashAlgorithm::Sha256, HashValue::new(vec![]));
    let mut unknown = TargetDescription::new();
    unknown.insert(HashAlgorithm::Unknown("md5".into()), HashValue::new(vec![0xab, 0xcd]));
    let mut known_and_unknown = world::desc(1);
    known_and_unknown.insert(HashAlgorithm::Unknown("blake2b-256".into()), HashValue::new(vec![1; 32]));
    let mut upper = TargetDescription::new();
    upper.insert(HashAlgorithm::Unknown("SHA256".into()), HashValue::new(vec![0x11; 32]));
    let mut both_cases = world::desc(1);
    both_cases.insert(HashAlgorithm::Unknown("Sha256".into()), HashValue::new(vec![0x22; 32]));
    vec![("upper-case-algorithm-name", upper), ("sha256+mixed-case-name", both_cases), ("sha256", world::desc(1)), ("sha256+sha512", world::desc2(1)), ("empty-digest", empty_digest), ("no-algorithms", TargetDescription::new()), ("unknown-algorithm", unknown), ("sha256+unknown-algorithm", known_and_unknown)]
}

pub fn links(thorough: bool) -> Vec<(String, LinkMetadata)> {
    let mut out = vec![];
    let mk = |name: &str, m: world::Artifacts, p: world::Artifacts, env: Option<BTreeMap<String, String>>, by: ByProducts, cmd: Vec<String>| LinkMetadataBuilder::new().name(name.into()).materials(m).products(p).env(env).byproducts(by).command(cmd.into()).build().unwrap();
    // artifacts: 0..2 entries with each description variant
    for (dn, d) in desc_variants() {
        for n in 0..=2usize {
            let mut m = world::Artifacts::new();
            for i in 0..n {
                m.insert(world::vpath(&format!("p{i}/é")), d.clone());
            }
            out.push((format!("artifacts:{n}x{dn}:materials"), mk("l", m.clone(), Default::default(), None, ByProducts::new(), vec![])));
            out.push((format!("artifacts:{n}x{dn}:products"), mk("l", Default::default(), m, None, ByProducts::new(), vec![])));
        }
    }
    // two artifacts with *different* descriptions in one table, in both path orders (what one entry
    // carries must not show in its neighbour)
    for (d1n, d1) in desc_variants() {
        for (d2n, d2) in desc_variants() {
            if d1n == d2n {
                continue;
            }
            let two: world::Artifacts = [(world::vpath("a"), d1.clone()), (world::vpath("b"), d2.clone())].into_iter().collect();
            out.push((format!("artifacts:a={d1n},b={d2n}:materials"), mk("l", two.clone(), Default::default(), None, ByProducts::new(), vec![])));
            out.push((format!("artifacts:a={d1n},b={d2n}:products"), mk("l", Default::default(), two, None, ByProducts::new(), vec![])));
        }
    }
    // artifact paths that are not in normal form, alone and next to the path they normalise to
    for path in ["./a", "a/../b", "a//b", "a/", "/abs/p", "..", ".", "a/./b", "./", "a\\b", " a", "a "] {
        let one: world::Artifacts = [(world::vpath(path), world::desc(1))].into_iter().collect();
        out.push((format!("artifacts:odd-path:{path:?}:materials"), mk("l", one.clone(), Default::default(), None, ByProducts::new(), vec![])));
        out.push((format!("artifacts:odd-path:{path:?}:products"), mk("l", Default::default(), one, None, ByProducts::new(), vec![])));
    }
    for (x, y) in [("./a", "a"), ("a//b", "a/b"), ("a/", "a"), ("d/../a", "a"), ("A", "a")] {
        let two: world::Artifacts = [(world::vpath(x), world::desc(1)), (world::vpath(y), world::desc(2))].into_iter().collect();
        out.push((format!("artifacts:odd-path-pair:{x:?}+{y:?}"), mk("l", two.clone(), two, None, ByProducts::new(), vec![])));
    }
    // environment
    for (en, env) in [("none", None), ("empty", Some(BTreeMap::new())), ("one", Some([("k".to_string(), "v".to_string())].into_iter().collect())), ("odd", Some([("".to_string(), "".to_string()), ("é\n".to_string(), "\"\\".to_string())].into_iter().collect()))] {
        out.push((format!("env:{en}"), mk("l", Default::default(), Default::default(), env, ByProducts::new(), vec![])));
    }
    // commands
    for cmd in [vec![], vec!["".to_string()], vec!["a b".to_string()], vec!["a".to_string(), "".to_string(), "b\tc".to_string()]] {
        out.push((format!("command:{cmd:?}"), mk("l", Default::default(), Default::default(), None, ByProducts::new(), cmd)));
    }
    // byproducts: each member present/absent, return-value extremes
    for ret in [None, Some(0), Some(-1), Some(255), Some(i32::MAX), Some(i32::MIN)] {
        for so in [None, Some(""), Some("out\n")] {
            for se in [None, Some("err")] {
                for other in [vec![], vec![("extra", "1")], vec![("a", ""), ("z é", "\u{1f600}")]] {
                    let mut by = ByProducts::new();
                    if let Some(r) = ret {
                        by = by.set_return_value(r);
                    }
                    if let Some(s) = so {
                        by = by.set_stdout(s.into());
                    }
                    if let Some(s) = se {
                        by = by.set_stderr(s.into());
                    }
                    for (k, v) in &other {
                        by = by.set_other_field(k.to_string(), v.to_string());
                    }
                    out.push((format!("byproducts:ret={ret:?},stdout={so:?},stderr={se:?},other={}", other.len()), mk("l", Default::default(), Default::default(), None, by, vec![])));
                }
            }
        }
    }
    // extra byproduct members with the reserved names
    for reserved in ["stdout", "stderr", "return-value"] {
        out.push((format!("byproducts:other-field-named-{reserved}:alone"), mk("l", Default::default(), Default::default(), None, ByProducts::new().set_other_field(reserved.into(), "7".into()), vec![])));
        out.push((format!("byproducts:other-field-named-{reserved}:with-typed-member"), mk("l", Default::default(), Default::default(), None, ByProducts::new().set_stdout("typed".into()).set_stderr("typed".into()).set_return_value(1).set_other_field(reserved.into(), "7".into()), vec![])));
    }
    // strings in the name
    let strs = util::strings_upto(&c05::SIGMA_STR, if thorough { 2 } else { 1 });
    for s in &strs {
        out.push((format!("name:{s:?}"), mk(s, Default::default(), Default::default(), None, ByProducts::new().set_stdout(s.clone()), vec![s.clone()])));
    }
    // every string-bearing field x wide and critical strings
    let crit = crate::props::c11::crit_strings(2);
    for f in crate::props::c11::LINK_FIELDS {
        for s in strs.iter().chain(crit.iter()) {
            if let MetadataWrapper::Link(l) = crate::props::c11::link_with(f, s) {
                out.push((format!("field:{f}={s:?}"), l));
            }
        }
    }
    out
}

pub fn layouts(thorough: bool) -> Vec<(String, in_toto::models::LayoutMetadata)> {
    let mut out = vec![];
    let kk = [keys::get("ed1"), keys::get("ec1"), keys::get("rsa256a"), keys::get("rsa512c")];
    // every rule form in a step (materials / products) and in an inspection
    for (i, r) in all_rules().into_iter().enumerate() {
        let st = world::step("s", 1, &[]).add_expected_material(r.clone()).add_expected_product(r.clone());
        let insp = Inspection::new("i").add_expected_product(r);
        out.push((format!("rule#{i}"), world::layout(vec![st], vec![insp], &[], world::far_future())));
    }
    // steps
    for thr in [0u32, 1, u32::MAX] {
        for npk in 0..=2usize {
            for cmd in [vec![], vec!["".to_string()], vec!["a b".to_string()]] {
                let pk: Vec<&keys::Key> = kk[..npk].to_vec();
                let st = world::step("s", thr, &pk).expected_command(cmd.clone().into());
                let insp = Inspection::new("i").run(cmd.into());
                out.push((format!("step:thr={thr},pubkeys={npk}"), world::layout(vec![st], vec![insp], &pk, world::far_future())));
            }
        }
    }
    // key tables: every subset of the four key types
    for mask in 0u32..16 {
        let table: Vec<&keys::Key> = (0..4).filter(|i| mask & (1 << i) != 0).map(|i| kk[i]).collect();
        out.push((format!("keys:mask={mask}"), world::layout(vec![], vec![], &table, world::far_future())));
    }
    // key tables whose keys were obtained on other construction paths (no hash-algorithm
    // list, one-element list, from SubjectPublicKeyInfo)
    {
        use in_toto::crypto::{PublicKey, SignatureScheme};
        let variants: Vec<(&str, PublicKey)> = vec![
            ("ed25519-raw", PublicKey::from_ed25519(keys::ED1_PUB.to_vec()).unwrap()),
            ("ed25519-one-alg", PublicKey::from_ed25519_with_keyid_hash_algorithms(keys::ED1_PUB.to_vec(), Some(vec!["sha256".to_string()])).unwrap()),
            ("ecdsa-raw", PublicKey::from_ecdsa(keys::get("ec1").public().as_bytes().to_vec()).unwrap()),
            ("ecdsa-reordered-algs", PublicKey::from_ecdsa_with_keyid_hash_algorithms(keys::get("ec2").public().as_bytes().to_vec(), Some(vec!["sha512".to_string(), "sha256".to_string()])).unwrap()),
            ("ed25519-empty-alg-list", PublicKey::from_ed25519_with_keyid_hash_algorithms(keys::ED1_PUB.to_vec(), Some(vec![])).unwrap()),
            ("ecdsa-empty-alg-list", PublicKey::from_ecdsa_with_keyid_hash_algorithms(keys::get("ec3").public().as_bytes().to_vec(), Some(vec![])).unwrap()),
            ("rsa-spki-sha512", PublicKey::from_spki(keys::RSA_SPKI[1], SignatureScheme::RsaSsaPssSha512).unwrap()),
            ("ed25519-spki", PublicKey::from_spki(keys::ED_SPKI_RFC8410[1], SignatureScheme::Ed25519).unwrap()),
            ("ecdsa-spki", PublicKey::from_spki(keys::EC_SPKI[2], SignatureScheme::EcdsaP256Sha256).unwrap()),
        ];
        for (n, pk) in &variants {
            let mut l = world::layout(vec![], vec![], &[], world::far_future());
            l.keys.insert(pk.key_id().clone(), pk.clone());
            let mut st = Step::new("s");
            st.pub_keys.push(pk.key_id().clone());
            l.steps.push(st);
            out.push((format!("keys:construction={n}"), l));
        }
        let mut l = world::layout(vec![], vec![], &[], world::far_future());
        for (_, pk) in &variants {
            l.keys.insert(pk.key_id().clone(), pk.clone());
        }
        out.push(("keys:construction=all".into(), l));
    }
    // readme strings
    for s in util::strings_upto(&c05::SIGMA_STR, if thorough { 2 } else { 1 }) {
        let mut l = world::layout(vec![], vec![], &[], world::far_future());
        l.readme = s.clone();
        out.push((format!("readme:{s:?}"), l));
    }
    // expiry grid at whole seconds, years 0001..9999
    for t in ["0001-01-01T00:00:00Z", "1969-12-31T23:59:59Z", "1970-01-01T00:00:00Z", "2000-02-29T12:00:00Z", "2038-01-19T03:14:08Z", "2262-04-11T23:47:17Z", "9999-12-31T23:59:59Z"] {
        let e = chrono::DateTime::parse_from_rfc3339(t).unwrap().with_timezone(&chrono::Utc);
        out.push((format!("expires:{t}"), world::layout(vec![], vec![], &[], e)));
    }
    // every string-bearing field x wide and critical strings
    let strs = util::strings_upto(&c05::SIGMA_STR, if thorough { 2 } else { 1 });
    let crit = crate::props::c11::crit_strings(2);
    for f in crate::props::c11::LAYOUT_FIELDS {
        for s in strs.iter().chain(crit.iter()) {
            if let MetadataWrapper::Layout(l) = crate::props::c11::layout_with(f, s) {
                out.push((format!("field:{f}={s:?}"), l));
            }
        }
    }
    // rule lists and command lists with several and with repeated elements (order and multiplicity are content)
    {
        let (r1, r2, r3) = (ArtifactRule::Create(world::vpath("a")), ArtifactRule::Disallow(world::vpath("*")), ArtifactRule::Match { pattern: world::vpath("a"), in_src: None, with: Artifact::Products, in_dst: None, from: "s".into() });
        for (n, rules) in [("r1,r2", vec![r1.clone(), r2.clone()]), ("r2,r1", vec![r2.clone(), r1.clone()]), ("r1,r1", vec![r1.clone(), r1.clone()]), ("r1,r2,r1", vec![r1.clone(), r2.clone(), r1.clone()]), ("r3,r3,r2", vec![r3.clone(), r3.clone(), r2.clone()]), ("r1,r2,r3,r2,r1", vec![r1.clone(), r2.clone(), r3.clone(), r2.clone(), r1.clone()])] {
            let mut st = world::step("s", 1, &[]).expected_command(vec!["a".to_string(), "a".to_string(), "b".to_string(), "a".to_string()].into());
            let mut insp = Inspection::new("i").run(vec!["x".to_string(), "x".to_string()].into());
            for r in &rules {
                st = st.add_expected_material(r.clone()).add_expected_product(r.clone());
                insp = insp.add_expected_material(r.clone());
            }
            out.push((format!("rule-list:{n}"), world::layout(vec![st], vec![insp], &[], world::far_future())));
        }
    }
    // several steps and inspections
    out.push(("multi".into(), world::layout(vec![Step::new("a"), Step::new("b"), Step::new("a")], vec![Inspection::new("a"), Inspection::new("")], &[kk[0]], world::far_future())));
    out
}

fn class_of(name: &str) -> String {
    name.split([':', '#', '=']).next().unwrap_or("").to_string()
}

/// Value leg for any serde type.
fn write_with<T: Serialize>(style: &str, v: &T) -> Result<String, String> {
    use in_toto::interchange::{DataInterchange, Json, JsonPretty};
    match style {
        "compact" => serde_json::to_string(v).map_err(|e| e.to_string()),
        "pretty" => serde_json::to_string_pretty(v).map_err(|e| e.to_string()),
        "Json::to_writer" => {
            let mut b = vec![];
            Json::to_writer(&mut b, v).map_err(|e| format!("{e:?}"))?;
            String::from_utf8(b).map_err(|e| e.to_string())
        }
        _ => {
            let mut b = vec![];
            JsonPretty::to_writer(&mut b, v).map_err(|e| format!("{e:?}"))?;
            String::from_utf8(b).map_err(|e| e.to_string())
        }
    }
}

fn value_roundtrip<T: Serialize + DeserializeOwned + PartialEq>(acc: &mut Acc, typ: &str, name: &str, v: &T) {
    for style in ["compact", "pretty", "Json::to_writer", "JsonPretty::to_writer"] {
        let ser = match guard(|| write_with(style, v)) {
            Guard::Done(r) => r,
            Guard::Panicked(l, m) => Err(format!("PANIC {l}: {m}")),
        };
        acc.evaluations += 1;
        let witness = |txt: &str| json!({"kind": "value", "type": typ, "value": name, "style": style, "serialized": txt});
        let txt = match ser {
            Ok(t) => t,
            Err(e) => {
                acc.violation(&format!("cannot-serialize:{typ}:{}", class_of(name)), &format!("serialization fails: {e}"), || witness(""));
                continue;
            }
        };
        let back: T = match guard(|| serde_json::from_str::<T>(&txt)) {
            Guard::Done(Ok(b)) => b,
            Guard::Done(Err(e)) => {
                acc.outcome("own-output-rejected");
                let key = if name.contains("other-field-named") { "byproducts-reserved-key:own-output-rejected".to_string() } else { format!("own-output-rejected:{typ}:{}", class_of(name)) };
                acc.violation(&key, &format!("the library cannot parse its own {style} output: {e}"), || witness(&txt));
                continue;
            }
            Guard::Panicked(l, m) => {
                acc.violation(&format!("panic:{l}"), &m, || witness(&txt));
                continue;
            }
        };
        if &back != v {
            acc.outcome("value-changed");
            let key = if name.contains("other-field-named") { "byproducts-reserved-key:value-changed".to_string() } else { format!("value-changed:{typ}:{}", class_of(name)) };
            acc.violation(&key, "parse(serialize(v)) differs from v", || witness(&txt));
            continue;
        }
        let again = write_with(style, &back);
        match again {
            Ok(t2) if t2 == txt => acc.outcome("roundtrip-identical"),
            Ok(t2) => {
                acc.outcome("bytes-differ");
                let key = if name.contains("sha256+sha512") || name.contains("sha256+unknown") || name.contains("sha256+mixed-case") { format!("digest-map-order-unstable:{typ}") } else { format!("bytes-differ:{typ}:{}", class_of(name)) };
                acc.violation(&key, "serialize(parse(serialize(v))) is not byte-identical to serialize(v)", || {
                    let mut w = witness(&txt);
                    w["second"] = json!(t2);
                    w
                });
            }
            Err(e) => acc.violation(&format!("cannot-serialize:{typ}:{}", class_of(name)), &format!("{e}"), || witness(&txt)),
        }
    }
}

/// `MetadataWrapper::to_bytes` read back by `try_from_bytes`, `from_bytes` and
/// `MetablockBuilder::from_raw_metadata`.
fn bytes_roundtrip(acc: &mut Acc, name: &str, v: &MetadataWrapper) {
    use in_toto::models::{MetablockBuilder, MetadataType};
    acc.evaluations += 1;
    let witness = |how: &str| json!({"kind": "bytes", "value": name, "reader": how});
    let bytes = match guard(|| v.to_bytes()) {
        Guard::Done(Ok(b)) => b,
        Guard::Done(Err(e)) => {
            acc.violation(&format!("cannot-serialize:MetadataWrapper::to_bytes:{}", class_of(name)), &format!("to_bytes fails: {e:?}"), || witness("-"));
            return;
        }
        Guard::Panicked(l, m) => {
            acc.violation(&format!("panic:{l}"), &m, || witness("-"));
            return;
        }
    };
    let typ = if matches!(v, MetadataWrapper::Layout(_)) { MetadataType::Layout } else { MetadataType::Link };
    let readers: Vec<(&str, Guard<Option<MetadataWrapper>>)> = vec![
        ("try_from_bytes", guard(|| MetadataWrapper::try_from_bytes(&bytes).ok())),
        ("from_bytes", guard(|| MetadataWrapper::from_bytes(&bytes, typ).ok())),
        ("MetablockBuilder::from_raw_metadata", guard(|| MetablockBuilder::from_raw_metadata(&bytes).ok().map(|b| b.build().metadata))),
    ];
    for (how, r) in readers {
        match r {
            Guard::Done(Some(back)) if &back == v => {
                if back.to_bytes().ok().as_ref() != Some(&bytes) {
                    acc.violation(&format!("bytes-differ:to_bytes:{}", class_of(name)), "to_bytes of the re-read value differs", || witness(how));
                } else {
                    acc.outcome("roundtrip-identical");
                }
            }
            Guard::Done(Some(_)) => acc.violation(&format!("value-changed:to_bytes/{how}:{}", class_of(name)), "reading back the library's own byte form gives a different value", || witness(how)),
            Guard::Done(None) => acc.violation(&format!("own-output-rejected:to_bytes/{how}:{}", class_of(name)), "the library cannot read its own byte form", || witness(how)),
            Guard::Panicked(l, m) => acc.violation(&format!("panic:{l}"), &m, || witness(how)),
        }
    }
}

/// Sampled dimension: the order of a two-algorithm digest map depends on the
/// hash seed of a std HashMap inside a public type.
fn digest_order_sampled(acc: &mut Acc) -> usize {
    let l = LinkMetadataBuilder::new().name("l".into()).products([(world::vpath("p"), world::desc2(1))].into_iter().collect()).build().unwrap();
    let txt = serde_json::to_string(&l).unwrap();
    let mut distinct = std::collections::BTreeSet::new();
    for _ in 0..64 {
        let back: LinkMetadata = serde_json::from_str(&txt).unwrap();
        distinct.insert(serde_json::to_string(&back).unwrap());
        acc.evaluations += 1;
    }
    if distinct.len() > 1 {
        acc.violation("digest-map-order-unstable:link", "a link whose artifact has two digest algorithms re-serialises with the algorithms in varying order (64 fresh parses give different byte strings)", || json!({"kind": "sampled-digest-order", "serialized": txt, "distinct": distinct}));
    }
    distinct.len()
}

// ---------------------------------------------------------------- text leg

/// Listed fields of a link / layout document, for comparison between the input
/// text and the re-serialised parse result.
/// A PEM text is the armoured block; what stands before or after it is not part of the key.
fn armoured(public: &Value) -> Value {
    let Some(t) = public.as_str() else { return public.clone() };
    match (t.find("-----BEGIN"), t.rfind("-----END")) {
        (Some(a), Some(b)) if a < b => {
            let end = t[b + 8..].find("-----").map(|i| b + 8 + i + 5).unwrap_or(t.len());
            json!(t[a..end].split_whitespace().collect::<Vec<_>>().join("\n"))
        }
        _ => public.clone(),
    }
}

/// The armoured block of a PEM text in the line layout the key id is computed over.
fn canonical_pem(t: &str) -> String {
    match (t.find("-----BEGIN"), t.rfind("-----END")) {
        (Some(a), Some(b)) if a < b => {
            let end = t[b + 8..].find("-----").map(|i| b + 8 + i + 5).unwrap_or(t.len());
            t[a..end].to_string()
        }
        _ => t.to_string(),
    }
}

fn listed_fields(signed: &Value) -> Value {
    let typ = signed["_type"].as_str().unwrap_or("");
    if typ == "link" || signed.get("materials").is_some() {
        // an optional member that is null is an absent one
        let mut by = signed["byproducts"].clone();
        if let Some(o) = by.as_object_mut() {
            o.retain(|_, v| !v.is_null());
        }
        json!({
            "name": signed["name"], "command": signed["command"], "materials": signed["materials"], "products": signed["products"],
            "environment": signed.get("environment").cloned().unwrap_or(Value::Null), "byproducts": by,
        })
    } else {
        let items = |arr: &Value, cmd: &str| -> Vec<Value> {
            arr.as_array().cloned().unwrap_or_default().iter().map(|s| json!({
                "name": s["name"], "threshold": s.get("threshold").cloned().unwrap_or(Value::Null), "pubkeys": s.get("pubkeys").cloned().unwrap_or(Value::Null),
                "command": s[cmd], "expected_materials": s["expected_materials"], "expected_products": s["expected_products"],
            })).collect()
        };
        // an entry filed under an identifier that is not its key's own is dropped on reading (C12):
        // only properly filed entries (by the reference preimage hash) are expected to reappear
        let properly_filed = |label: &str, v: &Value| -> bool {
            let algs: Option<Vec<&str>> = v.get("keyid_hash_algorithms").and_then(|a| a.as_array()).map(|a| a.iter().filter_map(|x| x.as_str()).collect());
            match (v["keytype"].as_str(), v["scheme"].as_str(), v["keyval"]["public"].as_str()) {
                (Some(kt), Some(sc), Some(pb)) => crate::olpc::keyid(kt, sc, algs.as_deref(), pb) == label || armoured(&json!(pb)) == armoured(&json!(pb.trim())) && pb.contains("-----BEGIN") && crate::olpc::keyid(kt, sc, algs.as_deref(), &canonical_pem(pb)) == label,
                _ => true,
            }
        };
        let keys: BTreeMap<String, Value> = signed["keys"].as_object().cloned().unwrap_or_default().into_iter().filter(|(k, v)| properly_filed(k, v)).map(|(k, v)| (k, json!({"keytype": v["keytype"], "scheme": v["scheme"], "public": armoured(&v["keyval"]["public"]), "keyid_hash_algorithms": v.get("keyid_hash_algorithms").cloned().unwrap_or(Value::Null)}))).collect();
        json!({"readme": signed["readme"], "steps": items(&signed["steps"], "expected_command"), "inspect": items(&signed["inspect"], "run"), "keys": keys})
    }
}

/// Text documents: the serialised value families plus text-only variants.
pub fn documents(thorough: bool) -> Vec<(String, String)> {
    let mut docs = vec![];
    for (n, l) in links(thorough) {
        if n.contains("other-field-named") {
            continue; // the value leg judges those; their own output is not a sensible input document
        }
        docs.push((format!("link/{n}"), serde_json::to_string(&l).unwrap()));
    }
    for (n, l) in layouts(thorough) {
        docs.push((format!("layout/{n}"), serde_json::to_string(&l).unwrap()));
    }
    // text-only variants
    let base_link: Value = serde_json::to_value(&links(false)[0].1).unwrap();
    let mut v = base_link.clone();
    v["unknown"] = json!({"x": [1, 2]});
    docs.push(("link/text:unknown-member".into(), v.to_string()));
    docs.push(("link/text:two-algorithms-order-a".into(), r#"{"_type":"link","name":"l","materials":{},"products":{"p":{"sha256":"00","sha512":"11"}},"environment":null,"byproducts":{},"command":[]}"#.into()));
    docs.push(("link/text:two-algorithms-order-b".into(), r#"{"_type":"link","name":"l","materials":{},"products":{"p":{"sha512":"11","sha256":"00"}},"environment":null,"byproducts":{},"command":[]}"#.into()));
    docs.push(("link/text:missing-environment".into(), r#"{"_type":"link","name":"l","materials":{},"products":{},"byproducts":{},"command":[]}"#.into()));
    docs.push(("link/text:byproducts-typed-only".into(), r#"{"_type":"link","name":"l","materials":{},"products":{},"environment":{},"byproducts":{"return-value":3,"stdout":"o","stderr":"e"},"command":["x"]}"#.into()));
    docs.push(("link/text:byproducts-non-string-extra".into(), r#"{"_type":"link","name":"l","materials":{},"products":{},"environment":{},"byproducts":{"extra":5},"command":[]}"#.into()));
    docs.push(("link/text:uppercase-digest".into(), r#"{"_type":"link","name":"l","materials":{"p":{"sha256":"AB"}},"products":{},"environment":{},"byproducts":{},"command":[]}"#.into()));
    docs.push(("link/text:upper-case-algorithm".into(), r#"{"_type":"link","name":"l","materials":{"p":{"SHA256":"ab"}},"products":{"p":{"sha256":"aa","SHA256":"bb","Sha512":"cc"}},"environment":{},"byproducts":{},"command":[]}"#.into()));
    docs.push(("link/text:unknown-algorithm".into(), r#"{"_type":"link","name":"l","materials":{"p":{"md5":"ab"}},"products":{},"environment":{},"byproducts":{},"command":[]}"#.into()));
    docs.push(("layout/text:threshold-float".into(), r#"{"_type":"layout","expires":"2031-06-01T00:00:00Z","readme":"","keys":{},"inspect":[],"steps":[{"_type":"step","name":"s","threshold":1.0,"expected_materials":[],"expected_products":[],"pubkeys":[],"expected_command":[]}]}"#.into()));
    docs.push(("layout/text:threshold-big".into(), r#"{"_type":"layout","expires":"2031-06-01T00:00:00Z","readme":"","keys":{},"inspect":[],"steps":[{"_type":"step","name":"s","threshold":4294967296,"expected_materials":[],"expected_products":[],"pubkeys":[],"expected_command":[]}]}"#.into()));
    docs.push(("layout/text:rule-lowercase-keyword".into(), r#"{"_type":"layout","expires":"2031-06-01T00:00:00Z","readme":"","keys":{},"inspect":[],"steps":[{"_type":"step","name":"s","threshold":1,"expected_materials":[["create","a"]],"expected_products":[],"pubkeys":[],"expected_command":[]}]}"#.into()));
    docs.push(("layout/text:rule-trailing-token".into(), r#"{"_type":"layout","expires":"2031-06-01T00:00:00Z","readme":"","keys":{},"inspect":[],"steps":[{"_type":"step","name":"s","threshold":1,"expected_materials":[["CREATE","a","extra"]],"expected_products":[],"pubkeys":[],"expected_command":[]}]}"#.into()));
    docs.push(("layout/text:match-trailing-token".into(), r#"{"_type":"layout","expires":"2031-06-01T00:00:00Z","readme":"","keys":{},"inspect":[],"steps":[{"_type":"step","name":"s","threshold":1,"expected_materials":[["MATCH","a","WITH","PRODUCTS","FROM","s","extra"]],"expected_products":[],"pubkeys":[],"expected_command":[]}]}"#.into()));
    docs.push(("layout/text:pubkey-not-hex".into(), format!(r#"{{"_type":"layout","expires":"2031-06-01T00:00:00Z","readme":"","keys":{{}},"inspect":[],"steps":[{{"_type":"step","name":"s","threshold":1,"expected_materials":[],"expected_products":[],"pubkeys":["{}"],"expected_command":[]}}]}}"#, "Z".repeat(64))));
    docs.push(("layout/text:command-string-instead-of-array".into(), r#"{"_type":"layout","expires":"2031-06-01T00:00:00Z","readme":"","keys":{},"inspect":[],"steps":[{"_type":"step","name":"s","threshold":1,"expected_materials":[],"expected_products":[],"pubkeys":[],"expected_command":"a b"}]}"#.into()));
    // every leaf of three links and two layouts x every small edit of `tamper.rs` (strings re-spelled,
    // integers wrapped, null <-> empty, member removed): whatever the parser still accepts must come
    // out again exactly as written
    {
        let a = crate::keys::get("ed1");
        let mut bases: Vec<(String, Value)> = crate::world::sample_links("step").into_iter().map(|(n, l)| (format!("link/{}", n.split(':').next().unwrap_or(n)), serde_json::to_value(&l).unwrap())).collect();
        let lay = crate::world::layout(
            vec![crate::world::step("Build-it", 2, &[a]).expected_command(vec!["make".to_string(), "Out/p".to_string()].into()).add_expected_product(ArtifactRule::Create("out/p".into())).add_expected_material(ArtifactRule::Match { pattern: "src/*".into(), in_src: Some("in/".into()), with: in_toto::models::rule::Artifact::Products, in_dst: Some("Out".into()), from: "fetch".into() })],
            vec![in_toto::models::inspection::Inspection::new("check").run(vec!["sh".to_string(), "-c".to_string(), "true".to_string()].into()).add_expected_product(ArtifactRule::Disallow("keys\\secret".into()))],
            &[a, crate::keys::get("rsa256a")],
            crate::world::far_future(),
        );
        bases.push(("layout/with-everything".into(), serde_json::to_value(&lay).unwrap()));
        for (bn, base) in &bases {
            for e in crate::tamper::edits(base) {
                let mut d = base.clone();
                if crate::tamper::apply(&mut d, &e) {
                    docs.push((format!("{bn}/leaf:{e}"), d.to_string()));
                }
            }
        }
    }
    // every token position of every rule form replaced by: its lower-case spelling, another keyword
    // of the grammar, a foreign word, the empty string; one token dropped; one token doubled.
    // Whatever the parser accepts must come out again exactly as written.
    let layout_with_rule = |rule: &Value| -> String {
        json!({"_type": "layout", "expires": "2031-06-01T00:00:00Z", "readme": "", "keys": {}, "inspect": [{"_type": "inspection", "name": "i", "expected_materials": [rule], "expected_products": [], "run": []}],
               "steps": [{"_type": "step", "name": "s", "threshold": 1, "expected_materials": [], "expected_products": [rule], "pubkeys": [], "expected_command": []}]}).to_string()
    };
    let forms: Vec<Value> = vec![
        json!(["CREATE", "a"]), json!(["DELETE", "a"]), json!(["MODIFY", "a"]), json!(["ALLOW", "a"]), json!(["REQUIRE", "a"]), json!(["DISALLOW", "a"]),
        json!(["MATCH", "a", "WITH", "PRODUCTS", "FROM", "s"]),
        json!(["MATCH", "a", "WITH", "MATERIALS", "FROM", "s"]),
        json!(["MATCH", "a", "IN", "d", "WITH", "PRODUCTS", "FROM", "s"]),
        json!(["MATCH", "a", "WITH", "MATERIALS", "IN", "e", "FROM", "s"]),
        json!(["MATCH", "a", "IN", "d", "WITH", "PRODUCTS", "IN", "e", "FROM", "s"]),
    ];
    let words = ["CREATE", "MATCH", "IN", "WITH", "FROM", "MATERIALS", "PRODUCTS", "OTHER", ""];
    for (fi, form) in forms.iter().enumerate() {
        let toks = form.as_array().unwrap();
        for ti in 0..toks.len() {
            let cur = toks[ti].as_str().unwrap();
            let mut repl: Vec<Value> = words.iter().filter(|w| **w != cur).map(|w| json!(w)).collect();
            repl.push(json!(cur.to_lowercase()));
            repl.push(json!(format!(" {cur}")));
            repl.push(json!(1));
            repl.push(Value::Null);
            for (ri, r) in repl.iter().enumerate() {
                if r.as_str() == Some(cur) {
                    continue;
                }
                let mut t = toks.clone();
                t[ti] = r.clone();
                docs.push((format!("layout/text:rule-form{fi}-token{ti}-replaced{ri}"), layout_with_rule(&Value::Array(t))));
            }
            let mut t = toks.clone();
            t.remove(ti);
            docs.push((format!("layout/text:rule-form{fi}-token{ti}-dropped"), layout_with_rule(&Value::Array(t))));
            let mut t = toks.clone();
            t.insert(ti, toks[ti].clone());
            docs.push((format!("layout/text:rule-form{fi}-token{ti}-doubled"), layout_with_rule(&Value::Array(t))));
        }
    }
    // numbers and members of the wrong shape
    let step_with = |member: &str, v: Value| -> String {
        let mut s = json!({"_type": "step", "name": "s", "threshold": 1, "expected_materials": [], "expected_products": [], "pubkeys": [], "expected_command": []});
        s[member] = v;
        json!({"_type": "layout", "expires": "2031-06-01T00:00:00Z", "readme": "", "keys": {}, "inspect": [], "steps": [s]}).to_string()
    };
    for (n, v) in [("negative", json!(-1)), ("string", json!("1")), ("null", Value::Null), ("u32-max", json!(4294967295u64)), ("u32-max+1", json!(4294967296u64)), ("exp", serde_json::from_str::<Value>("1e0").unwrap()), ("true", json!(true))] {
        docs.push((format!("layout/text:threshold-{n}"), step_with("threshold", v)));
    }
    let link_with_by = |by: Value, env: Value| -> String { json!({"_type": "link", "name": "l", "materials": {}, "products": {}, "environment": env, "byproducts": by, "command": []}).to_string() };
    for (n, by) in [("return-value-string", json!({"return-value": "3"})), ("return-value-2^32", json!({"return-value": 4294967296u64})), ("return-value--2^31-1", json!({"return-value": -2147483649i64})), ("return-value-float", serde_json::from_str::<Value>(r#"{"return-value": 3.0}"#).unwrap()), ("stdout-number", json!({"stdout": 5})), ("stderr-array", json!({"stderr": ["e"]})), ("extra-null", json!({"extra": null})), ("extra-object", json!({"extra": {"a": "b"}}))] {
        docs.push((format!("link/text:byproducts-{n}"), link_with_by(by, json!({}))));
    }
    for (n, env) in [("value-number", json!({"k": 1})), ("value-null", json!({"k": null})), ("array", json!(["k"])), ("string", json!("k=v")), ("nested", json!({"k": {"a": "b"}}))] {
        docs.push((format!("link/text:environment-{n}"), link_with_by(json!({}), env)));
    }
    docs
}

fn text_leg(acc: &mut Acc, name: &str, text: &str) {
    acc.evaluations += 1;
    let input: Value = match serde_json::from_str(text) {
        Ok(v) => v,
        Err(_) => return,
    };
    let parsed = guard(|| serde_json::from_str::<MetadataWrapper>(text));
    let witness = || json!({"kind": "text", "document": name, "text": text});
    match parsed {
        Guard::Panicked(l, m) => acc.violation(&format!("panic:{l}"), &m, witness),
        Guard::Done(Err(_)) => acc.outcome("text-rejected"),
        Guard::Done(Ok(meta)) => {
            acc.outcome("text-accepted");
            acc.accepting += 1;
            let out = serde_json::to_value(&meta).unwrap_or(Value::Null);
            let (a, b) = (listed_fields(&input), listed_fields(&out));
            if a != b {
                let mut diff = vec![];
                if let (Some(ao), Some(bo)) = (a.as_object(), b.as_object()) {
                    for (k, v) in ao {
                        if bo.get(k) != Some(v) {
                            diff.push(k.clone());
                        }
                    }
                }
                // an absent environment member is the same as null
                acc.violation(&format!("accepted-field-altered:{}", diff.join("+")), "a document was accepted but a listed field does not reappear unchanged after parsing", || {
                    let mut w = witness();
                    w["reserialized"] = out.clone();
                    w
                });
            }
        }
    }
}

pub fn run(tier: Tier) -> i32 {
    let mut c = Check::new("C16", "exploration", tier);
    let mut acc = Acc::new();
    let thorough = tier.thorough();
    // rules, steps, inspections as standalone values
    for (i, r) in all_rules().iter().enumerate() {
        value_roundtrip(&mut acc, "ArtifactRule", &format!("rule#{i}"), r);
        acc.nontrivial += 1;
    }
    let ls = links(thorough);
    let las = layouts(thorough);
    for (n, l) in &ls {
        value_roundtrip(&mut acc, "LinkMetadata", n, l);
        value_roundtrip(&mut acc, "MetadataWrapper", n, &MetadataWrapper::Link(l.clone()));
        acc.nontrivial += 1;
    }
    for (n, l) in &las {
        value_roundtrip(&mut acc, "LayoutMetadata", n, l);
        value_roundtrip(&mut acc, "MetadataWrapper", n, &MetadataWrapper::Layout(l.clone()));
        for s in &l.steps {
            value_roundtrip(&mut acc, "Step", n, s);
        }
        for s in &l.inspect {
            value_roundtrip(&mut acc, "Inspection", n, s);
        }
        acc.nontrivial += 1;
    }
    // signed blocks with 0..3 signatures of every key type
    let signer_sets: Vec<Vec<&keys::Key>> = vec![vec![], vec![keys::get("ed1")], vec![keys::get("ec1"), keys::get("rsa256a")], vec![keys::get("ed2"), keys::get("rsa512c"), keys::get("ec2")]];
    for ss in &signer_sets {
        for (n, l) in ls.iter().step_by(if thorough { 5 } else { 23 }) {
            if n.contains("other-field-named") {
                continue;
            }
            value_roundtrip(&mut acc, "Metablock", &format!("{n}/signers={}", ss.len()), &world::sign_link(l.clone(), ss));
        }
        for (n, l) in las.iter().step_by(if thorough { 11 } else { 67 }) {
            value_roundtrip(&mut acc, "Metablock", &format!("{n}/signers={}", ss.len()), &world::sign_layout(l.clone(), ss));
        }
    }
    let _: Option<Metablock> = None;
    // repeated elements in order-preserving collections: one signer twice, one key id twice
    {
        let (k1, k2) = (keys::get("ed1"), keys::get("ec1"));
        let l = ls[0].1.clone();
        for (n, ss) in [("k1,k1", vec![k1, k1]), ("k1,k2,k1", vec![k1, k2, k1]), ("k2,k2", vec![k2, k2]), ("k2,k1", vec![k2, k1]), ("k1,k2", vec![k1, k2])] {
            value_roundtrip(&mut acc, "Metablock", &format!("signers:{n}"), &world::sign_link(l.clone(), &ss));
        }
        for (n, pk) in [("a,a", vec![k1, k1]), ("a,b,a", vec![k1, k2, k1]), ("b,a", vec![k2, k1]), ("a,b", vec![k1, k2])] {
            let st = world::step("s", 1, &pk);
            value_roundtrip(&mut acc, "Step", &format!("pubkeys:{n}"), &st);
            value_roundtrip(&mut acc, "LayoutMetadata", &format!("pubkeys:{n}"), &world::layout(vec![st], vec![], &[k1, k2], world::far_future()));
        }
    }
    // the library's own byte form of a bare metadata value and its two readers
    for (n, l) in ls.iter().step_by(if thorough { 3 } else { 13 }) {
        if n.contains("other-field-named") {
            continue;
        }
        bytes_roundtrip(&mut acc, n, &MetadataWrapper::Link(l.clone()));
    }
    for (n, l) in las.iter().step_by(if thorough { 7 } else { 41 }) {
        bytes_roundtrip(&mut acc, n, &MetadataWrapper::Layout(l.clone()));
    }
    // public keys and signatures
    for k in keys::all() {
        value_roundtrip(&mut acc, "PublicKey", k.name, k.public());
    }
    let distinct_orders = digest_order_sampled(&mut acc);
    c.extra.insert("sampled_dimension".into(), json!({"what": "byte identity of two-algorithm digest maps over 64 fresh parses (hash seed of std::HashMap inside a public type)", "distinct_byte_strings": distinct_orders, "sampled": true}));
    // text leg
    let docs = documents(thorough);
    for (n, t) in &docs {
        text_leg(&mut acc, n, t);
    }
    acc.note_n("text_documents", docs.len() as u64);
    acc.sample(|| json!({"kind": "value", "type": "LinkMetadata", "value": ls[5].0, "serialized": serde_json::to_string(&ls[5].1).unwrap()}));
    acc.sample(|| json!({"kind": "text", "document": docs[docs.len() - 3].0, "text": docs[docs.len() - 3].1}));
    crate::envprobe::judge(&mut acc, "C16:", &mut c.extra);
    c.acc = acc;
    c.rule = "value leg: every ArtifactRule form (6 kinds x 7 patterns incl. keyword-like ones; MATCH x 5 source x 4 destination prefixes x 2 targets x 4 step names), steps/inspections (thresholds 0,1,u32::MAX x 0..2 pubkeys x 3 commands), layouts (all 16 key-table subsets over 4 key types, readme strings, expiry grid 0001..9999), links (0..2 artifacts x 4 digest-map shapes, 4 environments, 4 commands, all byproduct member combinations incl. reserved names as extra members, name strings), signed blocks with 0..3 signatures; each compact and pretty: parse(ser(v)) == v and ser(parse(ser(v))) == ser(v). Text leg: the same documents as text plus text-only variants; accepted documents must reproduce rule arrays, thresholds, digests, key material, commands, byproducts, environment. distinct_nontrivial = rule forms + link values + layout values".into();
    c.bound_completed = format!("complete within the alphabets (strings <= {})", if thorough { 2 } else { 1 });
    c.exhaustive = true;
    c.assume("one dimension is sampled, not enumerated: the iteration order of std::HashMap inside TargetDescription (64 fresh parses); reported under sampled_dimension");
    c.assume("_type members and key ids inside key objects are outside the listed fields (they are normalised)");
    c.finish()
}

pub fn replay(case: &Value) -> Value {
    let mut acc = Acc::new();
    match case["kind"].as_str() {
        Some("text") => text_leg(&mut acc, "replay", case["text"].as_str().unwrap_or("")),
        Some("sampled-digest-order") => {
            digest_order_sampled(&mut acc);
        }
        Some("value") => {
            let name = case["value"].as_str().unwrap_or("");
            for (n, l) in links(true) {
                if n == name {
                    value_roundtrip(&mut acc, "LinkMetadata", &n, &l);
                }
            }
            for (n, l) in layouts(true) {
                if n == name {
                    value_roundtrip(&mut acc, "LayoutMetadata", &n, &l);
                }
            }
            if let Some(i) = name.strip_prefix("rule#").and_then(|s| s.parse::<usize>().ok()) {
                if let Some(r) = all_rules().get(i) {
                    value_roundtrip(&mut acc, "ArtifactRule", name, r);
                }
            }
        }
        _ => {}
    }
    json!({"violation": acc.violations.keys().next()})
}
