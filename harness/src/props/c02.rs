//! C02 — links count for a step only if signed by a functionary authorized for it.
//!
//! E1: explicit-state BFS over populations of the link directory. A state is a
//! vector of cells, one per (step, functionary key); a transition sets one cell.
//! Every state is executed on the real `in_toto_verify` for every
//! (authorised-key subset, threshold) layout and compared with the counting
//! model of the statement (one-directional: Ok => enough counting keys).

use std::collections::{BTreeSet, HashSet, VecDeque};
use std::path::Path;

use in_toto::models::Metablock;
use serde_json::{json, Value};

use crate::keys::{self, Key};
use crate::report::{Acc, Check, Tier};
use crate::util;
use crate::world::{self, Verdict};

/// One file of the link directory, `<step>.<prefix of f>.link`.
#[derive(Clone, Copy, PartialEq, Eq, Hash, Debug, PartialOrd, Ord)]
pub enum Cell {
    Absent,
    /// content altered after signing (signed by f)
    T,
    /// a (zero-step) sub-layout signed by f instead of a link
    L,
    /// not JSON
    G,
    /// a link over the base content carrying one or two signature entries
    /// (second = 5 means "none"); entry kinds are indices into ENTRY
    Sigs(u8, u8),
}

/// Signature-entry alphabet, relative to the key f the file is named for:
/// own-valid, own-invalid (f's id, signature over other content), other-valid
/// (another functionary g), other-invalid, unrelated-valid (a key outside the layout).
pub const ENTRY: [&str; 5] = ["own-valid", "own-invalid", "other-valid", "other-invalid", "unrelated-valid"];

pub fn cells() -> Vec<Cell> {
    let mut v = vec![Cell::Absent, Cell::T, Cell::L, Cell::G];
    for a in 0..5u8 {
        v.push(Cell::Sigs(a, 5));
    }
    for a in 0..5u8 {
        for b in 0..5u8 {
            v.push(Cell::Sigs(a, b));
        }
    }
    v
}

pub const V: Cell = Cell::Sigs(0, 5);

impl Cell {
    fn name(&self) -> String {
        match self {
            Cell::Absent => "absent".into(),
            Cell::T => "tampered".into(),
            Cell::L => "sublayout".into(),
            Cell::G => "garbage".into(),
            Cell::Sigs(a, 5) => format!("link[{}]", ENTRY[*a as usize]),
            Cell::Sigs(a, b) => format!("link[{},{}]", ENTRY[*a as usize], ENTRY[*b as usize]),
        }
    }
    fn from_name(s: &str) -> Cell {
        cells().into_iter().find(|c| c.name() == s).unwrap_or(Cell::Absent)
    }
    /// Does this file carry a valid signature by the key it is filed under?
    fn valid_evidence(&self) -> bool {
        match self {
            Cell::L => true,
            Cell::Sigs(a, b) => *a == 0 || *b == 0,
            _ => false,
        }
    }
    fn has_invalid_own(&self) -> bool {
        matches!(self, Cell::Sigs(a, b) if *a == 1 || *b == 1)
    }
    fn only_foreign(&self) -> bool {
        matches!(self, Cell::Sigs(a, b) if *a >= 2 && (*b >= 2))
    }
}

/// Functionaries: A, B in the key table; C absent from it; D in the table.
fn functionaries() -> [&'static Key; 4] {
    [keys::get("ed1"), keys::get("ed2"), keys::get("ed3"), keys::get("ed4")]
}
const FN_NAMES: [&str; 4] = ["A", "B", "C", "D"];
const IN_TABLE: [bool; 4] = [true, true, false, true];

fn other(i: usize) -> usize {
    if i == 0 {
        1
    } else {
        0
    }
}

fn base_link(step: &str) -> in_toto::models::LinkMetadata {
    world::link(step, world::arts(&[("m", 1)]), world::arts(&[("p", 2)]))
}

/// File content for (step, functionary i, cell).
fn cell_content(step: &str, i: usize, cell: Cell) -> Option<String> {
    let f = functionaries();
    let k = f[i];
    let g = f[other(i)];
    let x = keys::get("ed5");
    match cell {
        Cell::Absent => None,
        Cell::T => {
            let mut v = world::block_value(&world::sign_link(base_link(step), &[k]));
            v["signed"]["byproducts"]["stdout"] = json!("altered");
            Some(v.to_string())
        }
        Cell::L => {
            let inner = world::layout(vec![], vec![], &[], world::far_future());
            Some(world::block_text(&world::sign_layout(inner, &[k])))
        }
        Cell::G => Some("{ this is not json".to_string()),
        Cell::Sigs(a, b) => {
            let mut otherl = base_link(step);
            otherl.command = vec!["other".to_string()].into();
            let entry = |e: u8| -> Value {
                let (key, valid) = match e {
                    0 => (k, true),
                    1 => (k, false),
                    2 => (g, true),
                    3 => (g, false),
                    _ => (x, true),
                };
                let content = if valid { base_link(step) } else { otherl.clone() };
                world::block_value(&world::sign_link(content, &[key]))["signatures"][0].clone()
            };
            let mut v = world::block_value(&world::sign_link(base_link(step), &[]));
            let mut sigs = vec![entry(a)];
            if b < 5 {
                sigs.push(entry(b));
            }
            v["signatures"] = Value::Array(sigs);
            Some(v.to_string())
        }
    }
}

#[derive(Clone, Debug, PartialEq, Eq, Hash, PartialOrd, Ord)]
pub struct State {
    /// cells[step][functionary]
    pub cells: Vec<[Cell; 4]>,
}

#[derive(Clone, Debug)]
pub struct LayoutSpec {
    /// per step: bitmask over functionaries of authorised keys, threshold
    pub steps: Vec<(u8, u32)>,
}

fn step_name(i: usize) -> String {
    format!("s{i}")
}

fn build_layout(spec: &LayoutSpec) -> Metablock {
    let f = functionaries();
    let owner = keys::get("ed6");
    let steps = spec
        .steps
        .iter()
        .enumerate()
        .map(|(si, (mask, thr))| {
            let pk: Vec<&Key> = (0..4).filter(|i| mask & (1 << i) != 0).map(|i| f[i]).collect();
            world::step(&step_name(si), *thr, &pk)
        })
        .collect();
    let table: Vec<&Key> = (0..4).filter(|i| IN_TABLE[*i]).map(|i| f[i]).collect();
    world::sign_layout(world::layout(steps, vec![], &table, world::far_future()), &[owner])
}

/// The statement's counting model.
fn counting(spec: &LayoutSpec, st: &State, step: usize) -> Vec<usize> {
    let (mask, _) = spec.steps[step];
    (0..4)
        .filter(|&i| mask & (1 << i) != 0 && IN_TABLE[i] && st.cells[step][i].valid_evidence())
        .collect()
}

fn model_accepts(spec: &LayoutSpec, st: &State) -> bool {
    (0..spec.steps.len()).all(|s| counting(spec, st, s).len() as u32 >= spec.steps[s].1.max(1))
}

fn populate(dir: &Path, st: &State, contents: &[Vec<Vec<Option<String>>>]) {
    // contents[step][functionary][cell index]
    for e in std::fs::read_dir(dir).unwrap().flatten() {
        let _ = std::fs::remove_file(e.path());
    }
    let f = functionaries();
    for (si, row) in st.cells.iter().enumerate() {
        for (i, c) in row.iter().enumerate() {
            let ci = cell_index(*c);
            if let Some(txt) = &contents[si][i][ci] {
                world::write(dir, &world::link_file(&step_name(si), f[i]), txt);
            }
        }
    }
}

fn cell_index(c: Cell) -> usize {
    match c {
        Cell::Absent => 0,
        Cell::T => 1,
        Cell::L => 2,
        Cell::G => 3,
        Cell::Sigs(a, 5) => 4 + a as usize,
        Cell::Sigs(a, b) => 9 + 5 * a as usize + b as usize,
    }
}

fn execute(dir: &Path, layout: &Metablock) -> Verdict {
    // the requested summary name is a public parameter that must not matter: alternate it
    thread_local!(static FLIP: std::cell::Cell<u8> = const { std::cell::Cell::new(0) });
    let n = FLIP.with(|f| {
        f.set(f.get().wrapping_add(1));
        f.get()
    });
    let name = match n % 3 {
        0 => None,
        1 => Some("final-product"),
        _ => Some(""),
    };
    world::verify_named(layout, world::owner_map(&[keys::get("ed6")]), dir, name)
}

fn reasons(spec: &LayoutSpec, st: &State) -> String {
    let mut rs = BTreeSet::new();
    let mut any = false;
    for (si, row) in st.cells.iter().enumerate() {
        let (mask, _) = spec.steps[si];
        for (i, c) in row.iter().enumerate() {
            if *c == Cell::Absent {
                continue;
            }
            any = true;
            let authorised = mask & (1 << i) != 0;
            if authorised && IN_TABLE[i] && c.valid_evidence() {
                continue; // this one legitimately counts
            }
            if !authorised {
                rs.insert(if IN_TABLE[i] { "unauthorized-for-step" } else { "unauthorized-and-not-in-keytable" });
            } else if !IN_TABLE[i] {
                rs.insert("not-in-keytable");
            }
            if c.has_invalid_own() {
                rs.insert("bad-signature");
            }
            if c.only_foreign() {
                rs.insert("prefix-mismatch");
            }
            match c {
                Cell::T => {
                    rs.insert("tampered");
                }
                Cell::G => {
                    rs.insert("garbage");
                }
                _ => {}
            }
        }
    }
    if !any {
        return "nothing".into();
    }
    if rs.is_empty() {
        return "too-few-counting-keys".into();
    }
    rs.into_iter().collect::<Vec<_>>().join("+")
}

fn state_json(spec: &LayoutSpec, st: &State) -> Value {
    json!({
        "steps": spec.steps.iter().enumerate().map(|(si, (mask, thr))| json!({
            "name": step_name(si),
            "threshold": thr,
            "pubkeys": (0..4).filter(|i| mask & (1 << i) != 0).map(|i| FN_NAMES[i]).collect::<Vec<_>>(),
            "cells": (0..4).map(|i| json!({FN_NAMES[i]: st.cells[si][i].name()})).collect::<Vec<_>>(),
        })).collect::<Vec<_>>(),
        "key_table": ["A", "B", "D"],
    })
}

/// Greedy shrink: set cells to absent while the case still violates.
fn shrink(
    dir: &Path,
    spec: &LayoutSpec,
    layout: &Metablock,
    st: &State,
    contents: &[Vec<Vec<Option<String>>>],
) -> State {
    let mut cur = st.clone();
    loop {
        let mut changed = false;
        for si in 0..cur.cells.len() {
            for i in 0..4 {
                if cur.cells[si][i] == Cell::Absent {
                    continue;
                }
                let mut t = cur.clone();
                t.cells[si][i] = Cell::Absent;
                if model_accepts(spec, &t) {
                    continue;
                }
                populate(dir, &t, contents);
                if execute(dir, layout).is_ok() {
                    cur = t;
                    changed = true;
                }
            }
        }
        if !changed {
            return cur;
        }
    }
}

fn bfs(n_steps: usize, depth: usize) -> (Vec<State>, u64) {
    let empty = State { cells: vec![[Cell::Absent; 4]; n_steps] };
    let full = State { cells: vec![[V; 4]; n_steps] };
    let mut seen: HashSet<State> = HashSet::new();
    let mut order = vec![];
    let mut q = VecDeque::new();
    for s in [empty, full] {
        if seen.insert(s.clone()) {
            order.push(s.clone());
            q.push_back((s, 0usize));
        }
    }
    let mut transitions = 0u64;
    while let Some((s, d)) = q.pop_front() {
        if d >= depth {
            continue;
        }
        for si in 0..n_steps {
            for i in 0..4 {
                for c in cells() {
                    if s.cells[si][i] == c {
                        continue;
                    }
                    transitions += 1;
                    let mut t = s.clone();
                    t.cells[si][i] = c;
                    if seen.insert(t.clone()) {
                        order.push(t.clone());
                        q.push_back((t, d + 1));
                    }
                }
            }
        }
    }
    (order, transitions)
}

fn contents_for(n_steps: usize) -> Vec<Vec<Vec<Option<String>>>> {
    (0..n_steps)
        .map(|si| {
            (0..4)
                .map(|i| cells().iter().map(|c| cell_content(&step_name(si), i, *c)).collect())
                .collect()
        })
        .collect()
}

fn sweep(states: &[State], specs: &[LayoutSpec], n_steps: usize) -> Acc {
    let contents = contents_for(n_steps);
    let layouts: Vec<Metablock> = specs.iter().map(build_layout).collect();
    let accs = util::par_fold(
        states,
        || (Acc::new(), util::fresh_dir("c02")),
        |(acc, dir), _i, st| {
            populate(dir, st, &contents);
            let nonvalid = st
                .cells
                .iter()
                .flatten()
                .any(|c| *c != Cell::Absent && *c != V);
            if nonvalid {
                acc.nontrivial += 1;
            }
            let mut dirty = false;
            for (spec, layout) in specs.iter().zip(&layouts) {
                if dirty {
                    populate(dir, st, &contents);
                    dirty = false;
                }
                acc.evaluations += 1;
                acc.traces += 1;
                let v = execute(dir, layout);
                let model = model_accepts(spec, st);
                acc.outcome(&format!("impl-{}/model-{}", v.tag(), if model { "accept" } else { "reject" }));
                if acc.evaluations % 50_000 == 1 {
                    acc.sample(|| state_json(spec, st));
                }
                match &v {
                    Verdict::Ok(_) => {
                        acc.accepting += 1;
                        if !model {
                            let small = shrink(dir, spec, layout, st, &contents);
                            dirty = true;
                            let key = format!("counted:{}", reasons(spec, &small));
                            acc.violation(
                                &key,
                                &format!("verification succeeded although fewer than max(1, threshold) authorised key-table keys validly signed the evidence of a step; evidence that must not count: {}", reasons(spec, &small)),
                                || state_json(spec, &small),
                            );
                        }
                    }
                    Verdict::Err(_) => {}
                    Verdict::Panic(l, m) => acc.violation(
                        &format!("panic:{l}"),
                        &format!("verification panicked at {l}: {m}"),
                        || state_json(spec, st),
                    ),
                }
            }
        },
    );
    Acc::merge_all(accs.into_iter().map(|(a, _)| a).collect())
}

/// Legs outside the cell grid: (1) evidence stored under file names whose 8-character slot is not the
/// key-id prefix of any signature in the file; (2) authorised-key lists with repeated ids; (3) one
/// key listed under two ids (same material, with and without a hash-algorithm list). In all of them
/// the number of distinct authorised keys with valid evidence is known by construction.
fn extra_legs(acc: &mut Acc) {
    use in_toto::crypto::{KeyId, PublicKey};
    use std::str::FromStr;
    let f = functionaries();
    let (a, b) = (f[0], f[1]);
    let owner = keys::get("ed6");
    let dir = util::fresh_dir("c02x");
    let clear = |dir: &Path| {
        for e in std::fs::read_dir(dir).unwrap().flatten() {
            let _ = std::fs::remove_file(e.path());
        }
    };
    let link_by = |k: &Key| world::block_text(&world::sign_link(base_link("s0"), &[k]));
    let id_of = |k: &PublicKey| serde_json::to_value(k.key_id()).unwrap().as_str().unwrap().to_string();
    // ---- (1) misfiled evidence
    let pa = a.prefix();
    let slots: Vec<(String, String)> = vec![
        ("eight-dots".into(), "........".into()),
        ("dots+partial-prefix".into(), format!(".....{}", &pa[..3])),
        ("partial-prefix+.link".into(), format!("{}.link", &pa[..3])),
        ("prefix-upper-case".into(), pa.to_uppercase()),
        ("prefix-of-another-functionary".into(), b.prefix()),
        ("prefix-shifted".into(), format!(".{}", &pa[..7])),
        ("prefix-last-char-changed".into(), format!("{}{}", &pa[..7], if pa.ends_with('0') { '1' } else { '0' })),
        ("spaces".into(), "        ".into()),
        ("zeros".into(), "00000000".into()),
    ];
    for with_proper_b in [false, true] {
        for (sname, slot) in &slots {
            if sname == "prefix-upper-case" && pa.to_uppercase() == pa {
                continue;
            }
            if with_proper_b && sname == "prefix-of-another-functionary" {
                continue;
            }
            for thr in [1u32, 2] {
                clear(&dir);
                world::write(&dir, &format!("s0.{slot}.link"), &link_by(a));
                if with_proper_b {
                    world::write(&dir, &world::link_file("s0", b), &link_by(b));
                }
                let counting = if with_proper_b { 1 } else { 0 };
                let lay = world::sign_layout(world::layout(vec![world::step("s0", thr, &[a, b])], vec![], &[a, b], world::far_future()), &[owner]);
                acc.evaluations += 1;
                acc.traces += 1;
                acc.nontrivial += 1;
                acc.states += 1;
                let v = world::verify(&lay, world::owner_map(&[owner]), &dir);
                let must_reject = counting < thr.max(1);
                acc.outcome(&format!("impl-{}/model-{}", v.tag(), if must_reject { "reject" } else { "accept" }));
                let w = || json!({"kind": "misfiled", "file_name": format!("s0.{slot}.link"), "signed_by": "A", "proper_link_of_B_present": with_proper_b, "threshold": thr, "pubkeys": ["A", "B"]});
                match &v {
                    Verdict::Ok(_) if must_reject => acc.violation(&format!("counted:misfiled-name:{sname}"), &format!("a link signed by A but stored as s0.{slot}.link (no signature in it carries that prefix) counted towards the threshold"), w),
                    Verdict::Panic(l, m) => acc.violation(&format!("panic:{l}"), &format!("verification panicked at {l}: {m}"), w),
                    _ => {}
                }
            }
        }
    }
    // ---- (2) repeated ids in the authorised list
    for (pk, present, thr) in [
        (vec![0usize, 0], vec![0usize], 2u32),
        (vec![0, 0], vec![0], 1),
        (vec![0, 0, 1], vec![0], 2),
        (vec![0, 0, 1], vec![0, 1], 3),
        (vec![0, 0, 1], vec![0, 1], 2),
        (vec![0, 1, 0], vec![0], 2),
        (vec![1, 0, 0], vec![0], 2),
        (vec![0, 0, 0], vec![0], 3),
        (vec![0, 0, 0], vec![0], 2),
    ] {
        clear(&dir);
        for i in &present {
            world::write(&dir, &world::link_file("s0", f[*i]), &link_by(f[*i]));
        }
        let keys_list: Vec<&Key> = pk.iter().map(|i| f[*i]).collect();
        let lay = world::sign_layout(world::layout(vec![world::step("s0", thr, &keys_list)], vec![], &[a, b], world::far_future()), &[owner]);
        let distinct: BTreeSet<usize> = pk.iter().copied().filter(|i| present.contains(i)).collect();
        let must_reject = (distinct.len() as u32) < thr.max(1);
        acc.evaluations += 1;
        acc.traces += 1;
        acc.nontrivial += 1;
        acc.states += 1;
        let v = world::verify(&lay, world::owner_map(&[owner]), &dir);
        acc.outcome(&format!("impl-{}/model-{}", v.tag(), if must_reject { "reject" } else { "accept" }));
        let w = || json!({"kind": "repeated-pubkeys", "pubkeys": pk.iter().map(|i| FN_NAMES[*i]).collect::<Vec<_>>(), "links_present": present.iter().map(|i| FN_NAMES[*i]).collect::<Vec<_>>(), "threshold": thr});
        match &v {
            Verdict::Ok(_) if must_reject => acc.violation("counted:key-listed-twice", "a key id listed twice among the authorised keys of a step counted twice towards the threshold", w),
            Verdict::Panic(l, m) => acc.violation(&format!("panic:{l}"), &format!("verification panicked at {l}: {m}"), w),
            _ => {}
        }
    }
    // ---- (2b) one step name twice: every occurrence has its own authorised keys and threshold
    for (first, second, present) in [
        (vec![0usize], vec![1usize], vec![0usize]),
        (vec![1], vec![0], vec![0]),
        (vec![0], vec![1], vec![1]),
        (vec![0], vec![0, 1], vec![0]),
        (vec![0], vec![1], vec![0, 1]),
        (vec![0], vec![0], vec![0]),
    ] {
        clear(&dir);
        for i in &present {
            world::write(&dir, &world::link_file("s0", f[*i]), &link_by(f[*i]));
        }
        let k1: Vec<&Key> = first.iter().map(|i| f[*i]).collect();
        let k2: Vec<&Key> = second.iter().map(|i| f[*i]).collect();
        let t2 = second.len() as u32;
        let lay = world::sign_layout(world::layout(vec![world::step("s0", 1, &k1), world::step("s0", t2, &k2)], vec![], &[a, b], world::far_future()), &[owner]);
        let ok1 = first.iter().any(|i| present.contains(i));
        let ok2 = second.iter().filter(|i| present.contains(i)).count() as u32 >= t2.max(1);
        let must_reject = !(ok1 && ok2);
        acc.evaluations += 1;
        acc.traces += 1;
        acc.nontrivial += 1;
        acc.states += 1;
        let v = world::verify(&lay, world::owner_map(&[owner]), &dir);
        acc.outcome(&format!("impl-{}/model-{}", v.tag(), if must_reject { "reject" } else { "accept" }));
        let w = || json!({"kind": "step-name-twice", "first_pubkeys": first.iter().map(|i| FN_NAMES[*i]).collect::<Vec<_>>(), "second_pubkeys": second.iter().map(|i| FN_NAMES[*i]).collect::<Vec<_>>(), "second_threshold": t2, "links_present": present.iter().map(|i| FN_NAMES[*i]).collect::<Vec<_>>()});
        match &v {
            Verdict::Ok(_) if must_reject => acc.violation("counted:step-listed-twice", "a layout lists one step name twice; the authorised keys / threshold of one of the two occurrences were not enforced", w),
            Verdict::Panic(l, m) => acc.violation(&format!("panic:{l}"), &format!("verification panicked at {l}: {m}"), w),
            _ => {}
        }
    }
    // ---- (3) one key under two ids: A (hash-algorithm list [sha256, sha512]) and A2 (the same
    // material, no list) are both in the key table and both authorised; A's link exists once under
    // each id (the second is a copy with the key id replaced - nobody needs the private key for that)
    // the same with an RSA functionary declared with both PSS digests; here the key holder signs twice
    {
        let (r1, r2) = (keys::get("rsa256a"), keys::get("rsa512a"));
        for thr in [2u32, 1] {
            clear(&dir);
            world::write(&dir, &world::link_file("s0", r1), &world::block_text(&world::sign_link(base_link("s0"), &[r1])));
            world::write(&dir, &world::link_file("s0", r2), &world::block_text(&world::sign_link(base_link("s0"), &[r2])));
            let lay = world::sign_layout(world::layout(vec![world::step("s0", thr, &[r1, r2])], vec![], &[r1, r2], world::far_future()), &[owner]);
            let must_reject = 1 < thr;
            acc.evaluations += 1;
            acc.traces += 1;
            acc.nontrivial += 1;
            acc.states += 1;
            let v = world::verify(&lay, world::owner_map(&[owner]), &dir);
            acc.outcome(&format!("impl-{}/model-{}", v.tag(), if must_reject { "reject" } else { "accept" }));
            let w = || json!({"kind": "one-key-two-ids", "pubkeys": ["R (rsassa-pss-sha256)", "R2 (the same modulus, rsassa-pss-sha512)"], "links_present": ["R", "R2"], "threshold": thr});
            match &v {
                Verdict::Ok(_) if must_reject => acc.violation("counted:one-key-under-two-ids", "one RSA functionary key that the layout lists under both PSS digests counted twice towards the threshold of a step", w),
                Verdict::Panic(l, m) => acc.violation(&format!("panic:{l}"), &format!("verification panicked at {l}: {m}"), w),
                _ => {}
            }
        }
    }
    let a2 = PublicKey::from_ed25519(a.public().as_bytes().to_vec()).expect("guise");
    let a2_id = id_of(&a2);
    for (with_b, thr) in [(false, 2u32), (true, 3), (true, 2), (false, 1)] {
        clear(&dir);
        world::write(&dir, &world::link_file("s0", a), &link_by(a));
        let mut copy = world::block_value(&world::sign_link(base_link("s0"), &[a]));
        copy["signatures"][0]["keyid"] = json!(a2_id);
        world::write(&dir, &format!("s0.{}.link", &a2_id[..8]), &copy.to_string());
        if with_b {
            world::write(&dir, &world::link_file("s0", b), &link_by(b));
        }
        let st = world::step("s0", thr, &[a, b]).add_key(KeyId::from_str(&a2_id).unwrap());
        let mut l = world::layout(vec![st], vec![], &[a, b], world::far_future());
        l.keys.insert(a2.key_id().clone(), a2.clone());
        let lay = world::sign_layout(l, &[owner]);
        let distinct = if with_b { 2 } else { 1 };
        let must_reject = distinct < thr.max(1);
        acc.evaluations += 1;
        acc.traces += 1;
        acc.nontrivial += 1;
        acc.states += 1;
        let v = world::verify(&lay, world::owner_map(&[owner]), &dir);
        acc.outcome(&format!("impl-{}/model-{}", v.tag(), if must_reject { "reject" } else { "accept" }));
        let w = || json!({"kind": "one-key-two-ids", "pubkeys": ["A", "B", "A2 = A's key material without a hash-algorithm list"], "links_present": if with_b { json!(["A", "A relabelled A2", "B"]) } else { json!(["A", "A relabelled A2"]) }, "threshold": thr});
        match &v {
            Verdict::Ok(_) if must_reject => acc.violation("counted:one-key-under-two-ids", "one functionary key that the layout lists under two key ids (same key material, with and without a hash-algorithm list) counted twice towards the threshold of a step", w),
            Verdict::Panic(l, m) => acc.violation(&format!("panic:{l}"), &format!("verification panicked at {l}: {m}"), w),
            _ => {}
        }
    }
    // ---- (7) a step with threshold 2 whose two functionaries hand in the *same* sub-layout (identical
    // content, each signed with the own key), each with the own sub-directory. Each functionary
    // counts only if the inner step in *his* directory has a valid link by an authorised key.
    {
        let inner_f = keys::get("ed4");
        let outsider = keys::get("ed5");
        let clear_all = |dir: &Path| {
            for e in std::fs::read_dir(dir).unwrap().flatten() {
                let p = e.path();
                if p.is_dir() {
                    let _ = std::fs::remove_dir_all(p);
                } else {
                    let _ = std::fs::remove_file(p);
                }
            }
        };
        let inner = || world::layout(vec![world::step("in", 1, &[inner_f])], vec![], &[inner_f], world::far_future());
        let inner_link = || world::link("in", world::arts(&[("m", 1)]), world::arts(&[("p", 2)]));
        for bad in ["none", "empty", "link-by-a-key-the-sub-layout-does-not-authorise", "link-altered-after-signing", "directory-missing"] {
            for bad_one in 0..2usize {
                clear_all(&dir);
                for (i, fk) in [a, b].iter().enumerate() {
                    world::write(&dir, &world::link_file("s0", fk), &world::block_text(&world::sign_layout(inner(), &[fk])));
                    let sub = dir.join(format!("s0.{}", fk.prefix()));
                    let is_bad = i == bad_one && bad != "none";
                    if is_bad && bad == "directory-missing" {
                        continue;
                    }
                    std::fs::create_dir_all(&sub).unwrap();
                    if is_bad && bad == "empty" {
                        continue;
                    }
                    if is_bad && bad.starts_with("link-by-a-key") {
                        world::write(&sub, &world::link_file("in", outsider), &world::block_text(&world::sign_link(inner_link(), &[outsider])));
                    } else if is_bad && bad == "link-altered-after-signing" {
                        let mut v = world::block_value(&world::sign_link(inner_link(), &[inner_f]));
                        v["signed"]["products"]["p"]["sha256"] = json!(util::hex(&world::h(9)));
                        world::write(&sub, &world::link_file("in", inner_f), &v.to_string());
                    } else {
                        world::write(&sub, &world::link_file("in", inner_f), &world::block_text(&world::sign_link(inner_link(), &[inner_f])));
                    }
                }
                let lay = world::sign_layout(world::layout(vec![world::step("s0", 2, &[a, b])], vec![], &[a, b], world::far_future()), &[owner]);
                acc.evaluations += 1;
                acc.traces += 1;
                acc.nontrivial += 1;
                acc.states += 1;
                let v = world::verify(&lay, world::owner_map(&[owner]), &dir);
                let must_reject = bad != "none";
                acc.outcome(&format!("impl-{}/model-{}", v.tag(), if must_reject { "reject" } else { "accept" }));
                let which = if [a, b][bad_one].id() < [a, b][1 - bad_one].id() { "smaller" } else { "larger" };
                let w = || json!({"kind": "identical-sub-layouts", "threshold": 2, "fault_in_the_directory_of_the_functionary_with_the_key_id": which, "fault": bad});
                match &v {
                    Verdict::Ok(_) if must_reject => acc.violation(&format!("counted:identical-sub-layouts:{bad}"), &format!("two functionaries handed in the same sub-layout; the one with the {which} key id counted towards threshold 2 although the inner step in his own directory has no valid authorised link ({bad})"), w),
                    Verdict::Panic(l, m) => acc.violation(&format!("panic:{l}"), &format!("verification panicked at {l}: {m}"), w),
                    _ => {}
                }
            }
        }
        clear_all(&dir);
    }
    // ---- (6) a validly signed link altered after signing: every leaf of its signed part x every
    // small edit (re-spelled strings, wrapped integers, null <-> empty, member removed), one at a time.
    // Unless the edited file reads back as the very same link, it must not count.
    let lay1 = world::sign_layout(world::layout(vec![world::step("s0", 1, &[a])], vec![], &[a], world::far_future()), &[owner]);
    for (lname, l) in world::sample_links("s0") {
        let original = world::sign_link(l, &[a]);
        let v0 = world::block_value(&original);
        // the unaltered file must count (otherwise the leg decides nothing)
        clear(&dir);
        world::write(&dir, &world::link_file("s0", a), &v0.to_string());
        if !world::verify(&lay1, world::owner_map(&[owner]), &dir).is_ok() {
            acc.violation("altered-leg:unaltered-link-rejected", "the unaltered link of the leaf-edit leg does not satisfy its step (machinery or library problem)", || json!({"kind": "altered-after-signing", "link": lname, "edit": null}));
            continue;
        }
        for e in crate::tamper::edits(&v0["signed"]) {
            let mut v = v0.clone();
            if !crate::tamper::apply(&mut v["signed"], &e) {
                continue;
            }
            acc.evaluations += 1;
            acc.traces += 1;
            acc.nontrivial += 1;
            acc.states += 1;
            // "the same link" is decided on the JSON data by a reference table; what the library's
            // reader makes of the edited file is only recorded
            let reads_same = matches!(world::block_from_value(&v), Ok(ref back) if back.metadata == original.metadata);
            let same = crate::tamper::keeps_link_content(&e, &v0["signed"]);
            if reads_same && !same {
                acc.note("edited-link-reads-back-as-the-signed-one(lossy reader)");
            }
            clear(&dir);
            world::write(&dir, &world::link_file("s0", a), &v.to_string());
            let verdict = world::verify(&lay1, world::owner_map(&[owner]), &dir);
            acc.outcome(&format!("altered|{}|{}", if same { "same-content" } else { "differs" }, verdict.tag()));
            let w = || json!({"kind": "altered-after-signing", "link": lname, "edit": e});
            match &verdict {
                Verdict::Ok(_) if !same => acc.violation(&format!("counted:altered-after-signing:{}", crate::tamper::kind_of(&e)), &format!("a link whose signed part was edited after signing ({e}) and no longer reads back as the link that was signed still counted towards its step"), w),
                Verdict::Panic(l, m) => acc.violation(&format!("panic:{l}"), &format!("verification panicked at {l}: {m}"), w),
                _ => {}
            }
        }
    }
}

pub fn run(tier: Tier) -> i32 {
    let mut c = Check::new("C02", "model_checking", tier);
    // one step: all 16 authorised subsets x thresholds 0..3
    let specs1: Vec<LayoutSpec> = (0u8..16)
        .flat_map(|m| (0u32..4).map(move |t| LayoutSpec { steps: vec![(m, t)] }))
        .collect();
    let (states1, tr1) = bfs(1, if tier.thorough() { 3 } else { 2 });
    let mut acc = sweep(&states1, &specs1, 1);
    acc.states += states1.len() as u64;
    acc.transitions += tr1;
    let mut bound = format!("1 step: BFS depth {} from the empty and the fully valid directory = {} populations x 64 layouts", if tier.thorough() { "3" } else { "2" }, states1.len());
    // two steps: D is authorised only for the second step
    let depth2 = if tier.thorough() { 2 } else { 1 };
    let specs2: Vec<LayoutSpec> = {
        let masks: Vec<u8> = if tier.thorough() { (0u8..16).collect() } else { vec![0b0001, 0b0011, 0b0111, 0b1000, 0b1011] };
        masks
            .into_iter()
            .flat_map(|m| {
                let thrs: Vec<u32> = if tier.thorough() { vec![0, 1, 2, 3] } else { vec![1, 2] };
                thrs.into_iter().map(move |t| LayoutSpec { steps: vec![(m, t), (0b1000, 1)] })
            })
            .collect()
    };
    let (states2, tr2) = bfs(2, depth2);
    let a2 = sweep(&states2, &specs2, 2);
    acc.merge(a2);
    acc.states += states2.len() as u64;
    acc.transitions += tr2;
    bound += &format!("; 2 steps: BFS depth {depth2} = {} populations x {} layouts", states2.len(), specs2.len());
    extra_legs(&mut acc);
    bound += "; misfiled evidence: 9 file-name slots x (alone / next to a proper link) x thresholds 1,2; 9 authorised lists with a repeated id; 6 layouts that list one step name twice; one key under two ids x 4 (population, threshold) pairs; two functionaries handing in the same sub-layout, the directory of one of them (either) faulty in 4 ways, threshold 2; altered after signing: 3 links (rich / failed command with empty environment / bare) x every leaf of the signed part x every small edit (strings re-spelled, integers +-1, negated, +2^8..+2^63, -2^32, null <-> empty, member removed)";
    c.acc = acc;
    c.bound_completed = bound;
    c.rule = "state = link-directory population: per (step, functionary in {A,B in key table; C not in key table; D in key table}) one of absent / tampered / sublayout / garbage / a link with one or two signature entries over {own-valid, own-invalid, other-valid, other-invalid, unrelated-valid} in every order (34 cells); transition = set one cell; every state is run through in_toto_verify for every layout (authorised subset x threshold); non-trivial = population with at least one non-valid file".into();
    c.assume("all valid links carry identical artifacts and there are no rules (isolates C07 and C03)");
    c.assume("ring's signature verification is a trusted black box");
    c.assume("one-directional oracle: a verifier that rejects more than necessary is not reported");
    c.finish()
}

pub fn replay(case: &Value) -> Value {
    if case.get("kind").is_some() {
        let mut acc = Acc::new();
        extra_legs(&mut acc);
        return json!({"note": "the small legs are re-run as a whole", "violations": acc.violations.keys().collect::<Vec<_>>(), "violation": acc.violations.keys().next()});
    }
    let steps = case["steps"].as_array().cloned().unwrap_or_default();
    let mut spec = LayoutSpec { steps: vec![] };
    let mut st = State { cells: vec![] };
    for s in &steps {
        let mut mask = 0u8;
        for p in s["pubkeys"].as_array().cloned().unwrap_or_default() {
            if let Some(i) = FN_NAMES.iter().position(|n| Some(*n) == p.as_str()) {
                mask |= 1 << i;
            }
        }
        spec.steps.push((mask, s["threshold"].as_u64().unwrap_or(0) as u32));
        let mut row = [Cell::Absent; 4];
        for (i, cell) in s["cells"].as_array().cloned().unwrap_or_default().iter().enumerate() {
            if let Some(n) = cell[FN_NAMES[i.min(3)]].as_str() {
                row[i.min(3)] = Cell::from_name(n);
            }
        }
        st.cells.push(row);
    }
    let contents = contents_for(spec.steps.len());
    let dir = util::fresh_dir("c02r");
    populate(&dir, &st, &contents);
    let v = execute(&dir, &build_layout(&spec));
    let model = model_accepts(&spec, &st);
    json!({
        "verdict": v.to_json(),
        "model_accepts": model,
        "counting_keys_per_step": (0..spec.steps.len()).map(|s| counting(&spec, &st, s).iter().map(|i| FN_NAMES[*i]).collect::<Vec<_>>()).collect::<Vec<_>>(),
        "violation": if v.is_ok() && !model { json!(format!("counted:{}", reasons(&spec, &st))) } else if matches!(v, Verdict::Panic(..)) { json!("panic") } else { Value::Null },
    })
}
