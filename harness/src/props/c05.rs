//! C05 — any meaningful change to signed content invalidates its signatures.
//!
//! E3. (a) Injectivity: every value of the field alphabets is signed with a
//! fixed Ed25519 key (the signature is a deterministic, collision-free
//! function of the signed bytes); all signatures go into one map and two
//! unequal values with the same signature are a violation; likewise for
//! `Json::canonicalize` over the C10 value grammar. (b) Edits: every
//! single-field edit of a signed document, keeping the signatures, must make
//! `verify` fail, and the inverse edit must make it pass again.

use std::collections::{BTreeMap, HashMap};
use std::str::FromStr;

use in_toto::crypto::KeyId;
use in_toto::interchange::{DataInterchange, Json};
use in_toto::models::byproducts::ByProducts;
use in_toto::models::inspection::Inspection;
use in_toto::models::rule::{Artifact, ArtifactRule};
use in_toto::models::{LinkMetadataBuilder, Metablock, MetadataWrapper};
use serde_json::{json, Value};

use crate::keys::{self, Key};
use crate::props::{c10, c11};
use crate::report::{Acc, Check, Tier};
use crate::util::{self, guard, Guard};
use crate::world;

fn sign_hex(meta: &MetadataWrapper) -> Option<String> {
    let k = keys::get("ed1");
    match guard(|| Metablock::new(meta.clone(), &[&k.private])) {
        Guard::Done(Ok(mb)) => Some(serde_json::to_value(&mb.signatures[0]).unwrap()["sig"].as_str().unwrap().to_string()),
        _ => None,
    }
}

pub const SIGMA_STR: [char; 17] = ['\\', '"', 'n', '\n', 'a', '\t', '\r', '\0', '\u{1f}', '\u{7f}', '/', ' ', 'é', '\u{2028}', '\u{ffff}', '\u{10000}', '\u{1f600}'];

fn link_struct(name: &str, cmd: &[&str], env: Option<&[(&str, &str)]>, mats: &[(&str, u8)], prods: &[(&str, u8)], stdout: Option<&str>, stderr: Option<&str>, ret: Option<i32>) -> MetadataWrapper {
    let mut by = ByProducts::new();
    if let Some(s) = stdout {
        by = by.set_stdout(s.to_string());
    }
    if let Some(s) = stderr {
        by = by.set_stderr(s.to_string());
    }
    if let Some(r) = ret {
        by = by.set_return_value(r);
    }
    MetadataWrapper::Link(
        LinkMetadataBuilder::new()
            .name(name.to_string())
            .command(cmd.iter().map(|s| s.to_string()).collect::<Vec<_>>().into())
            .env(env.map(|e| e.iter().map(|(k, v)| (k.to_string(), v.to_string())).collect::<BTreeMap<_, _>>()))
            .materials(world::arts(mats))
            .products(world::arts(prods))
            .byproducts(by)
            .build()
            .unwrap(),
    )
}

/// The families of values whose signed bytes must be pairwise distinct
/// whenever the values are unequal.
fn value_families(thorough: bool) -> Vec<(String, MetadataWrapper)> {
    let mut out: Vec<(String, MetadataWrapper)> = vec![];
    let crit = c11::crit_strings(if thorough { 4 } else { 3 });
    let sig = util::strings_upto(&SIGMA_STR, if thorough { 2 } else { 1 });
    // every string field
    for f in c11::LINK_FIELDS {
        for s in crit.iter().chain(sig.iter()) {
            out.push((format!("link.{f}={s:?}"), c11::link_with(f, s)));
        }
    }
    for f in c11::LAYOUT_FIELDS {
        for s in crit.iter().chain(sig.iter()) {
            out.push((format!("layout.{f}={s:?}"), c11::layout_with(f, s)));
        }
    }
    // splits of one string across adjacent fields (keys vs values, array boundaries)
    let split_alpha = ['a', '"', ',', ':', '[', ']', '\\', ' '];
    let words = util::strings_upto(&split_alpha, if thorough { 4 } else { 3 });
    for w in &words {
        let chars: Vec<char> = w.chars().collect();
        for i in 0..=chars.len() {
            let (x, y): (String, String) = (chars[..i].iter().collect(), chars[i..].iter().collect());
            out.push((format!("split name|cmd0 {x:?}|{y:?}"), link_struct(&x, &[&y], None, &[], &[], None, None, None)));
            out.push((format!("split cmd0|cmd1 {x:?}|{y:?}"), link_struct("n", &[&x, &y], None, &[], &[], None, None, None)));
            out.push((format!("split envk|envv {x:?}|{y:?}"), link_struct("n", &[], Some(&[(&x, &y)]), &[], &[], None, None, None)));
            out.push((format!("split stdout|stderr {x:?}|{y:?}"), link_struct("n", &[], None, &[], &[], Some(&x), Some(&y), None)));
            out.push((format!("split mat|prod {x:?}|{y:?}"), link_struct("n", &[], None, &[(&format!("m{x}"), 1)], &[(&format!("m{y}"), 1)], None, None, None)));
        }
        out.push((format!("cmd single {w:?}"), link_struct("n", &[w], None, &[], &[], None, None, None)));
    }
    // structural near-collisions
    out.push(("env none".into(), link_struct("n", &[], None, &[], &[], None, None, None)));
    out.push(("env empty".into(), link_struct("n", &[], Some(&[]), &[], &[], None, None, None)));
    out.push(("cmd empty-string".into(), link_struct("n", &[""], None, &[], &[], None, None, None)));
    out.push(("cmd two-empty".into(), link_struct("n", &["", ""], None, &[], &[], None, None, None)));
    for (m, p) in [(&[("a", 1u8)][..], &[][..]), (&[][..], &[("a", 1u8)][..]), (&[("a", 1)][..], &[("a", 1)][..]), (&[("a", 2)][..], &[("a", 1)][..]), (&[("a", 1)][..], &[("a", 2)][..]), (&[("a", 1), ("b", 2)][..], &[][..]), (&[("a", 2), ("b", 1)][..], &[][..])] {
        out.push((format!("artifacts {m:?} {p:?}"), link_struct("n", &[], None, m, p, None, None, None)));
    }
    // artifacts recorded without any digest are still artifacts (their paths are what rules see)
    {
        use in_toto::models::TargetDescription;
        let mk = |m: Vec<(&str, TargetDescription)>, p: Vec<(&str, TargetDescription)>| -> MetadataWrapper {
            MetadataWrapper::Link(
                LinkMetadataBuilder::new()
                    .name("n".into())
                    .materials(m.into_iter().map(|(k, v)| (world::vpath(k), v)).collect())
                    .products(p.into_iter().map(|(k, v)| (world::vpath(k), v)).collect())
                    .build()
                    .unwrap(),
            )
        };
        let e = TargetDescription::new;
        out.push(("artifacts none".into(), mk(vec![], vec![])));
        out.push(("artifacts product a without digests".into(), mk(vec![], vec![("a", e())])));
        out.push(("artifacts product a,b without digests".into(), mk(vec![], vec![("a", e()), ("b", e())])));
        out.push(("artifacts material a without digests".into(), mk(vec![("a", e())], vec![])));
        out.push(("artifacts product a with, b without digests".into(), mk(vec![], vec![("a", world::desc(1)), ("b", e())])));
        out.push(("artifacts product a with digest".into(), mk(vec![], vec![("a", world::desc(1))])));
        out.push(("artifacts product a with two algorithms".into(), mk(vec![], vec![("a", world::desc2(1))])));
    }
    for ret in [None, Some(0), Some(1), Some(-1), Some(i32::MAX), Some(i32::MIN)] {
        for so in [None, Some(""), Some("0")] {
            for se in [None, Some(""), Some("0")] {
                out.push((format!("byproducts {ret:?} {so:?} {se:?}"), link_struct("n", &[], None, &[], &[], so, se, ret)));
            }
        }
    }
    // layout structure
    let (a, b, r) = (keys::get("ed1"), keys::get("ed2"), keys::get("rsa256a"));
    let base_t = world::far_future();
    for thr in [0u32, 1, 2, 10, u32::MAX] {
        for pk in [vec![], vec![a], vec![b], vec![a, b], vec![b, a]] {
            for table in [vec![], vec![a], vec![a, b], vec![a, b, r]] {
                let st = world::step("s", thr, &pk);
                out.push((format!("layout thr={thr} pk={} table={}", pk.len(), table.len()), MetadataWrapper::Layout(world::layout(vec![st], vec![], &table, base_t))));
            }
        }
    }
    for secs in [0i64, 1, 59, 60, 3600, 86400, 86401, 31_536_000] {
        out.push((format!("layout expires+{secs}s"), MetadataWrapper::Layout(world::layout(vec![], vec![], &[], base_t + chrono::Duration::seconds(secs)))));
    }
    // expiry sweep: every day around every turn of the year 1969..2040, every day of two
    // years, every second of the last and first day of a year, every minute of a leap day
    let day = 86_400i64;
    let epoch = chrono::DateTime::parse_from_rfc3339("1970-01-01T00:00:00Z").unwrap().with_timezone(&chrono::Utc);
    let mut instants: Vec<i64> = vec![];
    for y in 1969..=2040i64 {
        // days since epoch of Jan 1st of year y (proleptic Gregorian)
        let days = (y - 1970) * 365 + ((y - 1969) / 4) - ((y - 1901) / 100) + ((y - 1601) / 400);
        for d in -8..=8 {
            instants.push((days + d) * day);
            instants.push((days + d) * day + 43_200);
        }
    }
    let y2031 = 22_280 * day; // 2031-01-01
    for d in 0..731 {
        instants.push(y2031 + d * day);
    }
    if thorough {
        for sec in 0..(2 * day) {
            instants.push(y2031 + 364 * day + sec); // 2031-12-31 and 2032-01-01, every second
        }
        for min in 0..1440 {
            instants.push(y2031 + (365 + 59) * day + min * 60); // 2032-02-29, every minute
        }
    } else {
        for sec in (0..(2 * day)).step_by(61) {
            instants.push(y2031 + 364 * day + sec);
        }
    }
    instants.sort();
    instants.dedup();
    for t in instants {
        out.push((format!("layout expires@{t}"), MetadataWrapper::Layout(world::layout(vec![], vec![], &[], epoch + chrono::Duration::seconds(t)))));
    }
    // numeric sweeps: thresholds and return values
    let mut thrs: Vec<u32> = (0..=300).collect();
    for k in 8..32 {
        thrs.extend([(1u32 << k) - 1, 1u32 << k, (1u32 << k) + 1]);
    }
    thrs.push(u32::MAX);
    for t in thrs {
        out.push((format!("layout threshold={t}"), MetadataWrapper::Layout(world::layout(vec![world::step("s", t, &[])], vec![], &[], base_t))));
    }
    let mut rets: Vec<i32> = (-300..=300).collect();
    rets.extend([i32::MIN, i32::MIN + 1, i32::MAX - 1, i32::MAX, 65535, 65536, -65536]);
    for r in rets {
        out.push((format!("link return-value={r}"), link_struct("n", &[], None, &[], &[], None, None, Some(r))));
    }
    // rule forms
    let mut rules: Vec<ArtifactRule> = vec![];
    for p in ["a", "*", "", "IN", "WITH", "FROM"] {
        for mk in [ArtifactRule::Create as fn(_) -> _, ArtifactRule::Delete, ArtifactRule::Modify, ArtifactRule::Allow, ArtifactRule::Require, ArtifactRule::Disallow] {
            rules.push(mk(world::vpath(p)));
        }
        for in_src in [None, Some(""), Some("d"), Some("IN")] {
            for in_dst in [None, Some(""), Some("d")] {
                for with in [Artifact::Materials, Artifact::Products] {
                    for from in ["", "s", "FROM"] {
                        rules.push(ArtifactRule::Match { pattern: world::vpath(p), in_src: in_src.map(String::from), with: with.clone(), in_dst: in_dst.map(String::from), from: from.into() });
                    }
                }
            }
        }
    }
    for (i, r1) in rules.iter().enumerate() {
        let st = world::step("s", 1, &[]).add_expected_material(r1.clone());
        out.push((format!("rule#{i} as material"), MetadataWrapper::Layout(world::layout(vec![st], vec![], &[], base_t))));
        let st = world::step("s", 1, &[]).add_expected_product(r1.clone());
        out.push((format!("rule#{i} as product"), MetadataWrapper::Layout(world::layout(vec![st], vec![], &[], base_t))));
        if i % 7 == 0 {
            let insp = Inspection::new("s").add_expected_material(r1.clone());
            out.push((format!("rule#{i} in inspection"), MetadataWrapper::Layout(world::layout(vec![], vec![insp], &[], base_t))));
        }
    }
    // step order, step vs inspection
    let (s1, s2) = (world::step("x", 1, &[]), world::step("y", 1, &[]));
    out.push(("steps x,y".into(), MetadataWrapper::Layout(world::layout(vec![s1.clone(), s2.clone()], vec![], &[], base_t))));
    out.push(("steps y,x".into(), MetadataWrapper::Layout(world::layout(vec![s2, s1.clone()], vec![], &[], base_t))));
    out.push(("steps x".into(), MetadataWrapper::Layout(world::layout(vec![s1], vec![], &[], base_t))));
    out.push(("inspect x".into(), MetadataWrapper::Layout(world::layout(vec![], vec![Inspection::new("x")], &[], base_t))));
    // repeated elements: two steps / inspections of one name, a key id listed twice, an argument twice
    {
        let x1 = world::step("x", 1, &[]);
        let x2 = world::step("x", 2, &[]);
        let y = world::step("y", 1, &[]);
        for (n, steps) in [("x1,x2", vec![x1.clone(), x2.clone()]), ("x2,x1", vec![x2.clone(), x1.clone()]), ("x1,x1", vec![x1.clone(), x1.clone()]), ("x1,x1,x1", vec![x1.clone(), x1.clone(), x1.clone()]), ("x2", vec![x2.clone()]), ("x1,y,x1", vec![x1.clone(), y.clone(), x1.clone()]), ("x1,y", vec![x1.clone(), y.clone()]), ("y,x1", vec![y.clone(), x1.clone()]), ("x1,x2,y", vec![x1.clone(), x2.clone(), y.clone()]), ("x1,y,x2", vec![x1.clone(), y.clone(), x2.clone()])] {
            out.push((format!("repeated steps {n}"), MetadataWrapper::Layout(world::layout(steps, vec![], &[], base_t))));
        }
        let i1 = Inspection::new("i").run(vec!["a".to_string()].into());
        let i2 = Inspection::new("i").run(vec!["b".to_string()].into());
        for (n, insp) in [("i1", vec![i1.clone()]), ("i1,i1", vec![i1.clone(), i1.clone()]), ("i1,i2", vec![i1.clone(), i2.clone()]), ("i2,i1", vec![i2.clone(), i1.clone()]), ("i2", vec![i2.clone()])] {
            out.push((format!("repeated inspections {n}"), MetadataWrapper::Layout(world::layout(vec![], insp, &[], base_t))));
        }
        for (n, pk) in [("a,a", vec![a, a]), ("a,b,a", vec![a, b, a]), ("a,a,b", vec![a, a, b]), ("b,a,a", vec![b, a, a]), ("a,a,a", vec![a, a, a])] {
            out.push((format!("repeated pubkeys {n}"), MetadataWrapper::Layout(world::layout(vec![world::step("s", 1, &pk)], vec![], &[a, b], base_t))));
        }
        for (n, rules) in [("r", vec![ArtifactRule::Allow("a".into())]), ("r,r", vec![ArtifactRule::Allow("a".into()), ArtifactRule::Allow("a".into())]), ("r,q,r", vec![ArtifactRule::Allow("a".into()), ArtifactRule::Disallow("*".into()), ArtifactRule::Allow("a".into())]), ("r,q", vec![ArtifactRule::Allow("a".into()), ArtifactRule::Disallow("*".into())])] {
            let mut st = world::step("s", 1, &[]);
            for r in rules {
                st = st.add_expected_product(r);
            }
            out.push((format!("repeated rules {n}"), MetadataWrapper::Layout(world::layout(vec![st], vec![], &[], base_t))));
        }
        out.push(("repeated args a,a".into(), link_struct("n", &["a", "a"], None, &[], &[], None, None, None)));
        out.push(("repeated args a".into(), link_struct("n", &["a"], None, &[], &[], None, None, None)));
        out.push(("repeated args a,a,a".into(), link_struct("n", &["a", "a", "a"], None, &[], &[], None, None, None)));
    }
    // digest shapes: lengths 0 / 1 / 20 / 31 / 32 / 33 / 64, values that differ only in the first or
    // last byte, in the second half, or only in one entry of a two-algorithm map
    {
        use in_toto::crypto::{HashAlgorithm, HashValue};
        use in_toto::models::TargetDescription;
        let base64: Vec<u8> = util::sha512(&[1]);
        let mut values: Vec<(String, Vec<u8>)> = vec![];
        for len in [0usize, 1, 20, 31, 32, 33, 63, 64] {
            values.push((format!("len{len}"), base64[..len].to_vec()));
        }
        for (n, pos) in [("first", 0usize), ("byte31", 31), ("byte32", 32), ("last", 63)] {
            let mut b = base64.clone();
            b[pos] ^= 1;
            values.push((format!("64-differs-at-{n}"), b));
        }
        // digests longer than any the library computes itself (the format sets no length): 65, 80
        // and 128 bytes, and 128-byte values that differ in one byte past the 64th only
        let long128: Vec<u8> = [util::sha512(&[1]), util::sha512(&[2])].concat();
        for len in [65usize, 80, 127, 128] {
            values.push((format!("len{len}"), long128[..len].to_vec()));
        }
        for pos in [64usize, 65, 79, 100, 127] {
            let mut b = long128.clone();
            b[pos] ^= 1;
            values.push((format!("128-differs-at-byte{pos}"), b));
        }
        let one = |alg: HashAlgorithm, v: &[u8]| -> TargetDescription {
            let mut d = TargetDescription::new();
            d.insert(alg, HashValue::new(v.to_vec()));
            d
        };
        let link_of = |d: TargetDescription| -> MetadataWrapper { MetadataWrapper::Link(LinkMetadataBuilder::new().name("n".into()).products([(world::vpath("a"), d)].into_iter().collect()).build().unwrap()) };
        for (n, v) in &values {
            out.push((format!("digest sha256 {n}"), link_of(one(HashAlgorithm::Sha256, v))));
            out.push((format!("digest sha512 {n}"), link_of(one(HashAlgorithm::Sha512, v))));
            out.push((format!("digest shake256-1024 {n}"), link_of(one(HashAlgorithm::Unknown("shake256-1024".into()), v))));
            let mut two = one(HashAlgorithm::Sha256, &world::h(1));
            two.insert(HashAlgorithm::Sha512, HashValue::new(v.clone()));
            out.push((format!("digest sha256 fixed + sha512 {n}"), link_of(two)));
            let mut two = one(HashAlgorithm::Sha512, &base64);
            two.insert(HashAlgorithm::Sha256, HashValue::new(v.clone()));
            out.push((format!("digest sha512 fixed + sha256 {n}"), link_of(two)));
        }
    }
    // tables of two and three artifacts whose digest maps are *different in shape*: every
    // combination of 7 maps (none, one algorithm, the other, both; two digest values) per artifact,
    // on the materials and on the products side. What one artifact carries must never show in,
    // or be confused with, what its neighbour carries.
    {
        use in_toto::crypto::{HashAlgorithm, HashValue};
        use in_toto::models::TargetDescription;
        let (x, y) = (world::h(1), world::h(2));
        let mk = |e: &[(HashAlgorithm, &Vec<u8>)]| -> TargetDescription { e.iter().map(|(a, v)| (a.clone(), HashValue::new((*v).clone()))).collect() };
        let shapes: Vec<(&str, TargetDescription)> = vec![
            ("{}", mk(&[])),
            ("{256:x}", mk(&[(HashAlgorithm::Sha256, &x)])),
            ("{256:y}", mk(&[(HashAlgorithm::Sha256, &y)])),
            ("{512:x}", mk(&[(HashAlgorithm::Sha512, &x)])),
            ("{256:x,512:x}", mk(&[(HashAlgorithm::Sha256, &x), (HashAlgorithm::Sha512, &x)])),
            ("{256:x,512:y}", mk(&[(HashAlgorithm::Sha256, &x), (HashAlgorithm::Sha512, &y)])),
            ("{256:y,512:x}", mk(&[(HashAlgorithm::Sha256, &y), (HashAlgorithm::Sha512, &x)])),
        ];
        let link_of = |side: &str, t: Vec<(&str, TargetDescription)>| -> MetadataWrapper {
            let table: std::collections::BTreeMap<_, _> = t.into_iter().map(|(k, v)| (world::vpath(k), v)).collect();
            let b = LinkMetadataBuilder::new().name("n".into());
            MetadataWrapper::Link(if side == "materials" { b.materials(table) } else { b.products(table) }.build().unwrap())
        };
        for side in ["materials", "products"] {
            for (na, da) in &shapes {
                for (nb, db) in &shapes {
                    out.push((format!("{side} a{na} b{nb}"), link_of(side, vec![("a", da.clone()), ("b", db.clone())])));
                }
            }
        }
        // round 14: digest maps with one, two and three algorithms the library does not know (it keeps
        // such names as they are), alone and next to the known ones: no digest may drop out of, or
        // stand in for another in, the signed form
        {
            let (u1, u2, u3) = (HashAlgorithm::Unknown("md5".into()), HashAlgorithm::Unknown("sha1".into()), HashAlgorithm::Unknown("blake2b".into()));
            let ushapes: Vec<(&str, TargetDescription)> = vec![
                ("{md5:x}", mk(&[(u1.clone(), &x)])),
                ("{md5:y}", mk(&[(u1.clone(), &y)])),
                ("{sha1:x}", mk(&[(u2.clone(), &x)])),
                ("{sha1:y}", mk(&[(u2.clone(), &y)])),
                ("{blake2b:x}", mk(&[(u3.clone(), &x)])),
                ("{md5:x,sha1:x}", mk(&[(u1.clone(), &x), (u2.clone(), &x)])),
                ("{md5:x,sha1:y}", mk(&[(u1.clone(), &x), (u2.clone(), &y)])),
                ("{md5:y,sha1:x}", mk(&[(u1.clone(), &y), (u2.clone(), &x)])),
                ("{md5:y,sha1:y}", mk(&[(u1.clone(), &y), (u2.clone(), &y)])),
                ("{md5:x,sha1:y,blake2b:x}", mk(&[(u1.clone(), &x), (u2.clone(), &y), (u3.clone(), &x)])),
                ("{md5:x,sha1:y,blake2b:y}", mk(&[(u1.clone(), &x), (u2.clone(), &y), (u3.clone(), &y)])),
                ("{md5:x,256:x}", mk(&[(u1.clone(), &x), (HashAlgorithm::Sha256, &x)])),
                ("{md5:x,256:y}", mk(&[(u1.clone(), &x), (HashAlgorithm::Sha256, &y)])),
                ("{md5:x,sha1:y,256:x,512:y}", mk(&[(u1.clone(), &x), (u2.clone(), &y), (HashAlgorithm::Sha256, &x), (HashAlgorithm::Sha512, &y)])),
                ("{md5:y,sha1:x,256:x,512:y}", mk(&[(u1.clone(), &y), (u2.clone(), &x), (HashAlgorithm::Sha256, &x), (HashAlgorithm::Sha512, &y)])),
            ];
            for side in ["materials", "products"] {
                for (n, d) in &ushapes {
                    out.push((format!("{side} a{n} algorithms the library does not know"), link_of(side, vec![("a", d.clone())])));
                }
            }
        }
        for (na, da) in &shapes[3..] {
            for (nb, db) in &shapes[..4] {
                for (nc, dc) in &shapes[..4] {
                    out.push((format!("products a{na} b{nb} c{nc}"), link_of("products", vec![("a", da.clone()), ("b", db.clone()), ("c", dc.clone())])));
                }
            }
        }
    }
    // key-table entries that differ only in the declared scheme or in the hash-algorithm list
    {
        use in_toto::crypto::PublicKey;
        let raw = a.public().as_bytes().to_vec();
        let variants: Vec<(&str, PublicKey)> = vec![
            ("pkcs8 (default list)", a.public().clone()),
            ("raw (no list)", PublicKey::from_ed25519(raw.clone()).unwrap()),
            ("raw + [sha256]", PublicKey::from_ed25519_with_keyid_hash_algorithms(raw.clone(), Some(vec!["sha256".to_string()])).unwrap()),
            ("raw + [sha512, sha256]", PublicKey::from_ed25519_with_keyid_hash_algorithms(raw.clone(), Some(vec!["sha512".to_string(), "sha256".to_string()])).unwrap()),
            ("raw + []", PublicKey::from_ed25519_with_keyid_hash_algorithms(raw, Some(vec![])).unwrap()),
            ("rsa pss-sha256", keys::get("rsa256a").public().clone()),
            ("rsa pss-sha512 (same modulus)", keys::get("rsa512a").public().clone()),
        ];
        for (n, k) in variants {
            let mut l = world::layout(vec![], vec![], &[], base_t);
            l.keys.insert(k.key_id().clone(), k);
            out.push((format!("key table entry {n}"), MetadataWrapper::Layout(l)));
        }
    }
    // key tables as only the in-memory API can build them: two keys A, B filed under their own
    // ids, swapped, one of them under zeros / under its id in upper case / under both its own id and
    // zeros. Which key sits under which identifier is content (steps name identifiers).
    {
        use in_toto::crypto::KeyId;
        use std::str::FromStr;
        let (ka, kb) = (keys::get("ed1").public().clone(), keys::get("ed2").public().clone());
        let id = |k: &in_toto::crypto::PublicKey| serde_json::to_value(k.key_id()).unwrap().as_str().unwrap().to_string();
        let (ia, ib) = (id(&ka), id(&kb));
        let tables: Vec<(&str, Vec<(String, &in_toto::crypto::PublicKey)>)> = vec![
            ("own ids", vec![(ia.clone(), &ka), (ib.clone(), &kb)]),
            ("swapped", vec![(ia.clone(), &kb), (ib.clone(), &ka)]),
            ("A under zeros", vec![("0".repeat(64), &ka), (ib.clone(), &kb)]),
            ("A under its id in upper case", vec![(ia.to_uppercase(), &ka), (ib.clone(), &kb)]),
            ("A under its id and under zeros", vec![(ia.clone(), &ka), ("0".repeat(64), &ka), (ib.clone(), &kb)]),
            ("B under A's id only", vec![(ia.clone(), &kb)]),
            ("A only", vec![(ia.clone(), &ka)]),
        ];
        for (n, t) in tables {
            let mut l = world::layout(vec![world::step("s", 1, &[keys::get("ed1")])], vec![], &[], base_t);
            for (label, k) in t {
                l.keys.insert(KeyId::from_str(&label).unwrap(), k.clone());
            }
            out.push((format!("key table in memory: {n}"), MetadataWrapper::Layout(l)));
        }
    }
    // long strings: captured output and the like
    for s in c10::long_strings().into_iter().filter(|s| s.chars().count() <= if thorough { 70001 } else { 1025 }) {
        let head: String = s.chars().take(3).collect();
        let n = s.chars().count();
        let tail: String = s.chars().skip(n - 2).collect();
        let odd: String = s.chars().skip(n / 2).take(1).collect();
        out.push((format!("long stdout {n} {head:?}..{odd:?}..{tail:?}"), link_struct("n", &[], None, &[], &[], Some(&s), None, None)));
    }
    out
}

// ------------------------------------------------------------------- edits

fn link_edits(signed: &Value) -> Vec<(String, Value)> {
    let mut out = vec![];
    let mut push = |name: String, f: &dyn Fn(&mut Value)| {
        let mut v = signed.clone();
        f(&mut v);
        out.push((name, v));
    };
    push("name".into(), &|v| v["name"] = json!("other"));
    push("command:token".into(), &|v| v["command"][0] = json!("other"));
    push("command:append".into(), &|v| v["command"].as_array_mut().unwrap().push(json!("x")));
    push("command:drop".into(), &|v| {
        v["command"].as_array_mut().unwrap().pop();
    });
    push("stdout".into(), &|v| v["byproducts"]["stdout"] = json!("tampered"));
    push("stderr".into(), &|v| v["byproducts"]["stderr"] = json!("tampered"));
    push("return-value".into(), &|v| v["byproducts"]["return-value"] = json!(1));
    push("byproducts:extra-member".into(), &|v| v["byproducts"]["extra"] = json!("x"));
    push("byproducts:drop-stdout".into(), &|v| {
        v["byproducts"].as_object_mut().unwrap().remove("stdout");
    });
    push("env:value".into(), &|v| v["environment"]["PATH"] = json!("/evil"));
    push("env:add".into(), &|v| v["environment"]["NEW"] = json!("1"));
    push("env:null".into(), &|v| v["environment"] = Value::Null);
    for side in ["materials", "products"] {
        let paths: Vec<String> = signed[side].as_object().unwrap().keys().cloned().collect();
        for p in &paths {
            let (side_s, p_s) = (side.to_string(), p.clone());
            push(format!("{side}:{p}:path"), &|v| {
                let d = v[&side_s].as_object_mut().unwrap().remove(&p_s).unwrap();
                v[&side_s][format!("{p_s}x")] = d;
            });
            push(format!("{side}:{p}:remove"), &|v| {
                v[&side_s].as_object_mut().unwrap().remove(&p_s);
            });
            push(format!("{side}:{p}:algorithm"), &|v| {
                let d = v[&side_s][&p_s].as_object_mut().unwrap().remove("sha256").unwrap();
                v[&side_s][&p_s]["sha512"] = d;
            });
            let hexd = signed[side][p]["sha256"].as_str().unwrap().to_string();
            for byte in 0..hexd.len() / 2 {
                let mut bytes = data_encoding::HEXLOWER.decode(hexd.as_bytes()).unwrap();
                bytes[byte] ^= 1 << (byte % 8);
                let nh = util::hex(&bytes);
                push(format!("{side}:{p}:digest-byte-{byte}"), &|v| v[&side_s][&p_s]["sha256"] = json!(nh));
            }
        }
        let side_s = side.to_string();
        push(format!("{side}:add"), &|v| v[&side_s]["zz-added"] = json!({"sha256": util::hex(&world::h(7))}));
    }
    push("swap:materials<->products".into(), &|v| {
        let m = v["materials"].clone();
        v["materials"] = v["products"].clone();
        v["products"] = m;
    });
    out
}

fn layout_edits(signed: &Value) -> Vec<(String, Value)> {
    let b = keys::get("ed2");
    let x = keys::get("ed5");
    let mut out = vec![];
    let mut push = |name: &str, f: &dyn Fn(&mut Value) -> bool| {
        let mut v = signed.clone();
        if f(&mut v) {
            out.push((name.to_string(), v));
        }
    };
    push("readme", &|v| {
        v["readme"] = json!("x");
        true
    });
    push("expires+1s", &|v| {
        v["expires"] = json!("2031-06-01T00:00:01Z");
        true
    });
    push("expires-1s", &|v| {
        v["expires"] = json!("2031-05-31T23:59:59Z");
        true
    });
    push("expires+1y", &|v| {
        v["expires"] = json!("2032-06-01T00:00:00Z");
        true
    });
    let n_steps = signed["steps"].as_array().map(|a| a.len()).unwrap_or(0);
    for i in 0..n_steps {
        push(&format!("step{i}.name"), &|v| {
            v["steps"][i]["name"] = json!("renamed");
            true
        });
        push(&format!("step{i}.threshold+1"), &|v| {
            v["steps"][i]["threshold"] = json!(v["steps"][i]["threshold"].as_u64().unwrap() + 1);
            true
        });
        push(&format!("step{i}.threshold=0"), &|v| {
            if v["steps"][i]["threshold"] == 0 {
                return false;
            }
            v["steps"][i]["threshold"] = json!(0);
            true
        });
        push(&format!("step{i}.pubkeys+B"), &|v| {
            v["steps"][i]["pubkeys"].as_array_mut().unwrap().push(json!(b.id()));
            true
        });
        push(&format!("step{i}.pubkeys-first"), &|v| {
            let a = v["steps"][i]["pubkeys"].as_array_mut().unwrap();
            if a.is_empty() {
                return false;
            }
            a.remove(0);
            true
        });
        push(&format!("step{i}.pubkeys-reversed"), &|v| {
            let a = v["steps"][i]["pubkeys"].as_array_mut().unwrap();
            if a.len() < 2 {
                return false;
            }
            a.reverse();
            true
        });
        push(&format!("step{i}.command"), &|v| {
            v["steps"][i]["expected_command"] = json!(["other"]);
            true
        });
        push(&format!("step{i}._type"), &|v| {
            v["steps"][i]["_type"] = json!("stepx");
            true
        });
        for field in ["expected_materials", "expected_products"] {
            let n_rules = signed["steps"][i][field].as_array().map(|a| a.len()).unwrap_or(0);
            push(&format!("step{i}.{field}+ALLOW"), &|v| {
                v["steps"][i][field].as_array_mut().unwrap().insert(0, json!(["ALLOW", "*"]));
                true
            });
            for ri in 0..n_rules {
                push(&format!("step{i}.{field}[{ri}]-removed"), &|v| {
                    v["steps"][i][field].as_array_mut().unwrap().remove(ri);
                    true
                });
                let len = signed["steps"][i][field][ri].as_array().unwrap().len();
                for ti in 0..len {
                    // every token of the rule: keyword, pattern, IN, prefix, WITH, target, FROM, step
                    push(&format!("step{i}.{field}[{ri}].token{ti}"), &|v| {
                        let tok = v["steps"][i][field][ri][ti].as_str().unwrap().to_string();
                        let new = match tok.as_str() {
                            "CREATE" => "DELETE",
                            "DELETE" => "CREATE",
                            "MODIFY" => "ALLOW",
                            "ALLOW" => "DISALLOW",
                            "DISALLOW" => "ALLOW",
                            "REQUIRE" => "ALLOW",
                            "MATERIALS" => "PRODUCTS",
                            "PRODUCTS" => "MATERIALS",
                            "MATCH" | "IN" | "WITH" | "FROM" => return false,
                            _ => "changed",
                        };
                        v["steps"][i][field][ri][ti] = json!(new);
                        true
                    });
                }
                if n_rules >= 2 && ri + 1 < n_rules {
                    push(&format!("step{i}.{field}[{ri}]<->[{}]", ri + 1), &|v| {
                        v["steps"][i][field].as_array_mut().unwrap().swap(ri, ri + 1);
                        true
                    });
                }
            }
        }
    }
    push("steps+copy", &|v| {
        let Some(s) = v["steps"].get(0).cloned() else { return false };
        let mut s = s;
        s["name"] = json!("extra");
        v["steps"].as_array_mut().unwrap().push(s);
        true
    });
    push("steps-last", &|v| v["steps"].as_array_mut().unwrap().pop().is_some());
    push("steps-swap", &|v| {
        let a = v["steps"].as_array_mut().unwrap();
        if a.len() < 2 {
            return false;
        }
        a.swap(0, 1);
        true
    });
    push("inspect+one", &|v| {
        v["inspect"].as_array_mut().unwrap().push(json!({"_type": "inspection", "name": "insp", "expected_materials": [], "expected_products": [], "run": ["true"]}));
        true
    });
    // inside an existing inspection
    let n_insp = signed["inspect"].as_array().map(|a| a.len()).unwrap_or(0);
    for i in 0..n_insp {
        push(&format!("inspect{i}.name"), &|v| {
            v["inspect"][i]["name"] = json!("renamed");
            true
        });
        push(&format!("inspect{i}.run"), &|v| {
            v["inspect"][i]["run"] = json!(["sh", "-c", "echo pwned"]);
            true
        });
        push(&format!("inspect{i}.run+arg"), &|v| {
            v["inspect"][i]["run"].as_array_mut().unwrap().push(json!("x"));
            true
        });
        push(&format!("inspect{i}.run-emptied"), &|v| {
            v["inspect"][i]["run"] = json!([]);
            true
        });
        push(&format!("inspect{i}._type"), &|v| {
            v["inspect"][i]["_type"] = json!("inspectionx");
            true
        });
        for field in ["expected_materials", "expected_products"] {
            push(&format!("inspect{i}.{field}+DISALLOW"), &|v| {
                v["inspect"][i][field].as_array_mut().unwrap().push(json!(["DISALLOW", "*"]));
                true
            });
        }
    }
    push("inspect-last", &|v| v["inspect"].as_array_mut().unwrap().pop().is_some());
    push("inspect+copy", &|v| {
        let Some(s) = v["inspect"].get(0).cloned() else { return false };
        v["inspect"].as_array_mut().unwrap().push(s);
        true
    });
    // inside a key-table entry, under an unchanged label
    for kid in signed["keys"].as_object().unwrap().keys().cloned().collect::<Vec<_>>() {
        let short = kid[..8].to_string();
        push(&format!("keys[{short}].scheme"), &|v| {
            let cur = v["keys"][&kid]["scheme"].as_str().unwrap_or("").to_string();
            v["keys"][&kid]["scheme"] = json!(if cur == "rsassa-pss-sha256" { "rsassa-pss-sha512" } else if cur == "rsassa-pss-sha512" { "rsassa-pss-sha256" } else { "ecdsa-sha2-nistp256" });
            true
        });
        push(&format!("keys[{short}].hash-algorithms-removed"), &|v| v["keys"][&kid].as_object_mut().unwrap().remove("keyid_hash_algorithms").is_some());
        push(&format!("keys[{short}].hash-algorithms-reordered"), &|v| {
            v["keys"][&kid]["keyid_hash_algorithms"] = json!(["sha512", "sha256"]);
            true
        });
        push(&format!("keys[{short}].public=other-material"), &|v| {
            if v["keys"][&kid]["keytype"] != "ed25519" {
                return false;
            }
            v["keys"][&kid]["keyval"]["public"] = json!(util::hex(x.public().as_bytes()));
            true
        });
        push(&format!("keys[{short}].keyid-member"), &|v| {
            v["keys"][&kid]["keyid"] = json!("f".repeat(64));
            true
        });
    }
    push("keys+X", &|v| {
        v["keys"][x.id()] = serde_json::to_value(x.public()).unwrap();
        true
    });
    let key_ids: Vec<String> = signed["keys"].as_object().unwrap().keys().cloned().collect();
    for kid in &key_ids {
        push(&format!("keys-{}", &kid[..8]), &|v| v["keys"].as_object_mut().unwrap().remove(kid).is_some());
    }
    out
}

fn signer_sets() -> Vec<(&'static str, Vec<&'static Key>)> {
    vec![
        ("ed25519", vec![keys::get("ed1")]),
        ("ecdsa", vec![keys::get("ec1")]),
        ("rsa-pss-sha256", vec![keys::get("rsa256a")]),
        ("rsa-pss-sha512/4096", vec![keys::get("rsa512c")]),
        ("ed25519+rsa", vec![keys::get("ed2"), keys::get("rsa256b")]),
    ]
}

fn edit_docs() -> Vec<(&'static str, MetadataWrapper)> {
    let (a, b, r) = (keys::get("ed1"), keys::get("ed2"), keys::get("rsa256a"));
    let s0 = world::step("s0", 1, &[a]).add_expected_product(ArtifactRule::Create("p".into())).add_expected_product(ArtifactRule::Disallow("*".into())).expected_command(vec!["make".to_string()].into());
    let s1 = world::step("s1", 2, &[a, b])
        .add_expected_material(ArtifactRule::Match { pattern: "p".into(), in_src: Some("d".into()), with: Artifact::Products, in_dst: Some("e".into()), from: "s0".into() })
        .add_expected_material(ArtifactRule::Require("q".into()))
        .add_expected_product(ArtifactRule::Modify("*".into()));
    vec![
        ("layout", MetadataWrapper::Layout(world::layout(vec![s0, s1], vec![Inspection::new("i").run(vec!["true".to_string()].into())], &[a, b, r], world::far_future()))),
        ("link", c11::link_with("name", "step")),
    ]
    .into_iter()
    .chain(world::sample_links("step").into_iter().map(|(n, l)| {
        let name = match n {
            "rich" => "link/rich",
            "bare: no environment, no byproducts, no command" => "link/bare",
            _ => "link/failed-command-empty-environment",
        };
        (name, MetadataWrapper::Link(l))
    }))
    .collect()
}

pub fn run(tier: Tier) -> i32 {
    let mut c = Check::new("C05", "exploration", tier);
    let mut acc = Acc::new();
    // ---- (a) injectivity over metadata values
    let fam = value_families(tier.thorough());
    let sigs: Vec<(Acc, Vec<(usize, Option<String>)>)> = util::par_fold(&fam, || (Acc::new(), vec![]), |(acc, v), i, (_n, meta)| {
        acc.evaluations += 1;
        v.push((i, sign_hex(meta)));
    });
    let mut by_sig: HashMap<String, usize> = HashMap::new();
    let mut distinct_values = 0u64;
    for (a, v) in sigs {
        acc.merge(a);
        for (i, s) in v {
            let Some(s) = s else {
                acc.note("value-could-not-be-signed");
                continue;
            };
            match by_sig.get(&s) {
                None => {
                    by_sig.insert(s, i);
                    distinct_values += 1;
                }
                Some(&j) => {
                    if fam[i].1 != fam[j].1 {
                        let kind = match (&fam[i].1, &fam[j].1) {
                            (MetadataWrapper::Link(_), MetadataWrapper::Link(_)) => "link",
                            (MetadataWrapper::Layout(_), MetadataWrapper::Layout(_)) => "layout",
                            _ => "link-vs-layout",
                        };
                        acc.violation(
                            &format!("signed-bytes-collision:{kind}"),
                            "two unequal metadata values have the same signed bytes: a signature over one verifies over the other",
                            || json!({"kind": "collision", "a": fam[j].0, "b": fam[i].0, "a_value": serde_json::to_value(&fam[j].1).unwrap(), "b_value": serde_json::to_value(&fam[i].1).unwrap()}),
                        );
                    } else {
                        acc.note("equal-values-generated-twice");
                    }
                }
            }
        }
    }
    acc.nontrivial += distinct_values;
    acc.note_n("metadata_values", fam.len() as u64);
    acc.note_n("distinct_signed_byte_strings", distinct_values);
    acc.outcome("distinct-signed-bytes");
    acc.sample(|| json!({"kind": "collision-search", "example_values": [fam[3].0, fam[fam.len() / 2].0]}));
    // ---- (a') injectivity of Json::canonicalize over the value grammar
    let grammar = c10::grammar(tier.thorough());
    let mut by_bytes: HashMap<Vec<u8>, usize> = HashMap::new();
    for (i, v) in grammar.iter().enumerate() {
        acc.evaluations += 1;
        let Ok(b) = Json::canonicalize(v) else { continue };
        if let Some(&j) = by_bytes.get(&b) {
            if grammar[j] != *v {
                acc.violation("canonical-json-collision", "two distinct JSON values have the same canonical encoding", || json!({"kind": "json-collision", "a": grammar[j], "b": v}));
            }
        } else {
            by_bytes.insert(b, i);
        }
    }
    acc.note_n("json_values", grammar.len() as u64);
    acc.note_n("distinct_canonical_encodings", by_bytes.len() as u64);
    acc.nontrivial += by_bytes.len() as u64;

    // ---- (b) single-field edits keep the signatures -> verify must fail; inverse -> pass
    for (dname, meta) in edit_docs() {
        for (sname, signers) in signer_sets() {
            let block = world::sign(meta.clone(), &signers);
            let bv = world::block_value(&block);
            let pubs: Vec<_> = signers.iter().map(|k| k.public()).collect();
            let thr = signers.len() as u32;
            // baseline
            acc.evaluations += 1;
            if !matches!(guard(|| world::block_from_value(&bv).unwrap().verify(thr, pubs.clone())), Guard::Done(Ok(_))) {
                acc.violation("baseline-does-not-verify", "an untouched signed block does not verify", || json!({"kind": "edit", "doc": dname, "signers": sname, "edit": "none"}));
                continue;
            }
            let mut edits = if dname == "layout" { layout_edits(&bv["signed"]) } else if dname == "link" { link_edits(&bv["signed"]) } else { vec![] };
            // the generic leaf edits: every leaf x (strings re-spelled, integers wrapped, null <-> empty, member removed)
            for e in crate::tamper::edits(&bv["signed"]) {
                let mut edited = bv["signed"].clone();
                if crate::tamper::apply(&mut edited, &e) {
                    edits.push((format!("leaf:{e}"), edited));
                }
            }
            for (ename, edited) in edits {
                acc.evaluations += 2;
                let mut ev = bv.clone();
                ev["signed"] = edited;
                let witness = || json!({"kind": "edit", "doc": dname, "signers": sname, "edit": ename});
                match world::block_from_value(&ev) {
                    Err(_) => {
                        acc.outcome("edit-unparseable");
                        continue;
                    }
                    Ok(mb) => {
                        if mb.metadata == block.metadata {
                            // a leaf edit that the reference table calls a change of content, read
                            // back as the very value that was signed: two documents a consumer can
                            // tell apart share one signed form
                            if let Some(e) = ename.strip_prefix("leaf:") {
                                let keeps = if dname == "layout" { crate::tamper::keeps_layout_content(e, true) } else { crate::tamper::keeps_link_content(e, &bv["signed"]) };
                                if !keeps {
                                    acc.outcome("edit-lost-on-reading");
                                    acc.violation(&format!("edit-lost-on-reading:{dname}:{}", crate::tamper::kind_of(e)), &format!("{dname} edited after signing ({ename}) is read back as the value that was signed: the edited file and the signed one share their signed bytes"), witness);
                                    continue;
                                }
                            }
                            acc.outcome("edit-is-identity-on-parsed-value");
                            continue;
                        }
                        acc.nontrivial += 1;
                        match guard(|| mb.verify(thr, pubs.clone())) {
                            Guard::Done(Err(_)) => acc.outcome("edit-invalidates-signature"),
                            Guard::Done(Ok(_)) => {
                                acc.outcome("edit-still-verifies");
                                let class = ename.split('@').next().unwrap_or("").split(|c: char| c.is_ascii_digit()).next().unwrap_or("").trim_end_matches(['[', '.', ':', '-']).to_string();
                                acc.violation(&format!("edit-not-detected:{dname}:{class}"), &format!("{dname} edited after signing ({ename}) still verifies with the old signatures"), witness);
                            }
                            Guard::Panicked(l, m) => acc.violation(&format!("panic:{l}"), &format!("verify panicked: {m}"), witness),
                        }
                        // inverse edit: restore the signed part
                        let mut rv = ev.clone();
                        rv["signed"] = bv["signed"].clone();
                        if !matches!(guard(|| world::block_from_value(&rv).unwrap().verify(thr, pubs.clone())), Guard::Done(Ok(_))) {
                            acc.violation("restored-document-rejected", "after undoing the edit the document no longer verifies", witness);
                        }
                    }
                }
            }
        }
    }
    let _ = KeyId::from_str;
    crate::envprobe::judge(&mut acc, "C05:", &mut c.extra);
    c.acc = acc;
    c.rule = "(a) metadata values from the field alphabets (every string field x critical and wide strings, splits of one string across adjacent fields, structural near-collisions, thresholds x pubkey lists x key tables, expiry seconds, every rule form in every position, repeated steps / inspections / key ids / rules / arguments, digests of 12 lengths (0 .. 128 bytes) under three algorithm names and with single-byte differences (also past the 64th byte only) in one- and two-algorithm maps, tables of two / three artifacts over 7 digest-map shapes each, 15 digest maps with one to three algorithm names the library does not know (alone and next to sha256 / sha512), key-table entries over one key material with 5 hash-algorithm lists / 2 schemes, 7 key tables as the in-memory API can file them (own ids, swapped, under zeros, under another spelling), strings of 15..1025 (70001) characters) signed with one Ed25519 key: unequal values must give different signatures; canonical encodings of the C10 value grammar pairwise distinct; (b) every single-field edit (incl. every digest byte and every rule token, and for every leaf: strings re-spelled in 18 ways, integers +-1 / negated / +2^8..+2^63 / -2^32, null <-> empty, member removed) of a signed layout and four signed links, for 5 signer sets, must fail verification and pass again when undone. distinct_nontrivial = distinct signed byte strings + distinct canonical encodings + edits that change the parsed value".into();
    c.bound_completed = format!("critical strings <= {}, wide strings <= {}, split words <= {}", if tier.thorough() { 4 } else { 3 }, if tier.thorough() { 2 } else { 1 }, if tier.thorough() { 4 } else { 3 });
    c.assume("Ed25519 signing by a fixed key is deterministic and collision-free on distinct messages, so equal signatures <=> equal signed bytes");
    c.assume("unequal = PartialEq on the parsed metadata (expiry enumerated at whole seconds)");
    c.finish()
}

pub fn replay(case: &Value) -> Value {
    match case["kind"].as_str() {
        Some("collision") => {
            let parse = |v: &Value| -> Option<MetadataWrapper> { serde_json::from_str(&v.to_string()).ok() };
            let (a, b) = (parse(&case["a_value"]), parse(&case["b_value"]));
            match (a, b) {
                (Some(a), Some(b)) => {
                    let same_sig = sign_hex(&a) == sign_hex(&b);
                    json!({"values_equal": a == b, "same_signature": same_sig, "violation": if a != b && same_sig { json!("signed-bytes-collision") } else { Value::Null }})
                }
                _ => json!({"error": "values do not parse", "violation": null}),
            }
        }
        Some("json-collision") => {
            let (a, b) = (Json::canonicalize(&case["a"]).ok(), Json::canonicalize(&case["b"]).ok());
            json!({"violation": if a == b && case["a"] != case["b"] { json!("canonical-json-collision") } else { Value::Null }})
        }
        Some("edit") => {
            let doc = case["doc"].as_str().unwrap_or("");
            let Some((_, meta)) = edit_docs().into_iter().find(|(d, _)| *d == doc) else { return json!({"violation": null}) };
            let Some((_, signers)) = signer_sets().into_iter().find(|(s, _)| Some(*s) == case["signers"].as_str()) else { return json!({"violation": null}) };
            let block = world::sign(meta, &signers);
            let bv = world::block_value(&block);
            let edits = if doc == "layout" { layout_edits(&bv["signed"]) } else { link_edits(&bv["signed"]) };
            let Some((_, edited)) = edits.into_iter().find(|(e, _)| Some(e.as_str()) == case["edit"].as_str()) else { return json!({"violation": null}) };
            let mut ev = bv.clone();
            ev["signed"] = edited;
            let pubs: Vec<_> = signers.iter().map(|k| k.public()).collect();
            let ok = world::block_from_value(&ev).map(|mb| mb.metadata != block.metadata && mb.verify(signers.len() as u32, pubs).is_ok()).unwrap_or(false);
            json!({"edited_document_verifies": ok, "violation": if ok { json!("edit-not-detected") } else { Value::Null }})
        }
        _ => json!({"violation": null}),
    }
}
