//! C15 — delegated sub-layouts are verified as strictly as the top-level layout.
//!
//! E1: a state is a delegation tree (outer shape, inner step sequence, depth)
//! plus a set of active deviations; a transition toggles one deviation,
//! starting from the fully valid tree. Every state is run on the real
//! `in_toto_verify`. Oracle: any active deviation (each one breaks the inner
//! verification) implies rejection; every acceptance returns exactly the
//! reference summary (first step's materials; last step's products, command,
//! byproducts; requested name).

use std::collections::BTreeSet;
use std::path::Path;

use in_toto::models::byproducts::ByProducts;
use in_toto::models::rule::{Artifact, ArtifactRule};
use in_toto::models::step::Step;
use in_toto::models::{LinkMetadata, LinkMetadataBuilder, MetadataWrapper};
use serde_json::{json, Value};

use crate::keys::{self, Key};
use crate::report::{Acc, Check, Tier};
use crate::util;
use crate::world::{self, Verdict};

pub const DEVIATIONS: [&str; 24] = [
    "inner-step-named-into-the-parent-directory",
    "sublayout-refiled-under-key-id-in-upper-case",
    "inner-links-in-directory-matched-as-a-pattern",
    "inner-threshold-2-links-disagree",
    "inner-require-fails",
    "co:second-functionary-subdir-missing",
    "co:second-functionary-subdir-disagrees",
    "inner-links-in-directory-of-name-before-last-dot",
    "inner-signed-by-G-filed-under-F",
    "inner-signed-by-unauthorized-G-under-G",
    "inner-expired",
    "inner-link-missing:first",
    "inner-link-missing:last",
    "inner-link-by-unauthorized-key",
    "inner-link-by-key-outside-inner-table",
    "inner-rule-fails",
    "inner-links-in-parent-dir",
    "subdir-named-after-other-key",
    "subdir-named-after-step-only",
    "inner-layout-tampered",
    "inner-link-tampered",
    "inner-threshold-2-one-link",
    "level3-link-missing",
    "level3-layout-signed-by-other-key",
];

#[derive(Clone, Debug, PartialEq, Eq, Hash, PartialOrd, Ord)]
pub struct Tree {
    /// the delegated step needs two functionaries (threshold 2): both file the same
    /// co-signed sub-layout, each with its own sub-directory
    pub co: bool,
    /// name of the delegated step
    pub step: &'static str,
    /// "s", "s+t" (t MATCHes s), "t0+s"
    pub shape: &'static str,
    pub n_inner: usize,
    pub levels: usize,
}

struct K {
    owner: &'static Key,
    f: &'static Key,
    g: &'static Key,
    b: &'static Key,
    h: &'static Key,
    t: &'static Key,
}

fn k() -> K {
    K { owner: keys::get("ed6"), f: keys::get("ed1"), g: keys::get("ed2"), b: keys::get("ed3"), h: keys::get("ed4"), t: keys::get("ed5") }
}

fn mk_link(name: &str, m: &[(&str, u8)], p: &[(&str, u8)]) -> LinkMetadata {
    LinkMetadataBuilder::new()
        .name(name.to_string())
        .materials(world::arts(m))
        .products(world::arts(p))
        .byproducts(ByProducts::new().set_return_value(0).set_stdout(format!("out-{name}")).set_stderr(String::new()))
        .command(vec![format!("cmd-{name}")].into())
        .build()
        .unwrap()
}

fn inner_link(i: usize) -> LinkMetadata {
    mk_link(&format!("in{i}"), &[("src", i as u8)], &[("out", 10 + i as u8)])
}

/// Inner link number `i` of the tree: in the shape `s-empty-ends` the first inner step reports no
/// materials and the last one no products (the summary must then carry empty maps, not those of
/// the nearest step that has some).
fn inner_link_t(tree: &Tree, i: usize) -> LinkMetadata {
    let mut l = inner_link(i);
    if tree.shape == "s-empty-ends" {
        if i == 1 {
            l.materials.clear();
        }
        if i == tree.n_inner {
            l.products.clear();
        }
    }
    l
}

fn has(devs: &BTreeSet<&str>, d: &str) -> bool {
    devs.contains(d)
}

/// Build the tree under `dir`; returns the signed outer layout.
fn build(dir: &Path, tree: &Tree, devs: &BTreeSet<&str>) -> in_toto::models::Metablock {
    let k = k();
    for e in std::fs::read_dir(dir).unwrap().flatten() {
        let p = e.path();
        if p.is_dir() {
            let _ = std::fs::remove_dir_all(p);
        } else {
            let _ = std::fs::remove_file(p);
        }
    }
    // ---- inner layout (delegated by step s to functionary F)
    let n = tree.n_inner;
    let mut inner_steps: Vec<Step> = vec![];
    let up = has(devs, "inner-step-named-into-the-parent-directory");
    for i in 1..=n {
        // `../in1`: read as a path, the inner step's link pattern points into the parent directory
        let mut st = world::step(&if i == 1 && up { "../in1".to_string() } else { format!("in{i}") }, 1, &[k.b]);
        if i == 1 && (has(devs, "inner-threshold-2-one-link") || has(devs, "inner-threshold-2-links-disagree")) {
            st = world::step("in1", 2, &[k.b, k.h]);
        }
        if i == n && has(devs, "inner-require-fails") {
            st = st.add_expected_material(ArtifactRule::Require("no-such-artifact".into()));
        }
        if i == n && has(devs, "inner-rule-fails") {
            st = st.add_expected_product(ArtifactRule::Disallow("*".into()));
        }
        inner_steps.push(st);
    }
    let inner_expiry = if has(devs, "inner-expired") { world::now() - chrono::Duration::seconds(1) } else { world::far_future() };
    let inner = world::layout(inner_steps, vec![], &[k.b, k.h], inner_expiry);
    let signer = if has(devs, "inner-signed-by-G-filed-under-F") || has(devs, "inner-signed-by-unauthorized-G-under-G") { k.g } else { k.f };
    let filed_under = if has(devs, "inner-signed-by-unauthorized-G-under-G") { k.g } else { k.f };
    let inner_block = if tree.co { world::sign_layout(inner, &[signer, k.g]) } else { world::sign_layout(inner, &[signer]) };
    let inner_text = if has(devs, "inner-layout-tampered") {
        let mut v = world::block_value(&inner_block);
        v["signed"]["readme"] = json!("altered after signing");
        v.to_string()
    } else {
        world::block_text(&inner_block)
    };
    let sn = tree.step;
    let refiled = has(devs, "sublayout-refiled-under-key-id-in-upper-case");
    if refiled {
        // nothing is re-signed: the key id of the signature entry and the file name are re-spelled
        // in upper case, and the inner links sit in the directory named after that spelling
        let mut v: Value = serde_json::from_str(&inner_text).unwrap();
        for e in v["signatures"].as_array_mut().unwrap() {
            if e["keyid"].as_str() == Some(filed_under.id().as_str()) {
                e["keyid"] = json!(filed_under.id().to_uppercase());
            }
        }
        world::write(dir, &format!("{sn}.{}.link", filed_under.prefix().to_uppercase()), &v.to_string());
    } else {
        world::write(dir, &world::link_file(sn, filed_under), &inner_text);
    }
    let sub_name = if refiled {
        format!("{sn}.{}", filed_under.prefix().to_uppercase())
    } else if has(devs, "subdir-named-after-other-key") {
        format!("{sn}.{}", k.h.prefix())
    } else if has(devs, "subdir-named-after-step-only") {
        sn.to_string()
    } else if has(devs, "inner-links-in-directory-matched-as-a-pattern") {
        // the step name read as a glob pattern also matches this other name: `s?` ~ `sx`, `s[ab]` ~ `sa`, `s*` ~ `s-other`
        let twin = sn.replace('?', "x").replace("[ab]", "a").replace('*', "-other");
        format!("{twin}.{}", filed_under.prefix())
    } else if has(devs, "inner-links-in-directory-of-name-before-last-dot") {
        // e.g. step `rel.signed`: links placed in `rel.<prefix>/`
        format!("{}.{}", sn.rsplit_once('.').map(|x| x.0).unwrap_or(sn), filed_under.prefix())
    } else {
        format!("{sn}.{}", filed_under.prefix())
    };
    let sub = if has(devs, "inner-links-in-parent-dir") { dir.to_path_buf() } else { dir.join(&sub_name) };
    std::fs::create_dir_all(&sub).unwrap();
    for i in 1..=n {
        if (i == 1 && has(devs, "inner-link-missing:first")) || (i == n && has(devs, "inner-link-missing:last")) {
            continue;
        }
        let name = format!("in{i}");
        let third_level = tree.levels == 3 && i == 1;
        if third_level {
            // in1 is itself delegated to B: a zero-rule layout with one step `deep`
            let deep_layout = world::layout(vec![world::step("deep", 1, &[k.h])], vec![], &[k.h], world::far_future());
            let deep_signer = if has(devs, "level3-layout-signed-by-other-key") { k.h } else { k.b };
            world::write(&sub, &world::link_file(&name, k.b), &world::block_text(&world::sign_layout(deep_layout, &[deep_signer])));
            let deep_dir = sub.join(format!("{name}.{}", k.b.prefix()));
            std::fs::create_dir_all(&deep_dir).unwrap();
            if !has(devs, "level3-link-missing") {
                // the deep step reports what in1 would have reported
                let mut l = inner_link_t(tree, 1);
                l.name = "deep".into();
                world::write(&deep_dir, &world::link_file("deep", k.h), &world::block_text(&world::sign_link(l, &[k.h])));
            }
            continue;
        }
        let link_signer = if i == 1 && has(devs, "inner-link-by-unauthorized-key") {
            k.h // in the inner key table, not authorised for in1
        } else if i == 1 && has(devs, "inner-link-by-key-outside-inner-table") {
            k.t
        } else {
            k.b
        };
        if i == 1 && up {
            // the only link for it lies in the parent directory, under the plain file name; the
            // dedicated sub-directory holds nothing for this step
            let mut l = inner_link_t(tree, 1);
            l.name = "../in1".into();
            world::write(dir, &world::link_file("in1", k.b), &world::block_text(&world::sign_link(l, &[k.b])));
            continue;
        }
        let mb = world::sign_link(inner_link_t(tree, i), &[link_signer]);
        if i == 1 && has(devs, "inner-threshold-2-links-disagree") {
            // the second functionary of in1 signs a link with another product digest
            let mut other = inner_link_t(tree, 1);
            other.products = world::arts(&[("out", 77)]);
            world::write(&sub, &world::link_file(&name, k.h), &world::block_text(&world::sign_link(other, &[k.h])));
        }
        let text = if i == n && has(devs, "inner-link-tampered") {
            let mut v = world::block_value(&mb);
            v["signed"]["products"]["out"]["sha256"] = json!(util::hex(&world::h(200)));
            v.to_string()
        } else {
            world::block_text(&mb)
        };
        world::write(&sub, &world::link_file(&name, link_signer), &text);
    }
    // ---- second functionary of a co-delegated step: same document, own sub-directory
    if tree.co {
        world::write(dir, &world::link_file(tree.step, k.g), &inner_text);
        if !has(devs, "co:second-functionary-subdir-missing") {
            let sub_g = dir.join(format!("{}.{}", tree.step, k.g.prefix()));
            std::fs::create_dir_all(&sub_g).unwrap();
            for i in 1..=n {
                let mut l = inner_link_t(tree, i);
                if i == n && has(devs, "co:second-functionary-subdir-disagrees") {
                    l.products = world::arts(&[("out", 99)]);
                }
                world::write(&sub_g, &world::link_file(&format!("in{i}"), k.b), &world::block_text(&world::sign_link(l, &[k.b])));
            }
        }
    }
    // ---- outer layout
    let s = if tree.co { world::step(tree.step, 2, &[k.f, k.g]) } else { world::step(tree.step, 1, &[k.f]) };
    let mut steps = vec![];
    match tree.shape {
        "s+t" => {
            let t = world::step("t", 1, &[k.t])
                .add_expected_material(ArtifactRule::Match { pattern: "*".into(), in_src: None, with: Artifact::Products, in_dst: None, from: tree.step.into() })
                .add_expected_material(ArtifactRule::Disallow("*".into()));
            steps.push(s);
            steps.push(t);
            let l = mk_link("t", &[("out", 10 + n as u8)], &[("final", 50)]);
            world::write(dir, &world::link_file("t", k.t), &world::block_text(&world::sign_link(l, &[k.t])));
        }
        "t0+s" => {
            steps.push(world::step("t0", 1, &[k.t]));
            steps.push(s);
            let l = mk_link("t0", &[("first", 40)], &[("mid", 41)]);
            world::write(dir, &world::link_file("t0", k.t), &world::block_text(&world::sign_link(l, &[k.t])));
        }
        _ => steps.push(s),
    }
    world::sign_layout(world::layout(steps, vec![], &[k.f, k.g, k.t], world::far_future()), &[k.owner])
}

/// Reference summary of the whole (valid) tree.
fn expected_summary(tree: &Tree) -> Value {
    let n = tree.n_inner;
    let first_inner = inner_link_t(tree, 1);
    let last_inner = inner_link_t(tree, n);
    let (materials, last) = match tree.shape {
        "s+t" => (first_inner.materials.clone(), mk_link("t", &[("out", 10 + n as u8)], &[("final", 50)])),
        "t0+s" => (mk_link("t0", &[("first", 40)], &[("mid", 41)]).materials, last_inner),
        _ => (first_inner.materials.clone(), last_inner),
    };
    let l = LinkMetadataBuilder::new()
        .name(String::new())
        .materials(materials)
        .products(last.products.clone())
        .byproducts(last.byproducts.clone())
        .command(last.command.clone())
        .build()
        .unwrap();
    serde_json::to_value(MetadataWrapper::Link(l)).unwrap()
}

fn state_json(tree: &Tree, devs: &BTreeSet<&str>) -> Value {
    json!({"co_delegated": tree.co, "step": tree.step, "shape": tree.shape, "inner_steps": tree.n_inner, "levels": tree.levels, "deviations": devs})
}

fn applicable(tree: &Tree, d: &str) -> bool {
    if tree.co && !d.starts_with("co:") {
        // with two functionaries the single-functionary deviations are explored on the other trees
        return matches!(d, "inner-expired" | "inner-layout-tampered" | "inner-threshold-2-links-disagree" | "inner-require-fails") || (d == "inner-rule-fails" && tree.shape != "s-empty-ends");
    }
    match d {
        "co:second-functionary-subdir-missing" | "co:second-functionary-subdir-disagrees" => tree.co,
        // needs a letter in the prefix, or the two spellings are one
        "sublayout-refiled-under-key-id-in-upper-case" => k().f.prefix().chars().any(|c| c.is_ascii_alphabetic()),
        "inner-links-in-directory-of-name-before-last-dot" => tree.step.contains('.'),
        "inner-links-in-directory-matched-as-a-pattern" => tree.step.contains(['?', '*', '[']),
        "level3-link-missing" | "level3-layout-signed-by-other-key" => tree.levels == 3,
        // with three levels in1's evidence is a sub-layout, link-level deviations on in1 do not apply
        "inner-link-by-unauthorized-key" | "inner-link-by-key-outside-inner-table" | "inner-threshold-2-one-link" | "inner-threshold-2-links-disagree" | "inner-step-named-into-the-parent-directory" => tree.levels == 2,
        "inner-link-missing:last" => tree.n_inner > 1,
        // the failing rule is DISALLOW * on the last inner step's products, which that shape leaves empty
        "inner-rule-fails" => tree.shape != "s-empty-ends",
        // the last inner step is the third-level delegation when there is only one inner step
        "inner-link-tampered" => !(tree.levels == 3 && tree.n_inner == 1),
        _ => true,
    }
}

fn conflict(a: &str, b: &str) -> bool {
    let group = |d: &str| -> u8 {
        match d {
            "inner-signed-by-G-filed-under-F" | "inner-signed-by-unauthorized-G-under-G" => 1,
            "sublayout-refiled-under-key-id-in-upper-case" | "subdir-named-after-other-key" | "subdir-named-after-step-only" | "inner-links-in-parent-dir" | "inner-links-in-directory-of-name-before-last-dot" | "inner-links-in-directory-matched-as-a-pattern" => 2,
            "inner-step-named-into-the-parent-directory" | "inner-link-by-unauthorized-key" | "inner-link-by-key-outside-inner-table" | "inner-link-missing:first" | "inner-threshold-2-one-link" | "inner-threshold-2-links-disagree" => 3,
            _ => 0,
        }
    };
    a != b && group(a) != 0 && group(a) == group(b)
}

fn judge(acc: &mut Acc, tree: &Tree, devs: &BTreeSet<&str>, v: &Verdict) {
    acc.evaluations += 1;
    acc.traces += 1;
    acc.outcome(&format!("{}|{}", if devs.is_empty() { "valid-tree" } else { "deviation" }, v.tag()));
    match v {
        Verdict::Panic(l, m) => acc.violation(&format!("panic:{l}"), &format!("verification panicked at {l}: {m}"), || state_json(tree, devs)),
        Verdict::Err(_) => {
            if devs.is_empty() {
                acc.note("valid-tree-rejected(one-directional: not judged)");
            }
        }
        Verdict::Ok(summary) => {
            acc.accepting += 1;
            if !devs.is_empty() {
                let key = format!("accepted:{}", devs.iter().cloned().collect::<Vec<_>>().join("+"));
                acc.violation(&key, &format!("a delegated step was accepted although its sub-layout evidence is not valid ({key})"), || state_json(tree, devs));
            } else {
                let want = expected_summary(tree);
                if *summary != want {
                    let mut diff = vec![];
                    for f in ["name", "materials", "products", "command", "byproducts"] {
                        if summary[f] != want[f] {
                            diff.push(f);
                        }
                    }
                    acc.violation(
                        &format!("summary-differs:{}", diff.join("+")),
                        "the summary of a successful verification is not (first step's materials; last step's products, command, byproducts; requested name)",
                        || {
                            let mut j = state_json(tree, devs);
                            j["returned"] = summary.clone();
                            j["expected"] = want.clone();
                            j
                        },
                    );
                }
            }
        }
    }
}

/// Plain (non-delegated) layouts of 1..3 steps: the summary clause alone.
fn plain_summaries(acc: &mut Acc) {
    let kk = k();
    for n in 1..=3usize {
        let dir = util::fresh_dir("c15p");
        let mut steps = vec![];
        for i in 1..=n {
            steps.push(world::step(&format!("in{i}"), 1, &[kk.b]));
            world::write(&dir, &world::link_file(&format!("in{i}"), kk.b), &world::block_text(&world::sign_link(inner_link(i), &[kk.b])));
        }
        let lay = world::sign_layout(world::layout(steps, vec![], &[kk.b], world::far_future()), &[kk.owner]);
        let v = world::verify(&lay, world::owner_map(&[kk.owner]), &dir);
        acc.evaluations += 1;
        let want = {
            let last = inner_link(n);
            let l = LinkMetadataBuilder::new().name(String::new()).materials(inner_link(1).materials).products(last.products.clone()).byproducts(last.byproducts.clone()).command(last.command.clone()).build().unwrap();
            serde_json::to_value(MetadataWrapper::Link(l)).unwrap()
        };
        match v {
            Verdict::Ok(s) => {
                acc.accepting += 1;
                if s != want {
                    acc.violation("summary-differs:plain-layout", "summary of a plain layout is not first materials / last products, command, byproducts", || json!({"plain_steps": n, "returned": s, "expected": want}));
                }
            }
            other => acc.note(&format!("plain-layout-{n}-rejected:{}", other.tag())),
        }
    }
}

/// The summary is made of *step* evidence. A layout whose inspection carries the name of its first /
/// last step (C08's shape S4, run in a worker with a private working directory) must still return
/// the step's materials, products, command and byproducts.
/// The same layout (an inspection that carries the name of its step) with a step whose signed link
/// breaks the step's rules: complete verification fails, whatever the inspection's link says.
fn failing_step_with_colliding_inspection(acc: &mut Acc) {
    for fault in ["step-rule-fail:first", "step-rule-fail-by-name:first", "step-rule-fail-by-name:last"] {
        let case = json!({"shape": "S4", "faults": [fault], "cmd": "exit0", "rule": "none", "cmd_pos": 0});
        let r = crate::worker::run_cases("c08", std::slice::from_ref(&case), 120);
        acc.evaluations += 1;
        acc.nontrivial += 1;
        match &r[0] {
            crate::worker::WorkerResult::Done(out) => {
                if out["detail"].get("ok").is_some() {
                    acc.violation("accepted:step-rule-failure-hidden-by-an-inspection-of-its-name", "a layout whose step's signed link breaks the step's rules was accepted because an inspection carries the step's name", || json!({"inspection_named_like_step": true, "fault": fault, "observed": out}));
                } else {
                    acc.outcome("failing-step-next-to-inspection-of-its-name-rejected");
                }
            }
            _ => crate::util::machinery_error("C15: worker for the colliding-name case died"),
        }
    }
}

/// Round 14: "a sub-layout's own inspections are run" - and a sub-layout whose inspection does not
/// succeed has not passed complete verification. C08's shape S3 (step s0 delegated to a functionary
/// whose sub-layout has step `in` and its own inspection `j0`), everything valid, the sub-layout's
/// inspection running each command of C08's command alphabet in a private working directory.
fn sublayout_inspection_outcomes(acc: &mut Acc) {
    for inner_cmd in crate::props::c08::COMMANDS {
        let case = json!({"shape": "S3", "faults": [], "cmd": "exit0", "rule": "none", "cmd_pos": 0, "inner_cmd": inner_cmd});
        let r = crate::worker::run_cases("c08", std::slice::from_ref(&case), 120);
        acc.evaluations += 1;
        acc.nontrivial += 1;
        let must_fail = matches!(inner_cmd, "exit1" | "exit2" | "exit126" | "exit255" | "kill9" | "notfound" | "create-exit3");
        match &r[0] {
            crate::worker::WorkerResult::Done(out) => {
                let accepted = out["detail"].get("ok").is_some();
                if accepted {
                    acc.accepting += 1;
                }
                if must_fail && accepted {
                    acc.violation(
                        &format!("accepted:sub-layout-inspection-did-not-succeed:{inner_cmd}"),
                        "a delegated step was accepted although the inspection of its sub-layout did not run to a zero exit status",
                        || json!({"sublayout_inspection": inner_cmd, "observed": out}),
                    );
                } else {
                    acc.outcome(if accepted { "sub-layout-inspection-succeeds-accepted" } else if must_fail { "sub-layout-inspection-fails-rejected" } else { "sub-layout-inspection-succeeds-rejected(one-directional: not judged)" });
                }
            }
            _ => crate::util::machinery_error("C15: worker for the sub-layout inspection case died"),
        }
    }
}

fn summary_with_colliding_inspection(acc: &mut Acc) {
    let case = json!({"shape": "S4", "faults": [], "cmd": "exit0", "rule": "none", "cmd_pos": 0});
    let r = crate::worker::run_cases("c08", std::slice::from_ref(&case), 120);
    acc.evaluations += 1;
    acc.nontrivial += 1;
    match &r[0] {
        crate::worker::WorkerResult::Done(out) => {
            let Some(summary) = out["detail"].get("ok") else {
                acc.note("layout-with-inspection-named-like-its-step-rejected(one-directional: not judged)");
                return;
            };
            acc.accepting += 1;
            // the step link of that shape: materials {src: #1}, products {out: #2}, command [true], return value 0
            let want = serde_json::to_value(world::link("s0", world::arts(&[("src", 1)]), world::arts(&[("out", 2)]))).unwrap();
            let mut diff = vec![];
            for f in ["materials", "products", "command", "byproducts"] {
                if summary[f] != want[f] {
                    diff.push(f);
                }
            }
            if diff.is_empty() {
                acc.outcome("summary-of-step-evidence");
            } else {
                acc.violation(
                    &format!("summary-differs:inspection-named-like-step:{}", diff.join("+")),
                    "the summary of a layout whose inspection carries the name of its step is taken from the inspection's link, not from the step's",
                    || json!({"inspection_named_like_step": true, "returned": summary, "expected_from_step_link": want}),
                );
            }
        }
        _ => crate::util::machinery_error("C15: worker for the colliding-name case died"),
    }
}

/// More delegations than the step needs: threshold 1, two functionaries F and G, each hands in a
/// sub-layout with its own sub-directory; one of them - in turn F and G, so that the faulty one has
/// once the smaller and once the larger key id - is faulty in one of the ways the statement lists.
/// A sub-layout that is handed in is verified like any other; a faulty one fails the step.
fn surplus_leg(acc: &mut Acc) {
    let k = k();
    let dir = util::fresh_dir("c15s");
    // (a sub-layout that is altered after signing, or signed by someone else than the functionary
    // it is filed under, is no evidence at all - it is ignored like a badly signed link, and the
    // other functionary's sub-layout satisfies the step: those two are not faults here)
    let faults = ["none", "expired", "sub-directory-missing", "inner-link-missing", "inner-link-by-unauthorized-key", "inner-link-in-parent-directory"];
    for fault in faults {
        for faulty in 0..2usize {
            for e in std::fs::read_dir(&dir).unwrap().flatten() {
                let p = e.path();
                if p.is_dir() {
                    let _ = std::fs::remove_dir_all(p);
                } else {
                    let _ = std::fs::remove_file(p);
                }
            }
            let pair = [k.f, k.g];
            for (i, fk) in pair.iter().enumerate() {
                let bad = i == faulty && fault != "none";
                let expiry = if bad && fault == "expired" { world::now() - chrono::Duration::seconds(1) } else { world::far_future() };
                let inner = world::layout(vec![world::step("in1", 1, &[k.b])], vec![], &[k.b, k.h], expiry);
                let signer = if bad && fault == "signed-by-the-other-functionary" { pair[1 - i] } else { *fk };
                let block = world::sign_layout(inner, &[signer]);
                let text = if bad && fault == "inner-layout-tampered" {
                    let mut v = world::block_value(&block);
                    v["signed"]["readme"] = json!("altered after signing");
                    v.to_string()
                } else {
                    world::block_text(&block)
                };
                world::write(&dir, &world::link_file("s", fk), &text);
                let sub = dir.join(format!("s.{}", fk.prefix()));
                if !(bad && fault == "sub-directory-missing") {
                    std::fs::create_dir_all(&sub).unwrap();
                }
                let l = mk_link("in1", &[("src", 1)], &[("out", 2)]);
                if bad && fault == "inner-link-missing" || bad && fault == "sub-directory-missing" {
                    continue;
                }
                if bad && fault == "inner-link-by-unauthorized-key" {
                    world::write(&sub, &world::link_file("in1", k.h), &world::block_text(&world::sign_link(l, &[k.h])));
                } else if bad && fault == "inner-link-in-parent-directory" {
                    world::write(&dir, &world::link_file("in1", k.b), &world::block_text(&world::sign_link(l, &[k.b])));
                } else {
                    world::write(&sub, &world::link_file("in1", k.b), &world::block_text(&world::sign_link(l, &[k.b])));
                }
            }
            let lay = world::sign_layout(world::layout(vec![world::step("s", 1, &pair)], vec![], &[k.f, k.g], world::far_future()), &[k.owner]);
            let v = world::verify(&lay, world::owner_map(&[k.owner]), &dir);
            acc.evaluations += 1;
            acc.states += 1;
            acc.outcome(&format!("surplus|{}|{}", if fault == "none" { "valid" } else { "faulty" }, v.tag()));
            let which = if pair[faulty].id() < pair[1 - faulty].id() { "smaller" } else { "larger" };
            let w = || json!({"kind": "surplus-sub-layout", "fault": fault, "faulty_functionary_has_the_key_id": which, "faulty_index": faulty});
            match &v {
                Verdict::Ok(_) if fault != "none" => {
                    acc.nontrivial += 1;
                    acc.violation(&format!("accepted:surplus-sub-layout:{fault}"), &format!("a step with threshold 1 and two delegating functionaries was accepted although the sub-layout of the one with the {which} key id is faulty ({fault})"), w);
                }
                Verdict::Panic(l, m) => acc.violation(&format!("panic:{l}"), m, w),
                Verdict::Err(_) if fault == "none" => acc.note("valid-surplus-tree-rejected(one-directional: not judged)"),
                _ => {
                    if fault != "none" {
                        acc.nontrivial += 1;
                    }
                }
            }
        }
    }
}

pub fn run(tier: Tier) -> i32 {
    let mut c = Check::new("C15", "model_checking", tier);
    let max_dev = if tier.thorough() { 2 } else { 1 };
    let mut trees = vec![];
    for step in ["s", "rel.signed", "s p.é", "s?", "s[ab]", "s*"] {
        for shape in ["s", "s+t", "t0+s", "s-empty-ends"] {
            for n_inner in 1..=3 {
                for levels in [2, 3] {
                    if !tier.thorough() && (levels == 3 && n_inner == 3 || step != "s" && n_inner == 3) {
                        continue;
                    }
                    if step.contains(['?', '*', '[']) && (shape != "s" || levels == 3 || n_inner > 2) {
                        continue;
                    }
                    if shape == "s-empty-ends" && step != "s" {
                        continue;
                    }
                    trees.push(Tree { co: false, step, shape, n_inner, levels });
                    if levels == 2 && step == "s" {
                        trees.push(Tree { co: true, step, shape, n_inner, levels });
                    }
                }
            }
        }
    }
    // states: (tree, deviation set) reached by toggling one deviation at a time from the valid tree
    let mut states: Vec<(Tree, BTreeSet<&'static str>)> = vec![];
    let mut transitions = 0u64;
    for t in &trees {
        states.push((t.clone(), BTreeSet::new()));
        let app: Vec<&'static str> = DEVIATIONS.iter().copied().filter(|d| applicable(t, d)).collect();
        for d in &app {
            transitions += 1;
            states.push((t.clone(), [*d].into_iter().collect()));
        }
        if max_dev >= 2 {
            for (i, d1) in app.iter().enumerate() {
                for d2 in app.iter().skip(i + 1) {
                    if conflict(d1, d2) {
                        continue;
                    }
                    transitions += 2;
                    states.push((t.clone(), [*d1, *d2].into_iter().collect()));
                }
            }
        }
    }
    let accs = util::par_fold(
        &states,
        || (Acc::new(), util::fresh_dir("c15")),
        |(acc, dir), i, (tree, devs)| {
            let lay = build(dir, tree, devs);
            let v = world::verify(&lay, world::owner_map(&[k().owner]), dir);
            judge(acc, tree, devs, &v);
            // the same under a requested summary name
            let vn = world::verify_named(&lay, world::owner_map(&[k().owner]), dir, Some("requested"));
            match (&v, &vn) {
                (Verdict::Ok(a), Verdict::Ok(b)) => {
                    let mut want = a.clone();
                    want["name"] = json!("requested");
                    if *b != want {
                        acc.violation("summary-differs:requested-name", "the summary returned under a requested name is not the same summary under that name", || state_json(tree, devs));
                    }
                }
                (Verdict::Err(_), Verdict::Ok(_)) if !devs.is_empty() => {
                    acc.violation(&format!("accepted-with-requested-name:{}", devs.iter().cloned().collect::<Vec<_>>().join("+")), "verification under a requested summary name accepted a tree that is rejected otherwise", || state_json(tree, devs));
                }
                _ => {}
            }
            acc.states += 1;
            if !devs.is_empty() {
                acc.nontrivial += 1;
            }
            if i % 40 == 1 {
                acc.sample(|| state_json(tree, devs));
            }
        },
    );
    let mut acc = Acc::merge_all(accs.into_iter().map(|(a, _)| a).collect());
    acc.transitions += transitions;
    surplus_leg(&mut acc);
    plain_summaries(&mut acc);
    summary_with_colliding_inspection(&mut acc);
    failing_step_with_colliding_inspection(&mut acc);
    sublayout_inspection_outcomes(&mut acc);
    crate::envprobe::judge(&mut acc, "C15:", &mut c.extra);
    c.acc = acc;
    c.rule = "state = (outer shape in {delegated step alone, delegated step followed by a step that MATCHes its products, a step followed by the delegated step, delegated step alone whose first inner step has no materials and whose last has no products}, inner sequence of 1..3 steps, 2 or 3 delegation levels, set of active deviations); transition = toggle one deviation starting from the fully valid tree; each state is one in_toto_verify run on a freshly built directory tree; non-trivial = at least one deviation".into();
    c.bound_completed = format!("{} trees x all sets of <= {max_dev} compatible deviations out of {}; plain layouts of 1..3 steps for the summary clause; a threshold-1 step with two delegating functionaries of whom one (the smaller, then the larger key id) hands in a validly signed sub-layout that fails its own verification in one of 5 ways; a valid delegation whose sub-layout's inspection runs each of 11 commands (7 of them not succeeding)", trees.len(), DEVIATIONS.len());
    c.assume("each deviation alone invalidates the sub-layout evidence (they were chosen that way); ring trusted");
    c.finish()
}

pub fn replay(case: &Value) -> Value {
    if case["kind"] == "surplus-sub-layout" {
        let mut acc = Acc::new();
        surplus_leg(&mut acc);
        let hit = acc.violations.values().find(|v| v.witness["fault"] == case["fault"]).map(|v| v.key.clone());
        return json!({"violation": hit.or_else(|| acc.violations.keys().next().cloned())});
    }
    if case.get("sublayout_inspection").is_some() {
        let mut acc = Acc::new();
        sublayout_inspection_outcomes(&mut acc);
        let want = format!("accepted:sub-layout-inspection-did-not-succeed:{}", case["sublayout_inspection"].as_str().unwrap_or(""));
        return json!({"violation": acc.violations.keys().find(|k| **k == want).or_else(|| acc.violations.keys().next())});
    }
    if case.get("inspection_named_like_step").is_some() {
        let mut acc = Acc::new();
        failing_step_with_colliding_inspection(&mut acc);
        summary_with_colliding_inspection(&mut acc);
        return json!({"violation": acc.violations.keys().next()});
    }
    if case.get("plain_steps").is_some() {
        let mut acc = Acc::new();
        plain_summaries(&mut acc);
        return json!({"violation": acc.violations.keys().next()});
    }
    let shape = ["s", "s+t", "t0+s", "s-empty-ends"].into_iter().find(|s| Some(*s) == case["shape"].as_str()).unwrap_or("s");
    let step = ["s", "rel.signed", "s p.é", "s?", "s[ab]", "s*"].into_iter().find(|s| Some(*s) == case["step"].as_str()).unwrap_or("s");
    let tree = Tree { co: case["co_delegated"].as_bool().unwrap_or(false), step, shape, n_inner: case["inner_steps"].as_u64().unwrap_or(1) as usize, levels: case["levels"].as_u64().unwrap_or(2) as usize };
    let devs: BTreeSet<&'static str> = case["deviations"].as_array().map(|a| a.iter().filter_map(|x| DEVIATIONS.iter().copied().find(|d| Some(*d) == x.as_str())).collect()).unwrap_or_default();
    let dir = util::fresh_dir("c15r");
    let lay = build(&dir, &tree, &devs);
    let v = world::verify(&lay, world::owner_map(&[k().owner]), &dir);
    let mut acc = Acc::new();
    judge(&mut acc, &tree, &devs, &v);
    json!({"verdict": v.to_json(), "expected_summary_if_valid": expected_summary(&tree), "violation": acc.violations.keys().next()})
}
