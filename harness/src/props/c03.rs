//! C03 — artifact rules are enforced exactly as the specification prescribes.
//!
//! E1: explicit-state BFS over rule lists. A state is (artifact configuration,
//! side, rule list); its canonical form is (configuration, side, remaining
//! queue). A transition appends one rule. At every state the real rule engine
//! (hook `verif_hooks::apply_rules`) is compared with the specification's
//! algorithm on the verdict and on the remaining queue, which is observed
//! through verdicts alone: path p is still queued after list r iff
//! r + [DISALLOW p] fails while r passes.

use std::collections::{BTreeMap, BTreeSet, HashMap, HashSet, VecDeque};

use in_toto::models::inspection::Inspection;
use in_toto::models::rule::{Artifact, ArtifactRule};
use in_toto::models::step::Step;
use in_toto::models::supply_chain_item::SupplyChainItem;
use in_toto::models::LinkMetadata;
use serde::{Deserialize, Serialize};
use serde_json::{json, Value};

use crate::keys;
use crate::report::{Acc, Check, Tier};
use crate::util::{self, guard, Guard};
use crate::world::{self, Verdict};

// ---------------------------------------------------------------- alphabet

#[derive(Clone, Copy, Debug, PartialEq, Eq, Hash, PartialOrd, Ord, Serialize, Deserialize)]
pub enum Kind {
    Create,
    Delete,
    Modify,
    Allow,
    Require,
    Disallow,
}

#[derive(Clone, Debug, PartialEq, Eq, Hash, PartialOrd, Ord, Serialize, Deserialize)]
pub enum Rule {
    Simple(Kind, String),
    Match {
        pattern: String,
        in_src: Option<String>,
        products: bool,
        in_dst: Option<String>,
        from: String,
    },
}

impl Rule {
    fn to_lib(&self) -> ArtifactRule {
        match self {
            Rule::Simple(k, p) => {
                let p = world::vpath(p);
                match k {
                    Kind::Create => ArtifactRule::Create(p),
                    Kind::Delete => ArtifactRule::Delete(p),
                    Kind::Modify => ArtifactRule::Modify(p),
                    Kind::Allow => ArtifactRule::Allow(p),
                    Kind::Require => ArtifactRule::Require(p),
                    Kind::Disallow => ArtifactRule::Disallow(p),
                }
            }
            Rule::Match { pattern, in_src, products, in_dst, from } => ArtifactRule::Match {
                pattern: world::vpath(pattern),
                in_src: in_src.clone(),
                with: if *products { Artifact::Products } else { Artifact::Materials },
                in_dst: in_dst.clone(),
                from: from.clone(),
            },
        }
    }
    fn kind_name(&self) -> &'static str {
        match self {
            Rule::Simple(Kind::Create, _) => "CREATE",
            Rule::Simple(Kind::Delete, _) => "DELETE",
            Rule::Simple(Kind::Modify, _) => "MODIFY",
            Rule::Simple(Kind::Allow, _) => "ALLOW",
            Rule::Simple(Kind::Require, _) => "REQUIRE",
            Rule::Simple(Kind::Disallow, _) => "DISALLOW",
            Rule::Match { .. } => "MATCH",
        }
    }
}

pub const BAD_PATTERNS: [&str; 2] = ["[", "a**b"];

pub fn rule_alphabet(thorough: bool) -> Vec<Rule> {
    let mut v = vec![];
    let pats: &[&str] = if thorough { &["a", "*", "d/*", "?", "b", "[ab]", "d/?"] } else { &["a", "*", "d/*", "?", "b"] };
    for k in [Kind::Create, Kind::Delete, Kind::Modify, Kind::Allow, Kind::Require, Kind::Disallow] {
        for p in pats {
            v.push(Rule::Simple(k, p.to_string()));
        }
    }
    for p in BAD_PATTERNS {
        v.push(Rule::Simple(Kind::Disallow, p.to_string()));
    }
    for pattern in ["a", "*"] {
        for in_src in [None, Some("d"), Some("d/"), Some("")] {
            if in_src == Some("") && (pattern != "a" || !thorough) {
                continue;
            }
            for products in [false, true] {
                for in_dst in [None, Some("e")] {
                    for from in ["other", "nostep"] {
                        v.push(Rule::Match {
                            pattern: pattern.into(),
                            in_src: in_src.map(|s| s.to_string()),
                            products,
                            in_dst: in_dst.map(|s| s.to_string()),
                            from: from.into(),
                        });
                    }
                }
            }
        }
    }
    v
}

type Arts = BTreeMap<String, u8>;

#[derive(Clone, Debug, Serialize, Deserialize, PartialEq, Eq)]
pub struct Config {
    pub materials: Arts,
    pub products: Arts,
    /// (materials, products) of the step `other`; None = that step has no link
    pub other: Option<(Arts, Arts)>,
}

const PATHS: [&str; 3] = ["a", "b", "d/a"];

fn item_configs() -> Vec<(Arts, Arts)> {
    // each path: 0 absent, 1 deleted, 2 created, 3 unchanged, 4 modified
    let mut out = vec![];
    for code in 0..125usize {
        let mut m = Arts::new();
        let mut p = Arts::new();
        let mut c = code;
        for path in PATHS {
            match c % 5 {
                1 => {
                    m.insert(path.into(), 1);
                }
                2 => {
                    p.insert(path.into(), 2);
                }
                3 => {
                    m.insert(path.into(), 1);
                    p.insert(path.into(), 1);
                }
                4 => {
                    m.insert(path.into(), 1);
                    p.insert(path.into(), 2);
                }
                _ => {}
            }
            c /= 5;
        }
        out.push((m, p));
    }
    out
}

fn other_configs(thorough: bool) -> Vec<Option<(Arts, Arts)>> {
    let mk = |v: &[(&str, u8)]| -> Arts { v.iter().map(|(p, d)| (p.to_string(), *d)).collect() };
    let mut v = vec![
        None,
        Some((
            mk(&[("a", 2), ("e/a", 2), ("b", 1)]),
            mk(&[("a", 1), ("b", 2), ("d/a", 1), ("e/a", 1)]),
        )),
    ];
    if thorough {
        v.push(Some((mk(&[]), mk(&[("a", 2), ("e/a", 1), ("e/d/a", 1), ("e/b", 2)]))));
        v.push(Some((mk(&[("a", 1), ("b", 1), ("d/a", 2), ("e/a", 2)]), mk(&[]))));
        v.push(Some((mk(&[("e/a", 1), ("e/b", 1), ("e/d/a", 1)]), mk(&[("e/a", 2), ("e/b", 2), ("e/d/a", 2)]))));
    }
    v
}

// ------------------------------------------------------- reference model

/// Portable-subset glob: literals, `*` (any run, including `/`), `?`, `[...]`.
pub fn glob_ref(pat: &str, s: &str) -> Option<bool> {
    fn go(p: &[char], s: &[char]) -> Option<bool> {
        if p.is_empty() {
            return Some(s.is_empty());
        }
        match p[0] {
            '*' => {
                if p.len() > 1 && p[1] == '*' {
                    return None; // outside the portable subset
                }
                for i in 0..=s.len() {
                    if go(&p[1..], &s[i..])? {
                        return Some(true);
                    }
                }
                Some(false)
            }
            '?' => {
                if s.is_empty() {
                    Some(false)
                } else {
                    go(&p[1..], &s[1..])
                }
            }
            '[' => {
                let close = p.iter().skip(2).position(|c| *c == ']').map(|i| i + 2)?;
                let (neg, set) = if p[1] == '!' { (true, &p[2..close]) } else { (false, &p[1..close]) };
                if s.is_empty() {
                    return Some(false);
                }
                let mut hit = false;
                let mut i = 0;
                while i < set.len() {
                    if i + 2 < set.len() && set[i + 1] == '-' {
                        if set[i] <= s[0] && s[0] <= set[i + 2] {
                            hit = true;
                        }
                        i += 3;
                    } else {
                        if set[i] == s[0] {
                            hit = true;
                        }
                        i += 1;
                    }
                }
                if hit != neg {
                    go(&p[close + 1..], &s[1..])
                } else {
                    Some(false)
                }
            }
            c => {
                if !s.is_empty() && s[0] == c {
                    go(&p[1..], &s[1..])
                } else {
                    Some(false)
                }
            }
        }
    }
    go(&pat.chars().collect::<Vec<_>>(), &s.chars().collect::<Vec<_>>())
}

/// Is the pattern inside the portable subset (and hence interpretable)?
pub fn interpretable(pat: &str) -> bool {
    if pat.contains("**") {
        return false;
    }
    let c: Vec<char> = pat.chars().collect();
    let mut i = 0;
    while i < c.len() {
        if c[i] == '[' {
            match c.iter().skip(i + 2).position(|x| *x == ']') {
                Some(off) => i += off + 2,
                None => return false,
            }
        }
        i += 1;
    }
    true
}

#[derive(Clone, Copy, PartialEq, Eq, Debug)]
pub enum Side {
    Materials,
    Products,
}

fn norm_prefix(p: &Option<String>) -> String {
    match p {
        None => String::new(),
        Some(s) if s.is_empty() => String::new(),
        Some(s) => format!("{}/", s.trim_end_matches('/')),
    }
}

/// The specification's algorithm for one side. Ok(remaining queue) / Err(index
/// of the failing rule).
pub fn reference(cfg: &Config, side: Side, rules: &[Rule]) -> Result<BTreeSet<String>, usize> {
    let (m, p) = (&cfg.materials, &cfg.products);
    let created: BTreeSet<&String> = p.keys().filter(|k| !m.contains_key(*k)).collect();
    let deleted: BTreeSet<&String> = m.keys().filter(|k| !p.contains_key(*k)).collect();
    let modified: BTreeSet<&String> = m.keys().filter(|k| p.contains_key(*k) && p[*k] != m[*k]).collect();
    let arts = if side == Side::Materials { m } else { p };
    let mut queue: BTreeSet<String> = arts.keys().cloned().collect();
    for (i, r) in rules.iter().enumerate() {
        let consumed: BTreeSet<String> = match r {
            Rule::Simple(kind, pat) => {
                let interpretable = interpretable(pat);
                let filtered: BTreeSet<String> = queue
                    .iter()
                    .filter(|q| glob_ref(pat, q).unwrap_or(false))
                    .cloned()
                    .collect();
                match kind {
                    Kind::Create => filtered.into_iter().filter(|q| created.contains(q)).collect(),
                    Kind::Delete => filtered.into_iter().filter(|q| deleted.contains(q)).collect(),
                    Kind::Modify => filtered.into_iter().filter(|q| modified.contains(q)).collect(),
                    Kind::Allow => filtered,
                    Kind::Require => {
                        if !queue.contains(pat) {
                            return Err(i);
                        }
                        BTreeSet::new()
                    }
                    Kind::Disallow => {
                        if !interpretable || !filtered.is_empty() {
                            return Err(i);
                        }
                        BTreeSet::new()
                    }
                }
            }
            Rule::Match { pattern, in_src, products, in_dst, from } => {
                let mut out = BTreeSet::new();
                if from == "other" {
                    if let Some((om, op)) = &cfg.other {
                        let d = if *products { op } else { om };
                        let sp = norm_prefix(in_src);
                        let dp = norm_prefix(in_dst);
                        for q in &queue {
                            let Some(base) = q.strip_prefix(&sp) else { continue };
                            if !glob_ref(pattern, base).unwrap_or(false) {
                                continue;
                            }
                            if let Some(dd) = d.get(&format!("{dp}{base}")) {
                                if *dd == arts[q] {
                                    out.insert(q.clone());
                                }
                            }
                        }
                    }
                }
                out
            }
        };
        for c in consumed {
            queue.remove(&c);
        }
    }
    Ok(queue)
}

// ------------------------------------------------------------ real engine

/// Digest codes: 1, 2 (and any other small number) = {sha256: h(n)};
/// 11 = {sha512: H(1)}; 12 = {sha256: h(1), sha512: H(1)}; 13 = {sha256: h(1), sha512: H(2)};
/// 14 = {} (no algorithm); 15 = {sha256: h(1) without its last byte}; 16 = {sha256: no bytes};
/// 17 = {sha256: h(1) plus one byte} - digests of which one is a prefix of the other.
/// Distinct codes are distinct digest maps.
fn code_desc(d: u8) -> in_toto::models::TargetDescription {
    use in_toto::crypto::{HashAlgorithm, HashValue};
    let mut m = in_toto::models::TargetDescription::new();
    match d {
        11 => {
            m.insert(HashAlgorithm::Sha512, HashValue::new(util::sha512(&[1])));
        }
        12 => return world::desc2(1),
        13 => {
            m = world::desc(1);
            m.insert(HashAlgorithm::Sha512, HashValue::new(util::sha512(&[2])));
        }
        14 => {}
        15 | 16 | 17 => {
            let full = world::h(1);
            let v = match d {
                15 => full[..full.len() - 1].to_vec(),
                16 => vec![],
                _ => {
                    let mut e = full.clone();
                    e.push(0);
                    e
                }
            };
            m.insert(HashAlgorithm::Sha256, HashValue::new(v));
        }
        n => return world::desc(n),
    }
    m
}

fn to_lib_arts(a: &Arts) -> world::Artifacts {
    a.iter().map(|(p, d)| (world::vpath(p), code_desc(*d))).collect()
}

/// Configurations about digest-map equality: one artifact on each side recorded with
/// every pair of digest-map shapes.
fn algorithm_configs() -> Vec<Config> {
    let codes = [1u8, 2, 11, 12, 13, 14, 15, 16, 17];
    let mut out = vec![];
    for x in codes {
        for y in codes {
            for z in codes {
                if z != 1 && z != x {
                    continue;
                }
                let mk = |v: &[(&str, u8)]| -> Arts { v.iter().map(|(p, d)| (p.to_string(), *d)).collect() };
                out.push(Config { materials: mk(&[("a", x)]), products: mk(&[("a", z), ("b", x)]), other: Some((mk(&[("a", y), ("b", y)]), mk(&[("a", y), ("e/a", y), ("b", x)]))) });
            }
        }
    }
    out
}

/// Configurations over paths that differ from the patterns and prefixes of the rule alphabet only
/// in a way a sloppy matcher would miss: a leading dot (`*` and `d/*` match it), another case
/// (`a` does not match `A`), a path that shares characters but not a component with the IN prefix
/// `d` (`da`, `dd/a`), and the prefix directory itself as an artifact (`d`).
fn odd_path_configs() -> Vec<Config> {
    let mk = |v: &[(&str, u8)]| -> Arts { v.iter().map(|(p, d)| (p.to_string(), *d)).collect() };
    let odd = [".h", "d/.h", "A", "da", "dd/a", "d"];
    let other_full = Some((mk(&[("a", 1), (".h", 1), ("A", 1), ("da", 1), ("e/a", 1), ("e/.h", 1)]), mk(&[("a", 2), (".h", 2), ("A", 2), ("da", 2), ("d", 2), ("h", 2), ("e/a", 2), ("e/.h", 2), ("e/da", 2)])));
    let mut out = vec![];
    for o in [None, other_full.clone()] {
        for p in odd {
            out.push(Config { materials: mk(&[]), products: mk(&[(p, 2)]), other: o.clone() });
            out.push(Config { materials: mk(&[(p, 1)]), products: mk(&[(p, 1)]), other: o.clone() });
            out.push(Config { materials: mk(&[(p, 1)]), products: mk(&[]), other: o.clone() });
            // next to the plain path it resembles
            out.push(Config { materials: mk(&[("a", 1), ("d/a", 1)]), products: mk(&[(p, 2), ("a", 2), ("d/a", 2)]), other: o.clone() });
        }
        let all: Vec<(&str, u8)> = odd.iter().map(|p| (*p, 2u8)).chain([("a", 2u8), ("d/a", 2u8)]).collect();
        out.push(Config { materials: mk(&[]), products: mk(&all), other: o.clone() });
        out.push(Config { materials: mk(&all), products: mk(&[]), other: o.clone() });
    }
    out
}

pub struct Engine {
    links: HashMap<String, LinkMetadata>,
}

#[derive(Clone, Copy, PartialEq, Eq, Debug)]
pub enum ItemKind {
    Step,
    Inspection,
}

impl Engine {
    pub fn new(cfg: &Config) -> Engine {
        let mut links = HashMap::new();
        links.insert(
            "item".to_string(),
            world::link("item", to_lib_arts(&cfg.materials), to_lib_arts(&cfg.products)),
        );
        if let Some((om, op)) = &cfg.other {
            links.insert("other".to_string(), world::link("other", to_lib_arts(om), to_lib_arts(op)));
        }
        Engine { links }
    }

    /// Ok(true) = rules pass, Ok(false) = rules fail, Err = panic location.
    pub fn apply(&self, kind: ItemKind, mats: &[ArtifactRule], prods: &[ArtifactRule]) -> Result<bool, String> {
        let item: Box<dyn SupplyChainItem> = match kind {
            ItemKind::Step => Box::new(
                Step::new("item").expected_materials(mats.to_vec()).expected_products(prods.to_vec()),
            ),
            ItemKind::Inspection => Box::new(
                Inspection::new("item").expected_materials(mats.to_vec()).expected_products(prods.to_vec()),
            ),
        };
        match guard(|| in_toto::verif_hooks::apply_rules(&item, &self.links)) {
            Guard::Done(r) => Ok(r.is_ok()),
            Guard::Panicked(l, _) => Err(l),
        }
    }

    fn apply_side(&self, kind: ItemKind, side: Side, rules: &[ArtifactRule]) -> Result<bool, String> {
        match side {
            Side::Materials => self.apply(kind, rules, &[]),
            Side::Products => self.apply(kind, &[], rules),
        }
    }

    /// Observe the remaining queue through DISALLOW probes.
    pub fn observe_queue(
        &self,
        kind: ItemKind,
        side: Side,
        rules: &[ArtifactRule],
        paths: &[&String],
        calls: &mut u64,
    ) -> Result<BTreeSet<String>, String> {
        let mut q = BTreeSet::new();
        let mut probe = rules.to_vec();
        for p in paths {
            probe.push(ArtifactRule::Disallow(world::vpath(p)));
            *calls += 1;
            if !self.apply_side(kind, side, &probe)? {
                q.insert((*p).clone());
            }
            probe.pop();
        }
        Ok(q)
    }
}

// ----------------------------------------------------------- comparison

fn case_json(cfg: &Config, side: Side, kind: ItemKind, rules: &[Rule]) -> Value {
    json!({
        "config": cfg,
        "side": if side == Side::Materials { "materials" } else { "products" },
        "item": if kind == ItemKind::Step { "step" } else { "inspection" },
        "rules": rules.iter().map(|r| world::rule_json(&r.to_lib())).collect::<Vec<_>>(),
        "rules_typed": rules,
    })
}

fn classify(
    cfg: &Config,
    side: Side,
    last: &Rule,
    before: &BTreeSet<String>,
    reference_q: &BTreeSet<String>,
    observed_q: &BTreeSet<String>,
) -> String {
    let _ = cfg;
    let _ = side;
    if let Rule::Match { pattern, in_src, .. } = last {
        let sp = norm_prefix(in_src);
        // consumed by the implementation but not by the reference
        for p in before {
            if reference_q.contains(p) && !observed_q.contains(p) {
                return match p.strip_prefix(&sp) {
                    None => "match-src-prefix-not-filtering".into(),
                    Some(base) => {
                        if !glob_ref(pattern, base).unwrap_or(false) {
                            "match-pattern-ignored".into()
                        } else {
                            "match-consumed-without-equal-destination".into()
                        }
                    }
                };
            }
        }
        if in_src.as_deref().is_some_and(|s| s.ends_with('/')) {
            return "match-prefix-trailing-slash".into();
        }
        return "match-not-consumed".into();
    }
    format!("queue:{}", last.kind_name())
}

/// Compare implementation and reference on `rules` (whose last element is the
/// newly appended rule). Returns the reference queue when both agree and pass.
#[allow(clippy::too_many_arguments)]
fn compare(
    acc: &mut Acc,
    eng: &Engine,
    cfg: &Config,
    side: Side,
    kind: ItemKind,
    rules: &[Rule],
    before: &BTreeSet<String>,
) -> Option<BTreeSet<String>> {
    let lib: Vec<ArtifactRule> = rules.iter().map(|r| r.to_lib()).collect();
    acc.evaluations += 1;
    acc.traces += 1;
    let verdict = match eng.apply_side(kind, side, &lib) {
        Ok(v) => v,
        Err(loc) => {
            acc.violation(&format!("panic:{loc}"), &format!("rule application panicked at {loc}"), || case_json(cfg, side, kind, rules));
            return None;
        }
    };
    let reference = reference(cfg, side, rules);
    let last = rules.last().unwrap();
    acc.outcome(&format!("impl-{}/ref-{}", if verdict { "pass" } else { "fail" }, if reference.is_ok() { "pass" } else { "fail" }));
    match (&reference, verdict) {
        (Err(i), true) => {
            let last = &rules[*i];
            let key = match last {
                Rule::Simple(Kind::Disallow, p) if BAD_PATTERNS.contains(&p.as_str()) => "uninterpretable-disallow-skipped".to_string(),
                _ => format!("verdict:{}:accepted-but-specification-rejects", last.kind_name()),
            };
            acc.violation(&key, &format!("rule list accepted although the specification's algorithm rejects it ({key})"), || case_json(cfg, side, kind, rules));
            None
        }
        (Ok(_), false) => {
            let key = format!("verdict:{}:rejected-but-specification-accepts", last.kind_name());
            acc.violation(&key, &format!("rule list rejected although the specification's algorithm accepts it ({key})"), || case_json(cfg, side, kind, rules));
            None
        }
        (Err(_), false) => None,
        (Ok(rq), true) => {
            acc.accepting += 1;
            let arts = if side == Side::Materials { &cfg.materials } else { &cfg.products };
            let paths: Vec<&String> = arts.keys().collect();
            let mut calls = 0;
            let oq = match eng.observe_queue(kind, side, &lib, &paths, &mut calls) {
                Ok(q) => q,
                Err(loc) => {
                    acc.violation(&format!("panic:{loc}"), &format!("rule application panicked at {loc}"), || case_json(cfg, side, kind, rules));
                    return None;
                }
            };
            acc.note_n("queue_probe_calls", calls);
            if &oq != rq {
                let key = classify(cfg, side, last, before, rq, &oq);
                acc.violation(
                    &key,
                    &format!("after this rule list the artifact queue differs from the specification's ({key})"),
                    || {
                        let mut j = case_json(cfg, side, kind, rules);
                        j["reference_queue"] = json!(rq);
                        j["observed_queue"] = json!(oq);
                        j
                    },
                );
                return None;
            }
            Some(rq.clone())
        }
    }
}

/// BFS over rule lists for one (config, side, item kind), deduplicated on the
/// remaining queue. Returns (states, transitions).
fn bfs_side(acc: &mut Acc, cfg: &Config, eng: &Engine, side: Side, kind: ItemKind, alphabet: &[Rule], max_depth: usize) -> (u64, u64) {
    let arts = if side == Side::Materials { &cfg.materials } else { &cfg.products };
    let q0: BTreeSet<String> = arts.keys().cloned().collect();
    let mut seen: HashSet<BTreeSet<String>> = HashSet::new();
    seen.insert(q0.clone());
    let mut frontier: VecDeque<(Vec<Rule>, BTreeSet<String>)> = VecDeque::new();
    frontier.push_back((vec![], q0));
    let mut transitions = 0;
    while let Some((hist, queue)) = frontier.pop_front() {
        if hist.len() >= max_depth {
            continue;
        }
        for r in alphabet {
            transitions += 1;
            let mut rules = hist.clone();
            rules.push(r.clone());
            if let Some(nq) = compare(acc, eng, cfg, side, kind, &rules, &queue) {
                if seen.insert(nq.clone()) {
                    frontier.push_back((rules, nq));
                }
            }
        }
    }
    (seen.len() as u64, transitions)
}

/// Pure enumeration of all rule lists of length `depth` (no deduplication),
/// used to validate the canonicalisation of `bfs_side`.
fn enumerate_side(acc: &mut Acc, cfg: &Config, eng: &Engine, side: Side, kind: ItemKind, alphabet: &[Rule], depth: usize) {
    for seq in util::sequences(alphabet.len(), depth) {
        let rules: Vec<Rule> = seq.iter().map(|i| alphabet[*i].clone()).collect();
        // `before` for attribution: the reference queue before the last rule
        let before = reference(cfg, side, &rules[..rules.len() - 1]).unwrap_or_default();
        // a list whose proper prefix already disagrees is reported at that
        // prefix (shorter lists are enumerated too), not again here
        if rules.len() > 1 {
            let mut scratch = Acc::new();
            let pre = &rules[..rules.len() - 1];
            let pre_before = reference(cfg, side, &pre[..pre.len() - 1]).unwrap_or_default();
            compare(&mut scratch, eng, cfg, side, kind, pre, &pre_before);
            if !scratch.violations.is_empty() {
                acc.note("nodedup_lists_skipped_bad_prefix");
                continue;
            }
        }
        compare(acc, eng, cfg, side, kind, &rules, &before);
        acc.note("nodedup_lists");
    }
}

// --------------------------------------------------- end-to-end binding

fn e2e_verdict(cfg: &Config, mats: &[ArtifactRule], prods: &[ArtifactRule], dir: &std::path::Path, item_first: bool) -> Verdict {
    for e in std::fs::read_dir(dir).unwrap().flatten() {
        let _ = std::fs::remove_file(e.path());
    }
    let a = keys::get("ed1");
    let owner = keys::get("ed6");
    let item = world::step("item", 1, &[a]).expected_materials(mats.to_vec()).expected_products(prods.to_vec());
    let mut steps = vec![item];
    world::write(
        dir,
        &world::link_file("item", a),
        &world::block_text(&world::sign_link(world::link("item", to_lib_arts(&cfg.materials), to_lib_arts(&cfg.products)), &[a])),
    );
    if let Some((om, op)) = &cfg.other {
        // the referenced step comes after or before the item, with no rules or with rules that always pass
        let o = world::step("other", 1, &[a]);
        if item_first {
            steps.push(o);
        } else {
            steps.insert(0, o.add_expected_product(ArtifactRule::Allow(world::vpath("*"))));
        }
        world::write(
            dir,
            &world::link_file("other", a),
            &world::block_text(&world::sign_link(world::link("other", to_lib_arts(om), to_lib_arts(op)), &[a])),
        );
    }
    let lay = world::sign_layout(world::layout(steps, vec![], &[a], world::far_future()), &[owner]);
    world::verify(&lay, world::owner_map(&[owner]), dir)
}

pub fn selftest(c: &mut Check) {
    // the reference matcher must agree with the glob crate on the alphabet
    let mut pats: Vec<String> = vec![];
    for r in rule_alphabet(true) {
        match r {
            Rule::Simple(_, p) => pats.push(p),
            Rule::Match { pattern, .. } => pats.push(pattern),
        }
    }
    pats.sort();
    pats.dedup();
    let subjects = ["", "a", "b", "d/a", "e/a", "e/b", "e/d/a", "ab", "d/", "c", ".h", "d/.h", "A", "da", "dd/a", "d", "h", "e/.h", "e/da"];
    let mut bad = String::new();
    for p in &pats {
        for s in subjects {
            let lib = glob::Pattern::new(p).ok().map(|g| g.matches(s));
            let mine = glob_ref(p, s);
            if BAD_PATTERNS.contains(&p.as_str()) {
                if lib.is_some() {
                    bad = format!("pattern {p:?} compiles in the glob crate but is listed as uninterpretable");
                }
                continue;
            }
            if lib != mine {
                bad = format!("glob reference disagrees with glob crate on ({p:?}, {s:?}): {mine:?} vs {lib:?}");
            }
        }
    }
    c.selftest("glob-reference-vs-glob-crate", bad.is_empty(), &bad);
    // the three verify_match_rule cases of the repository's unit tests, restated
    let mk = |v: &[(&str, u8)]| -> Arts { v.iter().map(|(p, d)| (p.to_string(), *d)).collect() };
    let t1 = Config { materials: mk(&[]), products: mk(&[("demo-project.tar.gz", 1), ("not-deleted.tar", 9)]), other: Some((mk(&[("demo-project/foo.py", 3)]), mk(&[("demo-project.tar.gz", 1)]))) };
    let r1 = Rule::Match { pattern: "demo-project.tar.gz".into(), in_src: None, products: true, in_dst: None, from: "other".into() };
    let ok1 = reference(&t1, Side::Products, &[r1]) == Ok(["not-deleted.tar".to_string()].into_iter().collect());
    let t2 = Config { materials: mk(&[]), products: mk(&[("demo-project.tar.gz", 9)]), other: Some((mk(&[]), mk(&[("test/demo-project.tar.gz", 9)]))) };
    let r2 = Rule::Match { pattern: "*".into(), in_src: None, products: true, in_dst: Some("test".into()), from: "other".into() };
    let ok2 = reference(&t2, Side::Products, &[r2]) == Ok(BTreeSet::new());
    let t3 = Config { materials: mk(&[]), products: mk(&[("dir1/test1", 9)]), other: Some((mk(&[]), mk(&[("test/test1", 9)]))) };
    let r3 = Rule::Match { pattern: "test1".into(), in_src: Some("dir1".into()), products: true, in_dst: Some("test".into()), from: "other".into() };
    let ok3 = reference(&t3, Side::Products, &[r3]) == Ok(BTreeSet::new());
    c.selftest("rules-reference-on-repository-match-cases", ok1 && ok2 && ok3, "reference MATCH semantics");
}

pub fn run(tier: Tier) -> i32 {
    let mut c = Check::new("C03", "model_checking", tier);
    selftest(&mut c);
    let thorough = tier.thorough();
    let alphabet = rule_alphabet(thorough);
    let items = item_configs();
    let others = other_configs(thorough);
    let mut configs: Vec<Config> = items
        .iter()
        .flat_map(|(m, p)| others.iter().map(move |o| Config { materials: m.clone(), products: p.clone(), other: o.clone() }))
        .collect();
    configs.extend(algorithm_configs());
    let n_odd = odd_path_configs().len();
    configs.extend(odd_path_configs());
    let bfs_depth = if thorough { 8 } else { 6 };
    // ---- BFS (deduplicated) ----------------------------------------------
    let accs = util::par_fold(&configs, Acc::new, |acc, ci, cfg| {
        let eng = Engine::new(cfg);
        for side in [Side::Materials, Side::Products] {
            for kind in [ItemKind::Step, ItemKind::Inspection] {
                if kind == ItemKind::Inspection && !thorough && ci % 4 != 0 {
                    continue;
                }
                let (s, t) = bfs_side(acc, cfg, &eng, side, kind, &alphabet, bfs_depth);
                acc.states += s;
                acc.transitions += t;
            }
        }
        let interesting = !cfg.materials.is_empty() || !cfg.products.is_empty();
        if interesting {
            acc.nontrivial += 1;
        }
        if ci == 57 {
            acc.sample(|| case_json(cfg, Side::Products, ItemKind::Step, &alphabet[..2]));
        }
    });
    let mut acc = Acc::merge_all(accs);
    // ---- no-dedup enumeration: validates the canonical state --------------
    // depth 2 on a reduced configuration set (every 5th; thorough: depth 2 on
    // all, depth 3 on every 25th)
    let nd: Vec<(usize, &Config)> = configs.iter().enumerate().collect();
    let accs = util::par_fold(&nd, Acc::new, |acc, _i, (ci, cfg)| {
        let eng = Engine::new(cfg);
        let d2 = thorough || ci % 5 == 0;
        let d3 = thorough && ci % 25 == 0;
        for side in [Side::Materials, Side::Products] {
            if d2 {
                enumerate_side(acc, cfg, &eng, side, ItemKind::Step, &alphabet, 2);
            }
            if d3 {
                enumerate_side(acc, cfg, &eng, side, ItemKind::Step, &alphabet, 3);
            }
        }
        // cross-side independence: one materials rule and one products rule together
        if d2 {
            for rm in &alphabet {
                for rp in &alphabet {
                    acc.evaluations += 1;
                    let both = eng.apply(ItemKind::Step, &[rm.to_lib()], &[rp.to_lib()]);
                    let m = reference(cfg, Side::Materials, std::slice::from_ref(rm)).is_ok();
                    let p = reference(cfg, Side::Products, std::slice::from_ref(rp)).is_ok();
                    let alone_ok = eng.apply(ItemKind::Step, &[rm.to_lib()], &[]) == Ok(m)
                        && eng.apply(ItemKind::Step, &[], &[rp.to_lib()]) == Ok(p);
                    match both {
                        _ if !alone_ok => {} // reported for the single rule
                        Ok(true) if m && p => {
                            // round 12: the queue of either side, observed through DISALLOW
                            // probes while the OTHER side's rule is present, must be the queue
                            // the specification gives for that side alone (nothing that one
                            // pass consumed may be missing from - or left in - the other's)
                            let rqm = reference(cfg, Side::Materials, std::slice::from_ref(rm)).unwrap_or_default();
                            let rqp = reference(cfg, Side::Products, std::slice::from_ref(rp)).unwrap_or_default();
                            for (side, arts, rq) in [(Side::Materials, &cfg.materials, &rqm), (Side::Products, &cfg.products, &rqp)] {
                                let mut oq = BTreeSet::new();
                                let mut panicked = None;
                                for path in arts.keys() {
                                    acc.evaluations += 1;
                                    let probe = ArtifactRule::Disallow(world::vpath(path));
                                    let r = if side == Side::Materials {
                                        eng.apply(ItemKind::Step, &[rm.to_lib(), probe], &[rp.to_lib()])
                                    } else {
                                        eng.apply(ItemKind::Step, &[rm.to_lib()], &[rp.to_lib(), probe])
                                    };
                                    match r {
                                        Ok(false) => {
                                            oq.insert(path.clone());
                                        }
                                        Ok(true) => {}
                                        Err(loc) => panicked = Some(loc),
                                    }
                                }
                                if let Some(loc) = panicked {
                                    acc.violation(&format!("panic:{loc}"), "rule application panicked", || json!({"config": cfg}));
                                } else if &oq != rq {
                                    let which = if side == Side::Materials { "materials-queue" } else { "products-queue" };
                                    acc.violation(
                                        &format!("queue:{}+{}:both-sides:{which}", rm.kind_name(), rp.kind_name()),
                                        &format!("with one rule on each side the {which} differs from the specification's queue for that side"),
                                        || json!({"config": cfg, "materials_rules": [world::rule_json(&rm.to_lib())], "products_rules": [world::rule_json(&rp.to_lib())], "kind": "both-sides", "observed_side": which, "reference_queue": rq, "observed_queue": oq}),
                                    );
                                }
                            }
                        }
                        Ok(v) if v == (m && p) => {}
                        Ok(v) => acc.violation(
                            &format!("verdict:{}+{}:both-sides", rm.kind_name(), rp.kind_name()),
                            &format!("materials and products rules together give {v} but the specification gives {}", m && p),
                            || json!({"config": cfg, "materials_rules": [world::rule_json(&rm.to_lib())], "products_rules": [world::rule_json(&rp.to_lib())], "kind": "both-sides"}),
                        ),
                        Err(loc) => acc.violation(&format!("panic:{loc}"), "rule application panicked", || json!({"config": cfg})),
                    }
                }
            }
        }
    });
    acc.merge(Acc::merge_all(accs));
    // ---- end-to-end binding: depth-1 rule x configuration through in_toto_verify
    let e2e_cfgs: Vec<&Config> = configs.iter().enumerate().filter(|(i, _)| thorough || i % 3 == 0).map(|(_, c)| c).collect();
    let accs = util::par_fold(
        &e2e_cfgs,
        || (Acc::new(), util::fresh_dir("c03")),
        |(acc, dir), _i, cfg| {
            let eng = Engine::new(cfg);
            for (ri, r) in alphabet.iter().enumerate() {
                for side in [Side::Materials, Side::Products] {
                    let lib = vec![r.to_lib()];
                    let (m, p): (&[ArtifactRule], &[ArtifactRule]) = if side == Side::Materials { (&lib, &[]) } else { (&[], &lib) };
                    let hook = eng.apply(ItemKind::Step, m, p);
                    let item_first = (ri + if side == Side::Materials { 0 } else { 1 }) % 2 == 0;
                    let e2e = e2e_verdict(cfg, m, p, dir, item_first);
                    acc.evaluations += 1;
                    acc.note("e2e_runs");
                    let agree = match (&hook, &e2e) {
                        (Ok(h), Verdict::Ok(_)) => *h,
                        (Ok(h), Verdict::Err(_)) => !*h,
                        _ => false,
                    };
                    if !agree {
                        acc.violation(
                            "e2e-binding",
                            "in_toto_verify and the rule-engine seam disagree on a single rule (the seam is not the code verification uses, or a stage outside the rules failed)",
                            || {
                                let mut j = case_json(cfg, side, ItemKind::Step, std::slice::from_ref(r));
                                j["hook"] = json!(format!("{hook:?}"));
                                j["e2e"] = e2e.to_json();
                                j["kind"] = json!("e2e");
                                j["item_first"] = json!(item_first);
                                j
                            },
                        );
                    }
                }
            }
        },
    );
    acc.merge(Acc::merge_all(accs.into_iter().map(|(a, _)| a).collect()));

    c.acc = acc;
    c.rule = format!(
        "state = (artifact configuration, side, remaining queue); {} configurations = 125 item configurations over paths a,b,d/a in {{absent,deleted,created,unchanged,modified}} x {} referenced-step configurations; plus the digest-map-shape configurations (sha256 / sha512 / both / none, and a sha256 digest cut by a byte / of no bytes / longer by a byte, on either side) and {n_odd} configurations over the paths .h, d/.h, A, da, dd/a, d (alone, next to a and d/a, all together; with and without a referenced step that has their twins); transition = append one of {} rules; queue observed through DISALLOW probes; non-trivial = configuration with at least one artifact",
        configs.len(),
        others.len(),
        alphabet.len()
    );
    c.bound_completed = format!(
        "BFS to depth {bfs_depth} deduplicated on the remaining queue (the queue only shrinks, so the fixpoint is reached); pure enumeration without deduplication of all lists of length 2 ({}) and one rule per side jointly (verdict, and both queues observed through DISALLOW probes while the other side's rule is present); end-to-end replay of every single rule through in_toto_verify with the ruled step before / after the referenced step (alternating)",
        if thorough { "all configurations; length 3 on every 25th configuration" } else { "every 5th configuration" }
    );
    c.assume("normalised relative paths and the portable glob subset (self-tested against glob::Pattern)");
    c.assume("uninterpretable patterns only appear in DISALLOW rules");
    c.assume("materials and products rule lists are independent (validated by joint enumeration of one rule per side: verdict and remaining queue of either side)");
    c.finish()
}

pub fn replay(case: &Value) -> Value {
    let cfg: Config = match serde_json::from_value(case["config"].clone()) {
        Ok(c) => c,
        Err(e) => return json!({"error": e.to_string(), "violation": null}),
    };
    let eng = Engine::new(&cfg);
    if case["kind"] == "both-sides" {
        // re-execute the joint case on the real engine: verdict, and both queues through DISALLOW probes
        let parse = |v: &Value| -> Vec<ArtifactRule> { v.as_array().map(|a| a.iter().filter_map(|r| serde_json::from_value(r.clone()).ok()).collect()).unwrap_or_default() };
        let (rm, rp) = (parse(&case["materials_rules"]), parse(&case["products_rules"]));
        let verdict = eng.apply(ItemKind::Step, &rm, &rp);
        let mut queues = serde_json::Map::new();
        for (name, arts) in [("materials-queue", &cfg.materials), ("products-queue", &cfg.products)] {
            let mut q = vec![];
            for path in arts.keys() {
                let probe = ArtifactRule::Disallow(world::vpath(path));
                let (mut m, mut p) = (rm.clone(), rp.clone());
                if name == "materials-queue" { m.push(probe) } else { p.push(probe) }
                if eng.apply(ItemKind::Step, &m, &p) == Ok(false) {
                    q.push(path.clone());
                }
            }
            queues.insert(name.into(), json!(q));
        }
        let differs = case.get("observed_side").and_then(|s| s.as_str()).map(|side| queues[side] != case["reference_queue"]);
        return json!({"verdict": format!("{verdict:?}"), "observed_queues": queues, "reference_queue": case["reference_queue"], "violation": if differs == Some(true) { json!("both-sides-queue") } else if differs.is_none() { json!("both-sides") } else { Value::Null }});
    }
    let rules: Vec<Rule> = serde_json::from_value(case["rules_typed"].clone()).unwrap_or_default();
    let side = if case["side"] == "materials" { Side::Materials } else { Side::Products };
    let kind = if case["item"] == "inspection" { ItemKind::Inspection } else { ItemKind::Step };
    let mut acc = Acc::new();
    let before = reference(&cfg, side, &rules[..rules.len().saturating_sub(1)]).unwrap_or_default();
    let lib: Vec<ArtifactRule> = rules.iter().map(|r| r.to_lib()).collect();
    let verdict = eng.apply_side(kind, side, &lib);
    if case["kind"] == "e2e" {
        let dir = util::fresh_dir("c03r");
        let (m, p): (&[ArtifactRule], &[ArtifactRule]) = if side == Side::Materials { (&lib, &[]) } else { (&[], &lib) };
        let e2e = e2e_verdict(&cfg, m, p, &dir, case["item_first"].as_bool().unwrap_or(true));
        let agree = matches!((&verdict, &e2e), (Ok(true), Verdict::Ok(_)) | (Ok(false), Verdict::Err(_)));
        return json!({"hook": format!("{verdict:?}"), "e2e": e2e.to_json(), "violation": if agree { Value::Null } else { json!("e2e-binding") }});
    }
    if !rules.is_empty() {
        compare(&mut acc, &eng, &cfg, side, kind, &rules, &before);
    }
    json!({
        "implementation_passes": format!("{verdict:?}"),
        "reference": format!("{:?}", reference(&cfg, side, &rules)),
        "violation": acc.violations.keys().next(),
    })
}
