//! C08 — inspections run only after a layout's steps verify; their failure is fatal.
//!
//! E2 over fault-injection choice vectors: (layout shape, set of injected
//! faults, inspection command, inspection rule). Deviation = an injected
//! fault; the bound is the number of simultaneous faults. Every execution runs
//! the real `in_toto_verify` in a worker process with a private cwd; the
//! observables are the verdict, a sentinel file outside the cwd that every
//! inspection command appends its name to, and the `<inspection>.link` files.

use std::collections::BTreeSet;
use std::path::Path;

use in_toto::models::inspection::Inspection;
use in_toto::models::rule::ArtifactRule;
use in_toto::models::step::Step;
use in_toto::models::Metablock;
use serde_json::{json, Value};

use crate::keys::{self, Key};
use crate::report::{Acc, Check, Tier};
use crate::util;
use crate::worker::{self, WorkerResult};
use crate::world::{self, Verdict};

pub const FAULTS: [&str; 21] = [
    // a rule that names what the step's signed link reports (its product `out`) and nothing an
    // inspection could find in the working directory
    "step-rule-fail-by-name:first",
    "step-rule-fail-by-name:last",
    "expired:written-with-an-offset",
    "failing-sublayout-next-to-valid-link:first",
    "tampered-layout",
    "no-keys",
    "wrong-key",
    "expired",
    "missing-link:first",
    "missing-link:last",
    "outsider-link:first",
    "unauthorized-link:last",
    "bad-signature-link:first",
    "bad-signature-link:last",
    "threshold-unmet:first",
    "disagreeing-links:last",
    "step-rule-fail:first",
    "step-rule-fail:last",
    "garbage-link:first",
    "wrong-type-top:link-as-layout",
    "missing-link:all",
];

pub const INNER_FAULTS: [&str; 7] = [
    "inner:expired",
    "inner:missing-link",
    "inner:rule-fail",
    "inner:tampered-layout",
    "inner:signed-by-other-functionary",
    "inner:unauthorized-link",
    "inner:inspection-exit1",
];

pub const COMMANDS: [&str; 11] = [
    "exit0", "exit1", "exit2", "exit126", "exit255", "kill9", "notfound", "create", "modify", "delete", "create-exit3",
];

pub const RULES: [&str; 6] = ["none", "disallow-new", "require-missing", "allow-all", "disallow-all", "modify-a-then-disallow-a"];

fn command_argv(cmd: &str, insp: &str, sentinel: &Path) -> Vec<String> {
    let mark = format!("echo {insp} >> '{}'", sentinel.display());
    let sh = |body: &str| vec!["sh".to_string(), "-c".to_string(), format!("{mark}; {body}")];
    match cmd {
        "exit0" => sh("exit 0"),
        "exit1" => sh("exit 1"),
        "exit2" => sh("exit 2"),
        "exit126" => sh("exit 126"),
        "exit255" => sh("exit 255"),
        "kill9" => sh("kill -9 $$"),
        "notfound" => vec!["/nonexistent/program-xyz".to_string()],
        "create" => sh("echo n > new"),
        "modify" => sh("echo more >> a"),
        "delete" => sh("rm a"),
        "create-exit3" => sh("echo n > new; exit 3"),
        _ => sh("exit 0"),
    }
}

fn command_fails(cmd: &str) -> bool {
    !matches!(cmd, "exit0" | "create" | "modify" | "delete")
}

/// Does the rule reject what the command does to a cwd that contains file `a`?
/// (`a` unchanged unless modified / deleted; `new` created by `create`.)
fn rule_rejects(rule: &str, cmd: &str) -> bool {
    match rule {
        "disallow-new" => cmd == "create",
        "require-missing" => true,
        "disallow-all" => true, // the cwd always has at least one product ... except after delete
        "modify-a-then-disallow-a" => cmd != "modify",
        _ => false,
    }
}

fn rule_rejects_checked(rule: &str, cmd: &str) -> Option<bool> {
    // `disallow-all` after `delete` leaves an empty product set but materials
    // are non-empty: the rule is applied to both, so it still rejects.
    // `modify-a-then-disallow-a`: expected_products only; after delete `a` is
    // not a product, so DISALLOW a passes.
    match (rule, cmd) {
        ("modify-a-then-disallow-a", "delete") => Some(false),
        _ => Some(rule_rejects(rule, cmd)),
    }
}

fn inspection(name: &str, cmd: &str, rule: &str, sentinel: &Path) -> Inspection {
    let mut i = Inspection::new(name).run(command_argv(cmd, name, sentinel).into());
    match rule {
        "disallow-new" => i = i.add_expected_product(ArtifactRule::Disallow("new".into())),
        "require-missing" => i = i.add_expected_product(ArtifactRule::Require("missing-file".into())),
        "allow-all" => {
            i = i.add_expected_product(ArtifactRule::Allow("*".into())).add_expected_material(ArtifactRule::Allow("*".into()))
        }
        "disallow-all" => {
            i = i.add_expected_material(ArtifactRule::Disallow("*".into())).add_expected_product(ArtifactRule::Disallow("*".into()))
        }
        "modify-a-then-disallow-a" => {
            i = i.add_expected_product(ArtifactRule::Modify("a".into())).add_expected_product(ArtifactRule::Disallow("a".into()))
        }
        _ => {}
    }
    i
}

struct Fn4 {
    owner: &'static Key,
    a: &'static Key,
    b: &'static Key,
    d: &'static Key,
    x: &'static Key,
}

fn fk() -> Fn4 {
    Fn4 { owner: keys::get("ed6"), a: keys::get("ed1"), b: keys::get("ed2"), d: keys::get("ed4"), x: keys::get("ed5") }
}

fn has(faults: &[String], f: &str) -> bool {
    faults.iter().any(|x| x == f)
}

fn valid_link(step: &str) -> in_toto::models::LinkMetadata {
    world::link(step, world::arts(&[("src", 1)]), world::arts(&[("out", 2)]))
}

fn tamper(mb: &Metablock) -> String {
    let mut v = world::block_value(mb);
    v["signed"]["byproducts"]["stdout"] = json!("altered after signing");
    v.to_string()
}

/// Build the world for one case and run verification. Everything happens in
/// `dir`: `dir/cwd` (process cwd, contains file `a`), `dir/links`, `dir/sentinel`.
pub fn worker_case(case: &Value, dir: &Path) -> Value {
    let k = fk();
    let shape = case["shape"].as_str().unwrap_or("S1");
    let faults: Vec<String> = case["faults"].as_array().map(|a| a.iter().filter_map(|x| x.as_str().map(String::from)).collect()).unwrap_or_default();
    let cmd = case["cmd"].as_str().unwrap_or("exit0");
    let rule = case["rule"].as_str().unwrap_or("none");
    let cmd_pos = case["cmd_pos"].as_u64().unwrap_or(0) as usize;
    let cwd = dir.join("cwd");
    let links = dir.join("links");
    std::fs::create_dir_all(&cwd).unwrap();
    std::fs::create_dir_all(&links).unwrap();
    std::fs::write(cwd.join("a"), "x").unwrap();
    let sentinel = dir.join("sentinel");
    std::env::set_current_dir(&cwd).unwrap();

    let n_steps = if shape == "S1" || shape == "S4" || shape == "S5" { 1 } else { 2 };
    let step_names: Vec<String> = (0..n_steps).map(|i| format!("s{i}")).collect();
    let first = 0usize;
    let last = n_steps - 1;
    let mut steps: Vec<Step> = vec![];
    for (i, name) in step_names.iter().enumerate() {
        let mut thr = 1;
        let is = |f: &str, pos: &str| has(&faults, &format!("{f}:{pos}")) && ((pos == "first" && i == first) || (pos == "last" && i == last));
        if is("threshold-unmet", "first") || is("disagreeing-links", "last") {
            thr = 2;
        }
        let mut st = world::step(name, thr, &[k.a, k.b]);
        if is("step-rule-fail", "first") || is("step-rule-fail", "last") {
            st = st.add_expected_product(ArtifactRule::Disallow("*".into()));
        }
        if is("step-rule-fail-by-name", "first") || is("step-rule-fail-by-name", "last") {
            st = st.add_expected_product(ArtifactRule::Disallow("out".into()));
        }
        steps.push(st);
        // link files
        let delegated = shape == "S3" && i == 0;
        let missing = is("missing-link", "first") || is("missing-link", "last") || has(&faults, "missing-link:all");
        if delegated {
            write_sublayout(&links, name, &faults, &sentinel, case);
            continue;
        }
        if missing {
            continue;
        }
        if is("outsider-link", "first") {
            world::write(&links, &world::link_file(name, k.x), &world::block_text(&world::sign_link(valid_link(name), &[k.x])));
            continue;
        }
        if is("unauthorized-link", "last") {
            // D is in the key table but not authorised for this step
            world::write(&links, &world::link_file(name, k.d), &world::block_text(&world::sign_link(valid_link(name), &[k.d])));
            continue;
        }
        if is("failing-sublayout-next-to-valid-link", "first") {
            // functionary B hands in a valid link (the threshold of 1 is met by it); functionary A's
            // evidence is a correctly signed sub-layout whose own step has no link: a failing sub-layout
            let inner = world::layout(vec![world::step("in", 1, &[k.b])], vec![], &[k.b], world::far_future());
            world::write(&links, &world::link_file(name, k.a), &world::block_text(&world::sign_layout(inner, &[k.a])));
            std::fs::create_dir_all(links.join(format!("{name}.{}", k.a.prefix()))).unwrap();
            world::write(&links, &world::link_file(name, k.b), &world::block_text(&world::sign_link(valid_link(name), &[k.b])));
            continue;
        }
        let mb = world::sign_link(valid_link(name), &[k.a]);
        if is("bad-signature-link", "first") || is("bad-signature-link", "last") {
            world::write(&links, &world::link_file(name, k.a), &tamper(&mb));
            continue;
        }
        world::write(&links, &world::link_file(name, k.a), &world::block_text(&mb));
        if is("disagreeing-links", "last") {
            let other = world::link(name, world::arts(&[("src", 1)]), world::arts(&[("out", 3)]));
            world::write(&links, &world::link_file(name, k.b), &world::block_text(&world::sign_link(other, &[k.b])));
        }
        if is("garbage-link", "first") {
            world::write(&links, &world::link_file(name, k.b), "{ not json");
        }
    }
    let n_insp = if shape == "S2" || shape == "S5" { 2 } else { 1 };
    let inspections: Vec<Inspection> = (0..n_insp)
        .map(|i| {
            // S4: the inspection carries the name of the (only) step; S5: both inspections share a name
            let name = if shape == "S4" {
                "s0".to_string()
            } else if shape == "S5" {
                "dup".to_string()
            } else {
                format!("i{i}")
            };
            if i == cmd_pos {
                inspection(&name, cmd, rule, &sentinel)
            } else {
                inspection(&name, "exit0", "none", &sentinel)
            }
        })
        .collect();
    let expires = if has(&faults, "expired") { world::now() - chrono::Duration::seconds(1) } else { world::far_future() };
    let lay = world::layout(steps, inspections, &[k.a, k.b, k.d], expires);
    let mut block = world::sign_layout(lay, &[k.owner]);
    if has(&faults, "expired:written-with-an-offset") {
        // expired an hour ago; the document spells that instant with the offset +05:00, and the owner
        // signed what that text reads as
        let instant = world::now() - chrono::Duration::hours(1);
        let text = instant.with_timezone(&chrono::FixedOffset::east_opt(5 * 3600).unwrap()).to_rfc3339_opts(chrono::SecondsFormat::Secs, false);
        let mut v = world::block_value(&block);
        v["signed"]["expires"] = json!(text);
        if let Ok(parsed) = world::block_from_value(&v) {
            let mut v2 = world::block_value(&world::sign(parsed.metadata.clone(), &[k.owner]));
            v2["signed"]["expires"] = json!(text);
            if let Ok(b) = world::block_from_value(&v2) {
                block = b;
            }
        }
    }
    if has(&faults, "tampered-layout") {
        let mut v = world::block_value(&block);
        v["signed"]["readme"] = json!("altered after signing");
        block = world::block_from_value(&v).expect("tampered layout parses");
    }
    if has(&faults, "wrong-type-top:link-as-layout") {
        block = world::sign_link(valid_link("s0"), &[k.owner]);
    }
    let owners = if has(&faults, "no-keys") {
        world::owner_map(&[])
    } else if has(&faults, "wrong-key") {
        world::owner_map(&[k.x])
    } else {
        world::owner_map(&[k.owner])
    };
    let verdict = world::verify(&block, owners, &links);
    let sentinel_lines: Vec<String> = std::fs::read_to_string(&sentinel).unwrap_or_default().lines().map(String::from).collect();
    let mut link_files: Vec<String> = vec![];
    for e in std::fs::read_dir(&cwd).unwrap().flatten() {
        let n = e.file_name().to_string_lossy().to_string();
        if n.ends_with(".link") {
            link_files.push(n);
        }
    }
    link_files.sort();
    let _ = std::env::set_current_dir("/");
    json!({
        "verdict": verdict.tag(),
        "detail": verdict.to_json(),
        "sentinel": sentinel_lines,
        "link_files": link_files,
    })
}

/// S3: step s0 is delegated to functionary A. The inner layout has step `in`
/// (functionary B) and its own inspection `j0`.
fn write_sublayout(links: &Path, step: &str, faults: &[String], sentinel: &Path, case: &Value) {
    let k = fk();
    let inner_cmd = if has(faults, "inner:inspection-exit1") { "exit1" } else { case["inner_cmd"].as_str().unwrap_or("exit0") };
    let mut in_step = world::step("in", 1, &[k.b]);
    if has(faults, "inner:rule-fail") {
        in_step = in_step.add_expected_product(ArtifactRule::Disallow("*".into()));
    }
    let expires = if has(faults, "inner:expired") { world::now() - chrono::Duration::seconds(1) } else { world::far_future() };
    let inner = world::layout(vec![in_step], vec![inspection("j0", inner_cmd, "none", sentinel)], &[k.b, k.d], expires);
    let signer = if has(faults, "inner:signed-by-other-functionary") { k.b } else { k.a };
    let mb = world::sign_layout(inner, &[signer]);
    let text = if has(faults, "inner:tampered-layout") {
        let mut v = world::block_value(&mb);
        v["signed"]["readme"] = json!("altered");
        v.to_string()
    } else {
        world::block_text(&mb)
    };
    // filed under A's prefix in every case
    world::write(links, &world::link_file(step, k.a), &text);
    let sub = links.join(format!("{step}.{}", k.a.prefix()));
    std::fs::create_dir_all(&sub).unwrap();
    if has(faults, "inner:missing-link") {
        return;
    }
    let l = world::link("in", world::arts(&[("src", 1)]), world::arts(&[("out", 2)]));
    if has(faults, "inner:unauthorized-link") {
        world::write(&sub, &world::link_file("in", k.d), &world::block_text(&world::sign_link(l, &[k.d])));
    } else {
        world::write(&sub, &world::link_file("in", k.b), &world::block_text(&world::sign_link(l, &[k.b])));
    }
}

fn gen_cases(tier: Tier) -> Vec<Value> {
    let mut cases = vec![];
    let shapes: &[&str] = &["S1", "S2", "S3", "S4", "S5"];
    for shape in shapes {
        let n_insp = if *shape == "S2" || *shape == "S5" { 2 } else { 1 };
        // bound 0: no fault, all commands x rules x command position
        for cmd in COMMANDS {
            for rule in RULES {
                for pos in 0..n_insp {
                    cases.push(json!({"shape": shape, "faults": [], "cmd": cmd, "rule": rule, "cmd_pos": pos}));
                }
            }
        }
        // bound 1: one fault; commands that leave a trace
        let mut menu: Vec<&str> = FAULTS.to_vec();
        if *shape == "S3" {
            menu.extend(INNER_FAULTS);
        }
        let cmds1: &[&str] = if tier.thorough() { &COMMANDS } else { &["exit0", "create", "exit1"] };
        for f in &menu {
            if *shape == "S3" && (f.ends_with(":first") || *f == "missing-link:all") && !f.starts_with("inner") {
                // in S3 the only step is the delegated one; step-level faults on
                // it are expressed by the inner faults
                if *f != "step-rule-fail:first" && *f != "threshold-unmet:first" && *f != "step-rule-fail-by-name:first" {
                    continue;
                }
            }
            for cmd in cmds1 {
                for rule in ["none", "allow-all"] {
                    cases.push(json!({"shape": shape, "faults": [f], "cmd": cmd, "rule": rule, "cmd_pos": 0}));
                }
            }
        }
        // bound 2: two simultaneous faults
        if tier.thorough() {
            for (i, f) in menu.iter().enumerate() {
                for g in menu.iter().skip(i + 1) {
                    if !effective(shape, f) || !effective(shape, g) {
                        continue;
                    }
                    cases.push(json!({"shape": shape, "faults": [f, g], "cmd": "create", "rule": "none", "cmd_pos": 0}));
                }
            }
        }
    }
    cases
}

/// In shape S3 the first step is the delegated one: link-level faults aimed at it are not injected
/// (its evidence is the sub-layout; the inner faults express them), so they change nothing.
fn effective(shape: &str, f: &str) -> bool {
    !(shape == "S3" && f.ends_with(":first") && !f.starts_with("inner") && f != "step-rule-fail:first" && f != "threshold-unmet:first" && f != "step-rule-fail-by-name:first")
}

fn fault_class(f: &str) -> String {
    f.split(':').take(if f.starts_with("inner") { 2 } else { 1 }).collect::<Vec<_>>().join(":")
}

fn judge(acc: &mut Acc, case: &Value, out: &Value) {
    let shape = case["shape"].as_str().unwrap_or("");
    let faults: Vec<String> = case["faults"].as_array().map(|a| a.iter().filter_map(|x| x.as_str().map(String::from)).filter(|f| effective(shape, f)).collect()).unwrap_or_default();
    let cmd = case["cmd"].as_str().unwrap_or("");
    let rule = case["rule"].as_str().unwrap_or("");
    let verdict = out["verdict"].as_str().unwrap_or("");
    let sentinel: BTreeSet<String> = out["sentinel"].as_array().map(|a| a.iter().filter_map(|x| x.as_str().map(String::from)).collect()).unwrap_or_default();
    let link_files: BTreeSet<String> = out["link_files"].as_array().map(|a| a.iter().filter_map(|x| x.as_str().map(String::from)).collect()).unwrap_or_default();
    let witness = || json!({"case": case, "observed": out});
    if verdict == "panic" {
        let loc = out["detail"]["panic"].as_str().unwrap_or("?").to_string();
        acc.violation(&format!("panic:{loc}"), &format!("verification panicked at {loc}"), witness);
        return;
    }
    let outer_faults: Vec<&String> = faults.iter().filter(|f| !f.starts_with("inner:")).collect();
    let inner_faults: Vec<&String> = faults.iter().filter(|f| f.starts_with("inner:")).collect();
    let outer_insp: Vec<String> = (0..if shape == "S2" { 2 } else { 1 })
        .map(|i| match shape {
            "S4" => "s0".to_string(),
            "S5" => "dup".to_string(),
            _ => format!("i{i}"),
        })
        .collect();
    acc.outcome(&format!(
        "{}|{}|sentinel:{}",
        if faults.is_empty() { "no-fault" } else { "fault" },
        verdict,
        if sentinel.is_empty() { "empty" } else { "written" }
    ));
    if !faults.is_empty() {
        acc.nontrivial += 1;
        if verdict == "ok" && faults.len() == 1 && faults[0] == "inner:inspection-exit1" {
            acc.violation(
                "nonzero-exit-accepted",
                "the sub-layout's inspection command exited with status 1 but verification succeeded",
                witness,
            );
            return;
        }
        if verdict == "ok" && faults.iter().all(|f| f.starts_with("garbage-link")) {
            // a verifier may skip a surplus file it cannot parse (the valid link next to it suffices):
            // the statement does not make that stage fatal
            acc.note("unparsable-surplus-file-tolerated(not judged)");
            return;
        }
        if verdict == "ok" {
            // The acceptance itself is the business of C01/C02/C06/C07/C15. What is judged here
            // also then: the faulty layout does not pass the stage the fault sits at, so none of
            // its inspections may have been started.
            acc.note("accepted-despite-fault(the acceptance itself is not judged here)");
        }
        // the faulty layout fails a stage that precedes its inspections
        let cls = faults.iter().map(|f| fault_class(f)).collect::<Vec<_>>().join("+");
        let outer_must_not_run = true; // any fault (outer, or inner = failing sub-layout) precedes outer inspections
        if outer_must_not_run {
            for i in &outer_insp {
                if sentinel.contains(i) {
                    acc.violation(
                        &format!("inspection-ran-although-stage-failed:{cls}"),
                        &format!("inspection command {i} was executed although the layout does not pass an earlier stage ({cls}; verdict: {verdict})"),
                        witness,
                    );
                }
                if link_files.contains(&format!("{i}.link")) {
                    acc.violation(
                        &format!("inspection-link-written-although-stage-failed:{cls}"),
                        &format!("{i}.link was written although the layout does not pass an earlier stage ({cls}; verdict: {verdict})"),
                        witness,
                    );
                }
            }
        }
        // inner inspection j0: must not have run if the inner layout itself has a
        // fault before its inspections
        let inner_pre: Vec<&&String> = inner_faults.iter().filter(|f| f.as_str() != "inner:inspection-exit1").collect();
        if !inner_pre.is_empty() && (sentinel.contains("j0") || link_files.contains("j0.link")) {
            let cls = inner_pre.iter().map(|f| fault_class(f)).collect::<Vec<_>>().join("+");
            acc.violation(
                &format!("inspection-ran-although-stage-failed:{cls}"),
                &format!("the sub-layout's inspection was executed although the sub-layout failed at an earlier stage ({cls})"),
                witness,
            );
        }
        let _ = outer_faults;
        return;
    }
    // no fault injected
    let ran = outer_insp.iter().all(|i| sentinel.contains(i)) || cmd == "notfound";
    if command_fails(cmd) {
        acc.nontrivial += 1;
        if verdict == "ok" {
            let key = match cmd {
                "kill9" => "killed-inspection-accepted".to_string(),
                "notfound" => "missing-inspection-program-accepted".to_string(),
                _ => "nonzero-exit-accepted".to_string(),
            };
            acc.violation(&key, &format!("inspection command '{cmd}' failed but verification succeeded"), witness);
        }
        return;
    }
    if rule_rejects_checked(rule, cmd) == Some(true) {
        acc.nontrivial += 1;
        if verdict == "ok" {
            acc.violation(
                &format!("inspection-rule-not-enforced:{rule}"),
                &format!("the inspection's artifact rule '{rule}' is violated by what command '{cmd}' did, but verification succeeded"),
                witness,
            );
        }
        return;
    }
    // everything fine: the inspection must have run (non-vacuity, reported)
    if verdict == "ok" {
        acc.accepting += 1;
        if !ran {
            acc.violation("accepted-without-running-inspection", "verification succeeded but an inspection command left no trace", witness);
        }
    } else {
        acc.note("rejected-although-nothing-wrong(not judged: one-directional)");
    }
}

pub fn run(tier: Tier) -> i32 {
    let mut c = Check::new("C08", "model_checking", tier);
    let cases = gen_cases(tier);
    let results = worker::run_cases("c08", &cases, 600);
    let mut acc = Acc::new();
    // replay determinism: the first 16 cases twice
    let again = worker::run_cases("c08", &cases[..cases.len().min(16)], 120);
    for (i, r) in again.iter().enumerate() {
        if let (WorkerResult::Done(a), WorkerResult::Done(b)) = (r, &results[i]) {
            let strip = |v: &Value| json!([v["verdict"], v["sentinel"], v["link_files"]]);
            if strip(a) != strip(b) {
                util::machinery_error(&format!("C08: case {i} does not reproduce: {a} vs {b}"));
            }
        }
    }
    for (case, r) in cases.iter().zip(&results) {
        acc.evaluations += 1;
        acc.traces += 1;
        acc.states += 1;
        acc.transitions += 1 + case["faults"].as_array().map(|a| a.len() as u64).unwrap_or(0);
        match r {
            WorkerResult::Done(out) => {
                if out.get("machinery_error").is_some() {
                    util::machinery_error(&format!("worker: {out}"));
                }
                judge(&mut acc, case, out);
                if acc.samples.len() < 3 && !case["faults"].as_array().unwrap().is_empty() {
                    acc.samples.push(json!({"case": case, "observed": {"verdict": out["verdict"], "sentinel": out["sentinel"], "link_files": out["link_files"]}}));
                }
            }
            WorkerResult::Died(s) => util::machinery_error(&format!("C08 worker died ({s}) on case {case}")),
            WorkerResult::NotRun => util::machinery_error(&format!("C08 case not run: {case}")),
        }
    }
    c.acc = acc;
    c.rule = "state = choice vector (shape in {1 step+1 inspection, 2 steps+2 inspections, delegated step whose sub-layout has its own inspection, 1 step + 1 inspection carrying the step's name, 1 step + 2 inspections sharing one name}, injected fault set, inspection command, inspection rule); transitions = choices made; each vector is one execution of in_toto_verify in a private cwd; non-trivial = a fault is injected, or the command fails, or the rule is violated".into();
    c.bound_completed = if tier.thorough() {
        "all vectors with 0 faults (all commands x rules x positions), 1 fault (all commands), 2 simultaneous faults".into()
    } else {
        "all vectors with 0 faults (all commands x rules x positions) and with 1 fault (3 commands x 2 rules)".into()
    };
    c.assume("real /bin/sh; commands from a fixed menu; the sentinel file lives outside the recorded cwd");
    c.assume("acceptance despite an injected fault is judged by C01/C02/C06/C07/C15, not here; what is judged here in every case is that no inspection of the layout carrying the fault was started");
    c.finish()
}

pub fn replay(case: &Value) -> Value {
    let inner = if case.get("case").is_some() { case["case"].clone() } else { case.clone() };
    let results = worker::run_cases("c08", std::slice::from_ref(&inner), 120);
    match &results[0] {
        WorkerResult::Done(out) => {
            let mut acc = Acc::new();
            judge(&mut acc, &inner, out);
            json!({"observed": {"verdict": out["verdict"], "sentinel": out["sentinel"], "link_files": out["link_files"], "detail": out["detail"]}, "violation": acc.violations.keys().next()})
        }
        _ => json!({"error": "worker died", "violation": null}),
    }
}

#[allow(dead_code)]
fn _t(_: Verdict) {}
