//! C19 — attestation statements and predicates are self-consistent and round-trip.
//!
//! E3: documents shaped like naive / v0.1 statements and Link v0.2 / SLSA
//! provenance v0.1 / v0.2 predicates with every subset of optional members per
//! sub-structure, foreign members injected one at a time, and every declared
//! predicate type x predicate format. Typed per-version parsers are reached
//! through hook H2.

use in_toto::models::{LinkV02, PredicateLayout, PredicateVer, PredicateWrapper, SLSAProvenanceV01, SLSAProvenanceV02, StateNaive, StateV01, StatementVer, StatementWrapper};
use serde_json::{json, Map, Value};

use crate::props::c16;
use crate::report::{Acc, Check, Tier};
use crate::util::{guard, Guard};

const TS: [&str; 9] = [
    "2020-08-19T08:38:00Z",
    "2020-08-19T08:38:00+05:30",
    "2020-08-19T08:38:00.5Z",
    "1985-04-12T23:20:50.52-08:00",
    "2020-08-19T08:38:00.123Z",
    "2020-08-19T08:38:00.123456Z",
    "2020-08-19T08:38:00.123456789Z",
    "2020-08-19T08:38:00.000000001+00:00",
    "1969-12-31T23:59:59.999999-00:01",
];

fn subsets(n: usize) -> Vec<Vec<bool>> {
    (0..(1u32 << n)).map(|m| (0..n).map(|i| m & (1 << i) != 0).collect()).collect()
}

fn obj(pairs: Vec<(&str, Option<Value>)>) -> Value {
    let mut m = Map::new();
    for (k, v) in pairs {
        if let Some(v) = v {
            m.insert(k.to_string(), v);
        }
    }
    Value::Object(m)
}

fn pick(b: bool, v: Value) -> Option<Value> {
    b.then_some(v)
}

fn recipes() -> Vec<Value> {
    subsets(4).into_iter().map(|s| obj(vec![("type", Some(json!("https://example.com/Makefile"))), ("definedInMaterial", pick(s[0], json!(0))), ("entryPoint", pick(s[1], json!("src:foo"))), ("arguments", pick(s[2], json!("CFLAGS=-O3"))), ("environment", pick(s[3], json!("env")))])).collect()
}

fn completenesses() -> Vec<Value> {
    // every member absent / true / false
    let tri = |i: usize| -> Option<Value> { [None, Some(json!(true)), Some(json!(false))][i].clone() };
    let mut out = vec![];
    for a in 0..3 {
        for b in 0..3 {
            for c in 0..3 {
                out.push(obj(vec![("arguments", tri(a)), ("environment", tri(b)), ("materials", tri(c))]));
            }
        }
    }
    out
}

fn metadatas() -> Vec<Value> {
    let mut out = vec![];
    for s in subsets(5) {
        let ts_variants: Vec<&str> = if s[1] || s[2] { TS.to_vec() } else { vec![TS[0]] };
        for ts in ts_variants {
            out.push(obj(vec![
                ("buildInvocationId", pick(s[0], json!("id-1"))),
                ("buildStartedOn", pick(s[1], json!(ts))),
                ("buildFinishedOn", pick(s[2], json!(ts))),
                ("completeness", pick(s[3], json!({"arguments": true}))),
                ("reproducible", pick(s[4], json!(false))),
            ]));
        }
    }
    for c in completenesses() {
        out.push(json!({ "completeness": c }));
    }
    out.push(json!({ "reproducible": true }));
    out.push(json!({ "reproducible": false, "completeness": {"arguments": false, "environment": false, "materials": false} }));
    out
}

fn material_lists() -> Vec<Value> {
    vec![json!([]), json!([{}]), json!([{"uri": "git+https://example.com/x"}]), json!([{"digest": {"sha256": "ab"}}]), json!([{"uri": "u", "digest": {"sha1": "cd", "sha256": "ef"}}, {"uri": "v"}])]
}

pub fn slsa_v01_docs() -> Vec<(String, Value)> {
    let builder = json!({"id": "mailto:person@example.com"});
    let mut out = vec![];
    let base = |recipe: Option<Value>, metadata: Option<Value>, materials: Option<Value>| obj(vec![("builder", Some(builder.clone())), ("recipe", recipe), ("metadata", metadata), ("materials", materials)]);
    for (i, r) in recipes().into_iter().enumerate() {
        out.push((format!("slsa01/recipe#{i}"), base(Some(r), None, None)));
    }
    for (i, m) in metadatas().into_iter().enumerate() {
        out.push((format!("slsa01/metadata#{i}"), base(None, Some(m), None)));
    }
    for (i, m) in material_lists().into_iter().enumerate() {
        out.push((format!("slsa01/materials#{i}"), base(None, None, Some(m))));
    }
    // pairwise across sub-structures
    for s in subsets(3) {
        out.push((format!("slsa01/top{s:?}"), base(pick(s[0], recipes()[5].clone()), pick(s[1], metadatas()[40].clone()), pick(s[2], material_lists()[4].clone()))));
    }
    out
}

fn invocations() -> Vec<Value> {
    let mut out = vec![];
    for s in subsets(3) {
        let cs_variants: Vec<Value> = if s[0] {
            subsets(3).into_iter().map(|c| obj(vec![("uri", if c[0] { Some(json!("git+https://example.com")) } else { Some(Value::Null) }), ("digest", pick(c[1], json!({"sha1": "abc"}))), ("entryPoint", pick(c[2], json!("build.yaml")))])).chain([json!({})]).collect()
        } else {
            vec![Value::Null]
        };
        for cs in cs_variants {
            out.push(obj(vec![("configSource", pick(s[0], cs)), ("parameters", pick(s[1], json!("p"))), ("environment", pick(s[2], json!("e")))]));
        }
    }
    out
}

pub fn slsa_v02_docs() -> Vec<(String, Value)> {
    let builder = json!({"id": "mailto:person@example.com"});
    let base = |inv: Option<Value>, cfg: Option<Value>, md: Option<Value>, mats: Option<Value>| obj(vec![("builder", Some(builder.clone())), ("buildType", Some(json!("https://example.com/Makefile"))), ("invocation", inv), ("buildConfig", cfg), ("metadata", md), ("materials", mats)]);
    let mut out = vec![];
    for (i, inv) in invocations().into_iter().enumerate() {
        out.push((format!("slsa02/invocation#{i}"), base(Some(inv), None, None, None)));
    }
    for (i, m) in metadatas().into_iter().enumerate().step_by(3) {
        out.push((format!("slsa02/metadata#{i}"), base(None, None, Some(m), None)));
    }
    for s in subsets(4) {
        out.push((format!("slsa02/top{s:?}"), base(pick(s[0], invocations()[9].clone()), pick(s[1], json!("cfg")), pick(s[2], metadatas()[41].clone()), pick(s[3], material_lists()[2].clone()))));
    }
    out
}

pub fn link_v02_docs() -> Vec<(String, Value)> {
    let mut out = vec![];
    for (ei, env) in [None, Some(Value::Null), Some(json!({})), Some(json!({"k": "v"}))].into_iter().enumerate() {
        for (bi, by) in [json!({}), json!({"return-value": 0}), json!({"stdout": "o", "stderr": "e", "return-value": 1}), json!({"extra": "x", "stdout": ""})].into_iter().enumerate() {
            for (mi, mats) in [json!({}), json!({"a": {"sha256": "00"}}), json!({"a": {"sha256": "00", "sha512": "11"}, "b/c": {"sha256": ""}})].into_iter().enumerate() {
                for cmd in [json!([]), json!(["make", "-j 4"])] {
                    out.push((format!("link02/env{ei}/by{bi}/m{mi}"), obj(vec![("name", Some(json!("step"))), ("materials", Some(mats.clone())), ("env", env.clone()), ("command", Some(cmd)), ("byproducts", Some(by.clone()))])));
                }
            }
        }
    }
    out
}

/// Members that are present but empty (empty string, empty map, empty list, zero) - a serialiser
/// that skips "empty" values would drop them.
fn present_but_empty_docs() -> Vec<(String, Value)> {
    let b = json!({"id": ""});
    vec![
        ("slsa01/empty/recipe-strings".into(), json!({"builder": b, "recipe": {"type": "", "definedInMaterial": 0, "entryPoint": "", "arguments": "", "environment": ""}})),
        ("slsa01/empty/metadata".into(), json!({"builder": {"id": "x"}, "metadata": {"buildInvocationId": "", "completeness": {}, "reproducible": false}})),
        ("slsa01/empty/materials".into(), json!({"builder": {"id": "x"}, "materials": [{"uri": "", "digest": {}}]})),
        ("slsa01/empty/two-timestamps".into(), json!({"builder": {"id": "x"}, "metadata": {"buildStartedOn": "2020-08-19T08:38:00Z", "buildFinishedOn": "2021-01-01T00:00:00.25Z"}})),
        ("slsa02/empty/invocation".into(), json!({"builder": {"id": "x"}, "buildType": "", "invocation": {"configSource": {"uri": "", "digest": {}, "entryPoint": ""}, "parameters": "", "environment": ""}, "buildConfig": "", "materials": []})),
        ("slsa02/empty/metadata".into(), json!({"builder": {"id": "x"}, "buildType": "t", "metadata": {"buildInvocationId": "", "completeness": {"parameters": false, "environment": false, "materials": false}, "reproducible": false}})),
        ("link02/empty/everything".into(), json!({"name": "", "materials": {}, "env": {}, "command": [""], "byproducts": {"stdout": "", "stderr": "", "return-value": 0}})),
        ("link02/empty/digest-map".into(), json!({"name": "n", "materials": {"a": {}}, "env": {"": ""}, "command": [], "byproducts": {}})),
    ]
}

/// The numeric members at the edges of their types: `definedInMaterial` (an unsigned machine word)
/// and the `return-value` of a Link predicate (a signed 32-bit integer), incl. one past each range
/// (rejected by the reader; then there is nothing to round-trip).
fn numeric_boundary_docs() -> Vec<(String, Value)> {
    let mut out = vec![];
    for n in [1u64, 255, 65536, u32::MAX as u64, (u32::MAX as u64) + 1, i64::MAX as u64, (i64::MAX as u64) + 1, u64::MAX - 1, u64::MAX] {
        out.push((format!("slsa01/number/definedInMaterial={n}"), json!({"builder": {"id": "x"}, "recipe": {"type": "t", "definedInMaterial": n}})));
    }
    for n in [i32::MIN as i64 - 1, i32::MIN as i64, -1, 1, 255, 256, i32::MAX as i64, i32::MAX as i64 + 1] {
        out.push((format!("link02/number/return-value={n}"), json!({"name": "n", "materials": {}, "env": {}, "command": [], "byproducts": {"return-value": n}})));
    }
    out
}

pub fn predicate_docs() -> Vec<(String, Value)> {
    let mut v = link_v02_docs();
    v.extend(slsa_v01_docs());
    v.extend(slsa_v02_docs());
    v.extend(present_but_empty_docs());
    v.extend(numeric_boundary_docs());
    v
}

pub fn naive_docs() -> Vec<(String, Value)> {
    let mut out = vec![];
    for (n, l) in link_v02_docs().into_iter().step_by(3) {
        let mut o = l.as_object().unwrap().clone();
        o.insert("_type".into(), json!("link"));
        o.insert("products".into(), json!({"out": {"sha256": "22"}}));
        out.push((format!("naive/{n}"), Value::Object(o)));
    }
    out
}

const PRED_TYPES: [&str; 4] = ["https://in-toto.io/Link/v0.2", "https://slsa.dev/provenance/v0.1", "https://slsa.dev/provenance/v0.2", "https://example.com/unknown/v1"];

pub fn v01_statement_docs() -> Vec<(String, Value, usize, Option<usize>)> {
    // (name, doc, declared type index, format index of the contained predicate)
    let reps: Vec<(usize, Vec<(String, Value)>)> = vec![(0, link_v02_docs().into_iter().step_by(17).collect()), (1, slsa_v01_docs().into_iter().step_by(9).collect()), (2, slsa_v02_docs().into_iter().step_by(7).collect())];
    let mut out = vec![];
    for (fmt, docs) in reps {
        for (n, p) in docs {
            for (ti, t) in PRED_TYPES.iter().enumerate() {
                for subject in [json!({}), json!({"out": {"sha256": "22"}})] {
                    out.push((format!("stmt01/declared{ti}/{n}"), json!({"_type": "https://in-toto.io/Statement/v0.1", "subject": subject, "predicateType": t, "predicate": p}), ti, Some(fmt)));
                }
            }
        }
    }
    // a predicate that is no known format
    out.push(("stmt01/garbage-predicate".into(), json!({"_type": "https://in-toto.io/Statement/v0.1", "subject": {}, "predicateType": PRED_TYPES[0], "predicate": {"foo": 1}}), 0, None));
    out
}

/// All member names of all formats (for foreign-member injection).
const ALL_MEMBERS: [&str; 20] = ["name", "materials", "env", "command", "byproducts", "builder", "recipe", "metadata", "buildType", "invocation", "buildConfig", "_type", "subject", "predicateType", "predicate", "products", "environment", "foo", "type", "id"];

fn typed_predicate_accepts(text: &str) -> [Result<(), String>; 3] {
    let f = |r: Guard<Result<(), String>>| match r {
        Guard::Done(x) => x,
        Guard::Panicked(l, m) => Err(format!("PANIC {l}: {m}")),
    };
    [
        f(guard(|| serde_json::from_str::<LinkV02>(text).map(|_| ()).map_err(|e| e.to_string()))),
        f(guard(|| serde_json::from_str::<SLSAProvenanceV01>(text).map(|_| ()).map_err(|e| e.to_string()))),
        f(guard(|| serde_json::from_str::<SLSAProvenanceV02>(text).map(|_| ()).map_err(|e| e.to_string()))),
    ]
}

fn ver_index(v: PredicateVer) -> usize {
    match v {
        PredicateVer::LinkV0_2 => 0,
        PredicateVer::SLSAProvenanceV0_1 => 1,
        PredicateVer::SLSAProvenanceV0_2 => 2,
    }
}

fn wrapper_version(w: &PredicateWrapper) -> usize {
    match w {
        PredicateWrapper::LinkV0_2(_) => 0,
        PredicateWrapper::SLSAProvenanceV0_1(_) => 1,
        PredicateWrapper::SLSAProvenanceV0_2(_) => 2,
    }
}

fn has_fractional_ts(v: &Value) -> bool {
    match v {
        Value::String(s) => s.len() > 19 && s.as_bytes().get(19) == Some(&b'.') && s.as_bytes()[..4].iter().all(|c| c.is_ascii_digit()),
        Value::Array(a) => a.iter().any(has_fractional_ts),
        Value::Object(o) => o.values().any(has_fractional_ts),
        _ => false,
    }
}

fn has_ts(v: &Value) -> bool {
    match v {
        Value::Object(o) => o.contains_key("buildStartedOn") || o.contains_key("buildFinishedOn") || o.values().any(has_ts),
        Value::Array(a) => a.iter().any(has_ts),
        _ => false,
    }
}

fn check_predicate(acc: &mut Acc, name: &str, doc: &Value) {
    acc.evaluations += 1;
    let text = doc.to_string();
    let witness = || json!({"kind": "predicate", "document": name, "json": doc});
    let typed = typed_predicate_accepts(&text);
    for t in &typed {
        if let Err(e) = t {
            if e.starts_with("PANIC") {
                acc.violation("typed-parser-panics", e, witness);
            }
        }
    }
    let accepted: Vec<usize> = (0..3).filter(|i| typed[*i].is_ok()).collect();
    let judged = match guard(|| PredicateWrapper::judge_from_value(doc)) {
        Guard::Done(Ok(v)) => Some(ver_index(v)),
        Guard::Done(Err(_)) => None,
        Guard::Panicked(l, m) => {
            acc.violation(&format!("panic:{l}"), &m, witness);
            None
        }
    };
    acc.outcome(&format!("typed-accept:{accepted:?}/judged:{judged:?}"));
    if accepted.len() > 1 {
        acc.violation("predicate-recognised-as-several-formats", "one document is accepted by the typed parsers of more than one format", witness);
    }
    if accepted.len() == 1 && judged != Some(accepted[0]) {
        let key = if has_ts(doc) { "timestamped-predicate-not-recognised" } else { "typed-and-detecting-parser-disagree" };
        acc.violation(key, &format!("the {} parser accepts the document but the version-detecting parser answers {judged:?}", ["Link v0.2", "SLSA v0.1", "SLSA v0.2"][accepted[0]]), witness);
    }
    if accepted.is_empty() && judged.is_some() {
        acc.violation("detected-but-no-typed-parser-accepts", "the version-detecting parser recognises a document no typed parser accepts", witness);
    }
    // round trip through the canonical form
    if let Guard::Done(Ok(w)) = guard(|| PredicateWrapper::try_from_value(doc.clone())) {
        acc.accepting += 1;
        let ver = wrapper_version(&w);
        // the format a value reports about itself is the one it was recognised as
        match guard(|| ver_index(w.clone().into_trait().version())) {
            Guard::Done(v) if v == ver && judged == Some(ver) => {}
            Guard::Done(v) => acc.violation("reported-version-differs", &format!("an accepted {} predicate reports version {} (version-detecting parser: {judged:?})", ["Link v0.2", "SLSA v0.1", "SLSA v0.2"][ver], ["Link v0.2", "SLSA v0.1", "SLSA v0.2"][v]), witness),
            Guard::Panicked(l, m) => acc.violation(&format!("panic:{l}"), &m, witness),
        }
        let bytes = match guard(|| w.clone().into_trait().to_bytes()) {
            Guard::Done(Ok(b)) => b,
            _ => {
                acc.violation("cannot-serialize-predicate", "to_bytes fails on an accepted predicate", witness);
                return;
            }
        };
        let back = serde_json::from_slice::<Value>(&bytes).ok().and_then(|v| PredicateWrapper::try_from_value(v).ok());
        match back {
            None => acc.violation("canonical-form-not-accepted", "the canonical form of an accepted predicate is not accepted", witness),
            Some(b) => {
                if b != w {
                    let key = if has_fractional_ts(doc) { "fractional-timestamp-truncated" } else { "predicate-changes-in-roundtrip" };
                    acc.violation(key, "the canonical form parses back to a different value", witness);
                } else if wrapper_version(&b) != ver {
                    acc.violation("format-changes-in-roundtrip", "the canonical form is recognised as another format", witness);
                } else if b.into_trait().to_bytes().ok().as_ref() != Some(&bytes) {
                    acc.violation("canonical-form-not-stable", "serialising the re-parsed value gives different bytes", witness);
                }
            }
        }
    }
}

fn stmt_bytes(w: &StatementWrapper) -> Option<Vec<u8>> {
    let c = match w {
        StatementWrapper::Naive(s) => StatementWrapper::Naive(s.clone()),
        StatementWrapper::V0_1(s) => StatementWrapper::V0_1(s.clone()),
    };
    match guard(|| c.into_trait().to_bytes()) {
        Guard::Done(Ok(b)) => Some(b),
        _ => None,
    }
}

fn check_statement(acc: &mut Acc, name: &str, doc: &Value, declared: Option<usize>, contained: Option<usize>) {
    acc.evaluations += 1;
    let text = doc.to_string();
    let witness = || json!({"kind": "statement", "document": name, "json": doc});
    let typed_naive = matches!(guard(|| serde_json::from_str::<StateNaive>(&text)), Guard::Done(Ok(_)));
    let typed_v01 = matches!(guard(|| serde_json::from_str::<StateV01>(&text)), Guard::Done(Ok(_)));
    let judged = match guard(|| StatementWrapper::judge_from_value(doc)) {
        Guard::Done(Ok(v)) => Some(v),
        Guard::Done(Err(_)) => None,
        Guard::Panicked(l, m) => {
            acc.violation(&format!("panic:{l}"), &m, witness);
            None
        }
    };
    acc.outcome(&format!("stmt typed-naive:{typed_naive}/typed-v01:{typed_v01}/judged:{}", judged.map(|v| v.to_string()).unwrap_or("none".into())));
    if typed_naive && typed_v01 {
        acc.violation("statement-recognised-as-several-formats", "one document is accepted as naive and as v0.1 statement", witness);
    }
    // The typed v0.1 parser does not compare the declared type with the contained
    // predicate; a statement where they differ is expected to be rejected by the
    // public (version-detecting) parser, so it is not a disagreement.
    let mismatch = typed_v01 && declared.is_some() && declared != contained;
    let typed = if typed_naive { Some(StatementVer::Naive) } else if typed_v01 && !mismatch { Some(StatementVer::V0_1) } else { None };
    if typed != judged && (typed.is_some() || judged.is_some()) && !(mismatch && judged == Some(StatementVer::V0_1)) {
        let key = if has_ts(doc) { "timestamped-predicate-not-recognised" } else { "typed-and-detecting-parser-disagree" };
        acc.violation(key, &format!("typed statement parser: {:?}, version-detecting parser: {:?}", typed.map(|v| v.to_string()), judged.map(|v| v.to_string())), witness);
    }
    let Guard::Done(Ok(w)) = guard(|| StatementWrapper::try_from_value(doc.clone())) else { return };
    acc.accepting += 1;
    // the format a statement reports about itself is the one it was recognised as
    {
        let variant = match &w {
            StatementWrapper::Naive(_) => StatementVer::Naive,
            StatementWrapper::V0_1(_) => StatementVer::V0_1,
        };
        let copy = match &w {
            StatementWrapper::Naive(s) => StatementWrapper::Naive(s.clone()),
            StatementWrapper::V0_1(s) => StatementWrapper::V0_1(s.clone()),
        };
        match guard(|| copy.into_trait().version()) {
            Guard::Done(v) if v == variant && judged == Some(variant) => {}
            Guard::Done(v) => acc.violation("reported-version-differs", &format!("an accepted {variant} statement reports version {v} (version-detecting parser: {:?})", judged.map(|j| j.to_string())), witness),
            Guard::Panicked(l, m) => acc.violation(&format!("panic:{l}"), &m, witness),
        }
    }
    // declared predicate type names the contained format
    if let (StatementWrapper::V0_1(_), Some(d)) = (&w, declared) {
        if Some(d) != contained {
            acc.violation(
                "predicate-type-not-checked",
                &format!("a v0.1 statement declaring predicateType {} is accepted although its predicate is {}", PRED_TYPES[d], contained.map(|c| PRED_TYPES[c]).unwrap_or("no known format")),
                witness,
            );
        }
    }
    // canonical round trip
    let eq = |a: &StatementWrapper, b: &StatementWrapper| a == b;
    let to_bytes = |w: &StatementWrapper| -> Option<Vec<u8>> { stmt_bytes(w) };
    let Some(bytes) = to_bytes(&w) else {
        acc.violation("cannot-serialize-statement", "to_bytes fails on an accepted statement", witness);
        return;
    };
    match serde_json::from_slice::<Value>(&bytes).ok().and_then(|v| StatementWrapper::try_from_value(v).ok()) {
        None => acc.violation("canonical-form-not-accepted", "the canonical form of an accepted statement is not accepted", witness),
        Some(b) => {
            if !eq(&b, &w) {
                let key = if has_fractional_ts(doc) { "fractional-timestamp-truncated" } else { "statement-changes-in-roundtrip" };
                acc.violation(key, "the canonical form parses back to a different value", witness);
            } else if to_bytes(&b).as_ref() != Some(&bytes) {
                acc.violation("canonical-form-not-stable", "serialising the re-parsed statement gives different bytes", witness);
            }
        }
    }
}

fn inject_foreign(doc: &Value) -> Vec<(String, Value)> {
    let mut out = vec![];
    for m in ALL_MEMBERS {
        if doc.get(m).is_none() {
            for v in [json!("x"), json!({}), Value::Null] {
                let mut d = doc.clone();
                d[m] = v.clone();
                out.push((format!("+{m}={v}"), d));
            }
        }
    }
    out
}

/// A v0.1 statement built around a predicate of each format must declare that format
/// and survive the round trip through the public parser.
fn check_from_meta_formats(acc: &mut Acc) {
    let link = c16::links(false)[3].1.clone();
    let reps: Vec<(usize, Vec<(String, Value)>)> = vec![(0, link_v02_docs().into_iter().step_by(13).collect()), (1, slsa_v01_docs().into_iter().step_by(11).collect()), (2, slsa_v02_docs().into_iter().step_by(5).collect())];
    for (fmt, docs) in reps {
        for (n, d) in docs {
            let Ok(w) = PredicateWrapper::try_from_value(d.clone()) else { continue };
            acc.evaluations += 1;
            let witness = || json!({"kind": "from_meta_format", "predicate": n, "json": d});
            let stmt = match guard(|| StatementWrapper::from_meta(link.clone(), Some(w.clone().into_trait()), StatementVer::V0_1)) {
                Guard::Done(s) => s,
                Guard::Panicked(l, m) => {
                    acc.violation(&format!("panic:{l}"), &m, witness);
                    continue;
                }
            };
            let Some(bytes) = stmt_bytes(&stmt) else {
                acc.violation("cannot-serialize-statement", "to_bytes fails on a statement built from link metadata", witness);
                continue;
            };
            let Ok(sv) = serde_json::from_slice::<Value>(&bytes) else {
                acc.violation("canonical-form-not-json", "the canonical form of a built statement is not JSON", witness);
                continue;
            };
            if sv["predicateType"] != PRED_TYPES[fmt] {
                acc.violation(
                    "built-statement-declares-wrong-predicate-type",
                    &format!("a statement built around a {} predicate declares predicateType {}", PRED_TYPES[fmt], sv["predicateType"]),
                    witness,
                );
            }
            match StatementWrapper::try_from_value(sv.clone()) {
                Ok(back) if back == stmt => acc.outcome("from-meta:format-roundtrip-ok"),
                Ok(_) => acc.violation("built-statement-changes-in-roundtrip", "a statement built from link metadata parses back to a different value", witness),
                Err(_) => acc.violation("built-statement-not-accepted", "the parser rejects the canonical form of a statement the library built itself", witness),
            }
        }
    }
}

/// The link as JSON, built from its fields with the harness's own spelling of paths, algorithm
/// names and digests (not with the library's serialisers).
fn independent_link_json(l: &in_toto::models::LinkMetadata) -> Value {
    let arts = |m: &std::collections::BTreeMap<in_toto::models::VirtualTargetPath, in_toto::models::TargetDescription>| -> Value {
        let mut o = Map::new();
        for (p, d) in m {
            let mut dm = Map::new();
            for (a, h) in d {
                let an = match a {
                    in_toto::crypto::HashAlgorithm::Sha256 => "sha256".to_string(),
                    in_toto::crypto::HashAlgorithm::Sha512 => "sha512".to_string(),
                    in_toto::crypto::HashAlgorithm::Unknown(name) => name.clone(),
                };
                dm.insert(an, json!(crate::util::hex(h.value())));
            }
            o.insert(p.value().to_string(), Value::Object(dm));
        }
        Value::Object(o)
    };
    let mut by = Map::new();
    if let Some(r) = l.byproducts.return_value() {
        by.insert("return-value".into(), json!(r));
    }
    if let Some(s) = l.byproducts.stdout() {
        by.insert("stdout".into(), json!(s));
    }
    if let Some(s) = l.byproducts.stderr() {
        by.insert("stderr".into(), json!(s));
    }
    for (k, v) in l.byproducts.other_fields() {
        by.insert(k.clone(), json!(v));
    }
    let cmd: &[String] = l.command.as_ref();
    json!({"name": l.name, "materials": arts(&l.materials), "products": arts(&l.products), "command": cmd, "byproducts": Value::Object(by), "env": l.env})
}

fn check_from_meta(acc: &mut Acc) {
    for (n, l) in c16::links(false) {
        if n.contains("other-field-named") {
            continue;
        }
        acc.evaluations += 2;
        let lv = serde_json::to_value(&l).unwrap();
        let iv = independent_link_json(&l);
        // naive
        match guard(|| StatementWrapper::from_meta(l.clone(), None, StatementVer::Naive)) {
            Guard::Done(StatementWrapper::Naive(s)) => {
                let Some(sv) = stmt_bytes(&StatementWrapper::Naive(s.clone())).and_then(|b| serde_json::from_slice::<Value>(&b).ok()) else {
                    acc.violation("canonical-form-not-json", "the canonical form of a statement built from link metadata is not valid JSON", || json!({"kind": "from_meta", "link": n}));
                    continue;
                };
                let same = sv["name"] == lv["name"] && sv["materials"] == lv["materials"] && sv["products"] == lv["products"] && sv["command"] == lv["command"] && sv["byproducts"] == lv["byproducts"] && sv["env"] == lv["environment"];
                // and against the fields themselves, spelled by the harness
                let same_independent = ["name", "materials", "products", "command", "byproducts", "env"].iter().all(|m| sv[*m] == iv[*m]);
                if same && !same_independent {
                    acc.violation("from-meta-changes-link:naive:against-fields", "a naive statement built from link metadata differs from the link's fields (the link's own JSON form differs in the same way)", || json!({"kind": "from_meta", "link": n, "statement": sv, "fields": iv}));
                }
                if !same {
                    acc.violation("from-meta-changes-link:naive", "a naive statement built from link metadata does not carry the link's members over unchanged", || json!({"kind": "from_meta", "link": n, "statement": sv, "link_json": lv}));
                } else {
                    acc.outcome("from-meta:naive-ok");
                }
            }
            Guard::Panicked(loc, m) => acc.violation(&format!("panic:{loc}"), &m, || json!({"kind": "from_meta", "link": n})),
            _ => acc.violation("from-meta-wrong-version", "from_meta(Naive) did not return a naive statement", || json!({"kind": "from_meta", "link": n})),
        }
        // v0.1 with a Link v0.2 predicate
        let pred: LinkV02 = serde_json::from_value(json!({"name": "p", "materials": {}, "env": null, "command": [], "byproducts": {}})).unwrap();
        let pv = serde_json::to_value(&pred).unwrap();
        match guard(|| StatementWrapper::from_meta(l.clone(), Some(Box::new(pred.clone()) as Box<dyn PredicateLayout>), StatementVer::V0_1)) {
            Guard::Done(StatementWrapper::V0_1(s)) => {
                let Some(sv) = stmt_bytes(&StatementWrapper::V0_1(s.clone())).and_then(|b| serde_json::from_slice::<Value>(&b).ok()) else {
                    acc.violation("canonical-form-not-json", "the canonical form of a statement built from link metadata is not valid JSON", || json!({"kind": "from_meta", "link": n}));
                    continue;
                };
                if sv["subject"] != lv["products"] || sv["subject"] != iv["products"] || sv["predicate"] != pv || sv["predicateType"] != PRED_TYPES[0] {
                    acc.violation("from-meta-changes-link:v01", "a v0.1 statement built from link metadata does not carry products as subject / the predicate unchanged", || json!({"kind": "from_meta", "link": n, "statement": sv}));
                } else {
                    acc.outcome("from-meta:v01-ok");
                }
            }
            Guard::Panicked(loc, m) => acc.violation(&format!("panic:{loc}"), &m, || json!({"kind": "from_meta", "link": n})),
            _ => acc.violation("from-meta-wrong-version", "from_meta(V0_1) did not return a v0.1 statement", || json!({"kind": "from_meta", "link": n})),
        }
    }
}

pub fn run(tier: Tier) -> i32 {
    let mut c = Check::new("C19", "exploration", tier);
    let mut acc = Acc::new();
    let preds = predicate_docs();
    for (n, d) in &preds {
        check_predicate(&mut acc, n, d);
        acc.nontrivial += 1;
    }
    // foreign members
    let stride = if tier.thorough() { 1 } else { 5 };
    for (n, d) in preds.iter().step_by(stride) {
        for (m, d2) in inject_foreign(d) {
            check_predicate(&mut acc, &format!("{n}{m}"), &d2);
        }
    }
    for (n, d) in naive_docs() {
        check_statement(&mut acc, &n, &d, None, None);
        acc.nontrivial += 1;
        if tier.thorough() || n.ends_with("m0") {
            for (m, d2) in inject_foreign(&d) {
                check_statement(&mut acc, &format!("{n}{m}"), &d2, None, None);
            }
        }
    }
    let stmts = v01_statement_docs();
    for (n, d, declared, contained) in &stmts {
        check_statement(&mut acc, n, d, Some(*declared), *contained);
        acc.nontrivial += 1;
    }
    // the statement's own `_type` member: every listed spelling on both statement shapes (whatever
    // is accepted must still be exactly one format, report it, and survive the round trip unchanged)
    let own_types = ["link", "https://in-toto.io/Statement/v0.1", "https://in-toto.io/Statement/v1", "layout", "garbage", ""];
    for (n, d) in naive_docs().into_iter().step_by(if tier.thorough() { 1 } else { 4 }) {
        for t in own_types {
            let mut d2 = d.clone();
            d2["_type"] = json!(t);
            check_statement(&mut acc, &format!("{n}/_type={t:?}"), &d2, None, None);
        }
    }
    for (n, d, declared, contained) in stmts.iter().step_by(if tier.thorough() { 2 } else { 7 }) {
        for t in own_types {
            let mut d2 = d.clone();
            d2["_type"] = json!(t);
            check_statement(&mut acc, &format!("{n}/_type={t:?}"), &d2, Some(*declared), *contained);
        }
    }
    for (n, d, declared, contained) in stmts.iter().step_by(if tier.thorough() { 3 } else { 19 }) {
        for (m, d2) in inject_foreign(d) {
            if m.starts_with("+predicateType") || m.starts_with("+predicate=") {
                continue;
            }
            check_statement(&mut acc, &format!("{n}{m}"), &d2, Some(*declared), *contained);
        }
    }
    check_from_meta(&mut acc);
    check_from_meta_formats(&mut acc);
    // the maps between format versions and their type strings: a bijection on the known names,
    // nothing else is a version (near misses: case, trailing slash, whitespace, other version)
    {
        let pv = [(PredicateVer::LinkV0_2, PRED_TYPES[0]), (PredicateVer::SLSAProvenanceV0_1, PRED_TYPES[1]), (PredicateVer::SLSAProvenanceV0_2, PRED_TYPES[2])];
        for (v, name) in pv {
            acc.evaluations += 2;
            if String::from(v) != name {
                acc.violation("version-string-map:predicate", &format!("{name} is written as {}", String::from(v)), || json!({"kind": "version-map", "name": name}));
            }
            match PredicateVer::try_from(name.to_string()) {
                Ok(back) if ver_index(back) == ver_index(v) => acc.outcome("version-map-ok"),
                _ => acc.violation("version-string-map:predicate", &format!("{name} is not read back as the version it names"), || json!({"kind": "version-map", "name": name})),
            }
        }
        let sv = [(StatementVer::Naive, "link"), (StatementVer::V0_1, "https://in-toto.io/Statement/v0.1")];
        for (v, name) in sv {
            acc.evaluations += 2;
            if String::from(v) != name {
                acc.violation("version-string-map:statement", &format!("{name} is written as {}", String::from(v)), || json!({"kind": "version-map", "name": name}));
            }
            match StatementVer::try_from(name.to_string()) {
                Ok(back) if back == v => acc.outcome("version-map-ok"),
                _ => acc.violation("version-string-map:statement", &format!("{name} is not read back as the version it names"), || json!({"kind": "version-map", "name": name})),
            }
        }
        let known: Vec<&str> = PRED_TYPES[..3].iter().copied().chain(["link", "https://in-toto.io/Statement/v0.1"]).collect();
        for k in &known {
            for near in [k.to_uppercase(), format!("{k}/"), format!(" {k}"), format!("{k} "), k.replace("v0.", "v1."), k.replace("https", "http"), String::new()] {
                if known.contains(&near.as_str()) {
                    continue;
                }
                acc.evaluations += 2;
                if PredicateVer::try_from(near.clone()).is_ok() || StatementVer::try_from(near.clone()).is_ok() {
                    acc.violation("version-string-map:near-miss-accepted", &format!("{near:?} is accepted as a format version"), || json!({"kind": "version-map", "name": near}));
                }
            }
        }
    }
    acc.sample(|| json!({"kind": "predicate", "document": preds[100].0, "json": preds[100].1}));
    acc.sample(|| json!({"kind": "statement", "document": stmts[5].0, "json": stmts[5].1}));
    // observation: StatementWrapper's derived Serialize is externally tagged and is not what its Deserialize reads
    c.extra.insert("observation_wrapper_derive_serialize".into(), json!("StatementWrapper derives an externally tagged Serialize ({\"V0_1\":{..}}) that its own Deserialize does not accept; the canonical form judged here is StateLayout::to_bytes"));
    c.acc = acc;
    c.rule = "predicates: Link v0.2 (4 env x 4 byproducts x 3 materials x 2 commands), SLSA v0.1 (all 16 recipe subsets, all 32 metadata subsets x 9 timestamp spellings (0..9 fractional digits), all 27 completeness settings (absent/true/false per member), 5 material lists, all 8 top-level subsets), SLSA v0.2 (all invocation/configSource subsets, metadata, 16 top-level subsets); statements: naive, and v0.1 with each of 4 declared types x predicates of every format x 2 subjects; every member name of every format injected one at a time with 3 values; 6 spellings of the statement's own _type on both statement shapes; the version every accepted value reports about itself; from_meta over C16's link family (incl. non-normalised paths), compared with the link's JSON form and with its fields spelled by the harness. distinct_nontrivial = base documents".into();
    c.bound_completed = format!("exhaustive per sub-structure, pairwise across; foreign-member injection on every {}th predicate", stride);
    c.assume("typed per-version parsers reached through hook H2 re-exports; canonical form = StateLayout/PredicateLayout::to_bytes");
    c.finish()
}

pub fn replay(case: &Value) -> Value {
    let mut acc = Acc::new();
    match case["kind"].as_str() {
        Some("predicate") => check_predicate(&mut acc, "replay", &case["json"]),
        Some("statement") => {
            let d = &case["json"];
            let declared = PRED_TYPES.iter().position(|t| Some(*t) == d["predicateType"].as_str());
            let text = d["predicate"].to_string();
            let typed = typed_predicate_accepts(&text);
            let contained = (0..3).find(|i| typed[*i].is_ok());
            check_statement(&mut acc, "replay", d, declared, contained);
        }
        Some("version-map") => return json!({"note": "re-run ./check C19 quick", "violation": null}),
        Some("from_meta") => check_from_meta(&mut acc),
        Some("from_meta_format") => check_from_meta_formats(&mut acc),
        _ => {}
    }
    json!({"violation": acc.violations.keys().next()})
}
