#!/usr/bin/env python3
"""Lists the public functions and trait impls of /repo/src (outside test modules and the hooks
module) and, for each, the checks whose sources name it. A name that no check mentions is an entry
point no check drives directly (it may still be reached through another function).
usage: tools/api_coverage.py [--markdown]"""
import re, os, sys, glob, collections
SRC='/repo/src'
names=collections.OrderedDict()
for path in sorted(glob.glob(SRC+'/**/*.rs', recursive=True)):
    if path.endswith('verif_hooks.rs'): continue
    txt=open(path).read()
    cut=txt.find('#[cfg(test)]')
    if cut>=0: txt=txt[:cut]
    rel=os.path.relpath(path, SRC)
    cur=None
    for line in txt.splitlines():
        m=re.match(r'\s*impl(?:<[^>]*>)?\s+(?:([\w:<>\[\]&\' ,]+?)\s+for\s+)?([\w:]+)', line)
        if m and not line.strip().startswith('//'):
            cur=(m.group(1) or '').strip(), m.group(2)
            if cur[0] and re.match(r'(From|FromStr|TryFrom|Default|Display|Serialize|Deserialize)', cur[0].split('<')[0].split('::')[-1]):
                names.setdefault(f'{rel}: impl {cur[0]} for {cur[1]}', (cur[1], cur[0]))
        m=re.match(r'\s*pub fn (\w+)', line)
        if m:
            owner=cur[1] if cur else ''
            names.setdefault(f'{rel}: {owner+"::" if owner else ""}{m.group(1)}', (owner, m.group(1)))
checks={}
for p in sorted(glob.glob('/verif/harness/src/props/c*.rs'))+['/verif/harness/src/world.rs','/verif/shared/battery.rs','/verif/harness/src/keys.rs']:
    checks[os.path.basename(p).replace('.rs','').upper() if 'props' in p else os.path.basename(p)]=open(p).read()
rows=[]
for k,(owner,fn) in names.items():
    if ' impl ' in k:
        # trait impls: look for the type name together with a typical use
        trait=fn.split('<')[0].split('::')[-1]
        pats={'From':[owner+'::from(', '.into()'], 'FromStr':[owner+'::from_str(', 'parse::<'+owner], 'TryFrom':[owner+'::try_from('], 'Default':[owner+'::default('], 'Display':['{}', '.to_string()'], 'Serialize':['to_value(', 'to_string('], 'Deserialize':['from_str::<'+owner, 'from_value', 'check::<'+owner]}.get(trait,[owner])
        hit=[c for c,t in checks.items() if owner in t and any(p in t for p in pats)]
    else:
        pat=re.compile(r'(?:\.|::)'+re.escape(fn)+r'\b')
        hit=[c for c,t in checks.items() if pat.search(t) and (not owner or owner in t or fn not in ('new','from','build','value','run','serialize','deserialize'))]
    rows.append((k,hit))
undriven=[k for k,h in rows if not h]
if '--markdown' in sys.argv:
    print('| Entry point | Named by |'); print('|---|---|')
    for k,h in rows: print(f'| `{k}` | {", ".join(h) if h else "**none**"} |')
else:
    for k,h in rows: print(('   ' if h else '!! ')+k+'  <- '+(', '.join(h) if h else 'none'))
print(f'\n{len(rows)} entry points, {len(undriven)} named by no check', file=sys.stderr)
