#!/bin/bash
# usage: tools/eval_seed.sh <ID> <worktree>
# 1. stores patch + demo under /verif/seeded/<ID>/
# 2. confirms in a scratch worktree: suite passes with the patch, demo fails with it and passes without it
# 3. applies the patch to /repo, runs the given checks (default: all quick), undoes it
ID="$1"; WT="$2"; shift 2; CHECKS="${@:-C01 C02 C03 C04 C05 C06 C07 C08 C09 C10 C11 C12 C13 C14 C15 C16 C17 C18 C19 C20}"
OUT=/verif/seeded/$ID; mkdir -p $OUT
git -C $WT diff -- src Cargo.toml > $OUT/patch.diff
[ -s $OUT/patch.diff ] || { echo "empty patch"; exit 1; }
cp $WT/tests/seeded_demo.rs $OUT/demo_seeded_demo.rs 2>/dev/null
cp $WT/SEEDED.md $OUT/SEEDED.md 2>/dev/null
C=/tmp/confirm-$ID; rm -rf $C; git -C /repo worktree add -q --detach $C HEAD; cp /repo/Cargo.lock $C/
export CARGO_NET_OFFLINE=true CARGO_TARGET_DIR=$C/target
cp $OUT/demo_seeded_demo.rs $C/tests/seeded_demo.rs
DEMOFLAGS=""; grep -q "cfg(in_toto_verif)" $OUT/demo_seeded_demo.rs && DEMOFLAGS="--cfg in_toto_verif"
# copy any extra fixture files the demo added under tests/
( cd $WT && git status --short -- tests | grep '^??' | awk '{print $2}' ) | while read f; do [ "$f" = "tests/seeded_demo.rs" ] || { mkdir -p $C/$(dirname $f); cp -r $WT/$f $C/$f; }; done
( cd $C && RUSTFLAGS="$DEMOFLAGS" cargo nextest run --test seeded_demo --no-fail-fast --offline 2>&1 | tail -3 ) > $OUT/demo_without_patch.log
git -C $C apply $OUT/patch.diff || { echo "patch does not apply"; exit 1; }
( cd $C && cargo nextest run --workspace --no-fail-fast --offline -E 'not binary(seeded_demo)' 2>&1 | tail -2 ) > $OUT/suite_with_patch.log
( cd $C && RUSTFLAGS="$DEMOFLAGS" cargo nextest run --test seeded_demo --no-fail-fast --offline 2>&1 | tail -6 ) > $OUT/demo_with_patch.log
git -C /repo worktree remove --force $C
echo "== demo without patch:"; tail -1 $OUT/demo_without_patch.log
echo "== suite with patch:"; tail -1 $OUT/suite_with_patch.log
echo "== demo with patch:"; tail -2 $OUT/demo_with_patch.log
# run the checks against the patched /repo
unset CARGO_TARGET_DIR
git -C /repo apply $OUT/patch.diff || { echo "patch does not apply to /repo"; exit 1; }
: > $OUT/checks.log
for c in $CHECKS; do
  r=$(cd /verif && ./check $c quick 2>&1); code=$?
  echo "$c exit=$code $(echo "$r" | grep -c '^VIOLATION') violations: $(echo "$r" | grep -o 'key=[^ ]*' | head -4 | tr '\n' ' ')" | tee -a $OUT/checks.log
done
git -C /repo checkout -- . ; git -C /repo status --short | head -3
