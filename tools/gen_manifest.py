#!/usr/bin/env python3
"""Regenerates /verif/MANIFEST.json from the table below (kept next to the harness so the
manifest never lists a check that does not exist)."""
import json, subprocess, sys

BUILT = set(sys.argv[1:]) if len(sys.argv) > 1 else None  # default: read BUILT file
if BUILT is None:
    BUILT = set(open('/verif/tools/BUILT').read().split())

T = {
 # id: (level, technique, text, note, design_ref)
 "C01": ("model_checking", "explicit-state BFS over post-signing mutation histories x signer sets x caller key maps, real in_toto_verify at every state",
         "Every state of (layout, signer subset, caller key map, mutation history up to the depth bound, signature corruption) is executed on the real verifier; acceptance implies the reference condition (non-empty, pairwise distinct keys, all of them valid signers, content unmodified).",
         "ring is a trusted black box; fixed key universe; mutation alphabet as listed in DESIGN 4/C01", "4/C01"),
 "C02": ("model_checking", "explicit-state BFS over link-directory populations (cell alphabet per (step,key)), real in_toto_verify at every state, reference counting model",
         "All populations of the link directory over the cell alphabet are reached by BFS from the empty and from the fully valid directory; at every state acceptance implies that enough authorised, key-table, validly signing keys have evidence.",
         "one or two steps, four functionary keys, fixed artifacts; ring trusted", "4/C02"),
 "C03": ("model_checking", "explicit-state BFS over rule lists (append one rule) x artifact configurations, real rule engine vs specification reference at every state, queue observed through DISALLOW probes; end-to-end conformance through in_toto_verify",
         "Decision and remaining-queue equality with the specification's algorithm for every rule list up to the depth bound over every artifact configuration of the alphabet.",
         "portable glob subset (self-tested against glob::Pattern); normalised relative paths", "4/C03"),
 "C04": ("model_checking", "explicit-state enumeration of signature-list histories x authorised-key sequences x thresholds with a reference automaton, plus DFS over every iteration order of the internal signature map (hook site F)",
         "Every signature list up to the length bound over the entry alphabet, for every authorised sequence and threshold, checked against the counting automaton in both directions the statement gives.",
         "ring trusted; fixed keys per type", "4/C04"),
 "C05": ("exploration", "exhaustive finite-domain enumeration; signed bytes observed through deterministic Ed25519 signatures; pairwise collision search via one hash map",
         "All metadata values of the field alphabets are signed; unequal values must have different signed bytes; every single-field edit of a signed document must invalidate its signatures and the inverse edit must restore them.",
         "Ed25519 signing is deterministic and collision-free on distinct messages (assumed)", "4/C05"),
 "C06": ("exploration", "exhaustive grid over expiry notation x instant x verification time through the clock seam (hook H3)",
         "Every (expiry instant, notation, now) of the grid is run through the real verifier, top-level and delegated; acceptance implies expiry >= now by an independent RFC 3339 reader.",
         "clock seam is transparent (checked against the hooks-off binary)", "4/C06"),
 "C07": ("model_checking", "explicit-state BFS over per-link variation vectors, every iteration order of the reference-link choice (hook site C) by DFS",
         "All vectors of per-link variations for k links and threshold t; acceptance implies pairwise equal materials and products among validly signed authorised links.",
         "ring trusted", "4/C07"),
 "C08": ("model_checking", "stateless DFS over fault-injection choice vectors (stage of failure x inspection command x rule), deviation-bounded, observing sentinel files and link files",
         "Every single-fault (thorough: double-fault) execution of the stage machine on the real verifier; no inspection side effect may be observed when a stage before it failed; failing inspections must fail verification.",
         "real /bin/sh; finite command menu", "4/C08"),
 "C09": ("exploration", "exhaustive finite-domain enumeration over strings x key types x signer sequences x construction paths x output layouts; every single-bit flip of every signature",
         "Signed by the library, written, read back, verified with threshold = number of signers; negative space: other key, every bit flip, other scheme.",
         "ring trusted", "4/C09"),
 "C10": ("exploration", "exhaustive enumeration of a JSON value grammar, every Unicode scalar value, integer boundary set and all spellings of a value subset",
         "Property-derived oracle (parse-back identity, token-level structure, spelling independence, float rejection) over the complete grammar up to the depth bound.",
         "serde_json parser is the JSON reader", "4/C10"),
 "C11": ("exploration", "exhaustive enumeration of every Unicode scalar value and all short strings over the critical alphabet in every string-bearing field, compared with an independent OLPC encoder anchored on Python-made fixtures",
         "Signed bytes (observed through Ed25519 signatures and through acceptance of reference-made signatures) equal the reference canonical JSON for every enumerated document; key ids equal the reference preimage hash.",
         "reference encoder bound to the Python implementation by four fixture documents", "4/C11"),
 "C12": ("exploration", "exhaustive enumeration of keys x construction paths x hash-algorithm lists; BFS over key-table construction histories",
         "Key id equals the reference preimage hash on every path; standard SPKI encodings import and re-export unchanged; parsed key tables never alias.",
         "fixed key set per type", "4/C12"),
 "C13": ("model_checking", "stateless DFS over permutation choice vectors at every hash-map / directory iteration site (hook H4), deviation-bounded",
         "For each configuration every schedule of iteration orders is executed on the real verifier; the set of outcomes must be a singleton.",
         "sites without a hook are listed by the site-coverage lint", "4/C13"),
 "C14": ("fault_enumeration", "exhaustive fault menu: all short byte strings, every truncation and byte-level corruption of every fixture, every node-level JSON mutation, well-typed adversarial documents; crash-isolating worker processes",
         "Every entry point returns a value or an error for every enumerated input; panics are attributed to their source location.",
         "stack overflow / abort observed as worker death", "4/C14"),
 "C15": ("model_checking", "explicit-state BFS over delegation-tree populations from the fully valid tree, reference recursive verification model and summary-link model",
         "Every single (thorough: double) deviation of a delegation tree is executed on the real verifier; acceptance implies the recursive conditions and the summary equals the reference.",
         "ring trusted", "4/C15"),
 "C16": ("exploration", "exhaustive enumeration of metadata value families and of generated JSON texts; value and byte round trips",
         "parse(ser(v)) == v and ser(parse(ser(v))) == ser(v) for every enumerated value, compact and pretty; accepted texts keep their listed fields.",
         "hash-seed dimension of digest maps is sampled (flagged)", "4/C16"),
 "C17": ("exploration", "exhaustive enumeration of documents x channels x spellings (each string token escaped alone)",
         "Same accept/reject and equal value across from_str, from_slice, from_reader, byte-at-a-time reader, from_value and every spelling.",
         "serde_json is the JSON reader", "4/C17"),
 "C18": ("model_checking", "explicit-state BFS over filesystem operation histories building directory trees, real record_artifacts / in_toto_run vs an independent walker",
         "Every tree up to the node bound x path lists x strip prefixes x algorithms is recorded by the real code in a private cwd and compared with the reference walk; the byproducts of a step are compared byte for byte over the product of an alphabet of standard-output contents, standard-error contents and exit statuses.",
         "real filesystem (tmpfs); no dangling links, devices or permission errors", "4/C18"),
 "C19": ("exploration", "exhaustive enumeration of optional-member subsets per format, foreign-member injections and declared-type x predicate-format pairs",
         "Unique format recognition, canonical round trip, declared type = contained format, from_meta carries the link over unchanged.",
         "typed per-version parsers reached through hook H2", "4/C19"),
 "C20": ("exploration", "exhaustive enumeration of (type, payload) pairs and of all byte strings up to a length over the framing alphabet",
         "Round trip, injectivity (one hash set over all packed encodings), equality with the DSSE v1 reference, and decode totality over the complete bounded space.",
         "payload types are UTF-8 strings", "4/C20"),
}

hooks_commits = subprocess.run(
    ["git", "-C", "/repo", "log", "--format=%h %s", "--grep", "verif hooks"],
    capture_output=True, text=True).stdout.strip().splitlines()

checks, na = [], []
for pid, (level, tech, text, note, ref) in sorted(T.items()):
    if pid in BUILT:
        checks.append({
            "property_id": pid,
            "quick_cmd": f"./check {pid} quick",
            "thorough_cmd": f"./check {pid} thorough",
            "evidence_file": f"/verif/evidence/{pid}.json",
            "replay_cmd_template": f"./check {pid} --replay {{path}}",
            "engine": "itv",
            "level_claimed": {"category": level, "text": text, "design_ref": f"DESIGN.md section {ref}"},
            "level_note": note,
            "technique": tech,
        })
    else:
        na.append({"property_id": pid, "reason": "check not built yet (work in progress; the design is in DESIGN.md section " + ref + ")"})

m = {
    "version": 1,
    "setup_cmd": "./setup.sh",
    "hooks": {
        "guard": "in_toto_verif",
        "enable": "RUSTFLAGS=\"--cfg in_toto_verif\" (set by ./check and ./setup.sh; the harness crate depends on /repo by path, so every check rebuilds the library from the current working tree)",
        "baseline_off_cmd": "cd /repo && cargo nextest run --workspace --no-fail-fast --offline",
        "source_commits": [c.split()[0] for c in hooks_commits],
        "add_only": True,
    },
    "engines": [{
        "name": "itv", "path": "/verif/harness",
        "serves_properties": sorted(BUILT),
        "kind_free_text": "Rust harness linking the real library (hooks on): explicit-state BFS (E1), deviation-bounded stateless DFS over choice vectors (E2), exhaustive finite-domain enumeration (E3); see DESIGN.md section 1",
    }],
    "checks": checks,
    "not_applicable": na,
    "notes": "Exit codes: 0 held / only known findings, 1 VIOLATION, 2 machinery error (never a verdict). known_findings.json is read-only at run time.",
}
json.dump(m, open('/verif/MANIFEST.json', 'w'), indent=1)
print("checks:", len(checks), "not_applicable:", len(na))
