#!/bin/bash
# usage: tools/recheck_seed.sh <seeded-dir-name> [checks...]
# Applies /verif/seeded/<name>/patch.diff to /repo (3-way if the context has moved), runs the given
# quick checks (default: the check of the mutant's own property), restores /repo.
NAME="$1"; shift
OWN=${NAME%%-*}
CHECKS="${@:-$OWN}"
P=/verif/seeded/$NAME/patch.diff; [ -s /verif/seeded/$NAME/patch_ported_to_repaired_tree.diff ] && P=/verif/seeded/$NAME/patch_ported_to_repaired_tree.diff
[ -s "$P" ] || { echo "no patch for $NAME"; exit 2; }
[ -z "$(git -C /repo status --porcelain)" ] || { echo "/repo not clean"; exit 2; }
if ! git -C /repo apply "$P" 2>/dev/null; then
  git -C /repo apply --3way "$P" >/dev/null 2>&1 || { echo "$NAME: patch does not apply (even 3-way)"; git -C /repo reset -q --hard HEAD; exit 3; }
  echo "$NAME: applied 3-way"
fi
for c in $CHECKS; do
  r=$(cd /verif && ./check $c quick 2>&1); code=$?
  echo "$NAME: $c exit=$code $(echo "$r" | grep -c '^VIOLATION') violations: $(echo "$r" | grep -o 'key=[^ ]*' | head -5 | tr '\n' ' ')"
done
git -C /repo reset -q --hard HEAD
git -C /repo status --porcelain | head -3
